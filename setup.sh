#!/bin/sh
# builds the analysis tools into /verif/build (offline; ~30 s)
set -e
cd "$(dirname "$0")"
mkdir -p build evidence out
clang++ $(llvm-config-14 --cxxflags) -std=c++17 -fno-rtti -O1 tools/jpfacts/jpfacts.cc -o build/jpfacts \
    /usr/lib/llvm-14/lib/libclang-cpp.so.14 /usr/lib/llvm-14/lib/libLLVM-14.so
clang++ $(llvm-config-14 --cxxflags) -std=c++17 -fno-rtti -O1 tools/jpir/jpir.cc -o build/jpir /usr/lib/llvm-14/lib/libLLVM-14.so
echo "setup ok"
