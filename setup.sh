#!/bin/sh
# builds the analysis tools into /verif/build (offline)
set -e
cd "$(dirname "$0")"
mkdir -p build evidence out
