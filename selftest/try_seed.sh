#!/bin/bash
# try_seed.sh <repo dir with the change applied> [tier]: runs every check against that tree (JPV_REPO) and lists the verdicts
D=$1; T=${2:-quick}
cd "$(dirname "$0")/.."
run1() { i=$1; out=$(JPV_REPO=$D ./check C$i --tier $T 2>&1); rc=$?; if [ $rc -ne 0 ]; then echo "C$i exit=$rc"; echo "$out" | grep -E "VIOLATION|ANALYSIS-BROKEN|violation" | cut -c1-300 | head -4; fi; }
export -f run1; export D T
seq -w 1 20 | xargs -P5 -I{} bash -c 'run1 {}' 
echo "-- done ($T)"
