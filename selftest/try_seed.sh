#!/bin/bash
# try_seed.sh <repo dir with the change applied> [tier]: runs every check against that tree (JPV_REPO) and lists the verdicts
D=$1; T=${2:-quick}
cd "$(dirname "$0")/.."
for i in $(seq -w 1 20); do
  ( out=$(JPV_REPO=$D ./check C$i --tier $T 2>&1); rc=$?; if [ $rc -ne 0 ]; then echo "C$i exit=$rc"; echo "$out" | grep -E "VIOLATION|ANALYSIS-BROKEN|violation" | cut -c1-400 | head -6; fi ) > /tmp/try_seed.$$.C$i &
done; wait
cat /tmp/try_seed.$$.C* ; rm -f /tmp/try_seed.$$.C*
echo "-- done ($T)"
