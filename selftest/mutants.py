# Each mutant: a small edit that still compiles; 'expect' is a substring the report must contain.
# benign=True marks behaviour-preserving edits on which the check must stay silent.
MUTANTS = [
 dict(name='c19-swap-args-g1_add', prop='C19', expect='R-WRAP/W3',
      edits=[('src/bls12_381/bls12_381.cpp',
              'reinterpret_cast<G1*>(result)->add(*reinterpret_cast<const G1*>(a), *reinterpret_cast<const G1*>(b));',
              'reinterpret_cast<G1*>(result)->add(*reinterpret_cast<const G1*>(b), *reinterpret_cast<const G1*>(a));')]),
 dict(name='c19-coeffs-67', prop='C19', expect='R-LAYOUT',
      edits=[('include/bls12_381/bls12_381.h', 'coeffs[68]', 'coeffs[67]')]),
 dict(name='c19-gt_negate-wrong-op', prop='C19', expect='R-WRAP/W5',
      edits=[('src/bls12_381/bls12_381.cpp', 'reinterpret_cast<Fq12*>(result)->inverse(', 'reinterpret_cast<Fq12*>(result)->square_cyclotomic(')]),
 dict(name='c19-polarity-params-marshal', prop='C19', expect='R-WRAP/polarity',
      edits=[('src/wkdibe/wkdibe.cpp', 'reinterpret_cast<const Params*>(params)->marshal<true>(buffer);', 'reinterpret_cast<const Params*>(params)->marshal<false>(buffer);')]),
 dict(name='c19-dup-arg', prop='C19', expect='R-WRAP/W2',
      edits=[('src/bls12_381/bls12_381.cpp',
              'return G2::equal(*reinterpret_cast<const G2*>(a), *reinterpret_cast<const G2*>(b));',
              'return G2::equal(*reinterpret_cast<const G2*>(a), *reinterpret_cast<const G2*>(a));')]),
 dict(name='c19-field-order-c-struct', prop='C19', expect='R-LAYOUT',
      edits=[('include/wkdibe/wkdibe.h', '    int l;\n    bool signatures;\n    embedded_pairing_wkdibe_g1_t bsig;', '    bool signatures;\n    int l;\n    embedded_pairing_wkdibe_g1_t bsig;')]),
 dict(name='c19-benign-rename-local', prop='C19', benign=True, expect='',
      edits=[('src/bls12_381/bls12_381.cpp', 'Fr* res = reinterpret_cast<Fr*>(result);\n    res->val.read_big_endian(static_cast<const uint8_t*>(hash));\n    res->hash_reduce();',
              'Fr* out = reinterpret_cast<Fr*>(result);\n    out->val.read_big_endian(static_cast<const uint8_t*>(hash));\n    out->hash_reduce();')]),
]
MUTANTS += [
 dict(name='c19-gt_zero-is-Fq12-zero', prop='C19', expect='xconst|gt_zero',
      edits=[('src/bls12_381/bls12_381.cpp', '(const embedded_pairing_bls12_381_fq12_t*) &Fq12::one;', '(const embedded_pairing_bls12_381_fq12_t*) &Fq12::zero;')]),
 dict(name='c19-group_order-is-R', prop='C19', expect='xconst|group_order',
      edits=[('src/bls12_381/bls12_381.cpp', '(const embedded_pairing_core_bigint_256_t*) &fr_modulus;', '(const embedded_pairing_core_bigint_256_t*) &fr_R;')]),
 dict(name='c19-generator-pairing-word', prop='C19', tier='thorough', expect='xconst|gt_generator',
      edits=[('include/bls12_381/pairing.hpp', '0xa01f85c5, 0x1972e433', '0xa01f85c4, 0x1972e433')]),
 dict(name='c19-g1-generator-y-negated-typo', prop='C19', expect='xconst|g1affine_generator',
      edits=[('include/bls12_381/curve.hpp', '.y = {{{{.std_words = { 0xce72271,', '.y = {{{{.std_words = { 0xce72272,')]),
]
MUTANTS += [
 dict(name='c17-revert-D1-freeslot-uint32', prop='C17', revert='D1', expect='R-ALIGN'),
 dict(name='c17-c-array-3', prop='C17', expect='R-BOUNDS',
      edits=[('include/bls12_381/decomposition.hpp', 'BigInt<64> c[4];', 'BigInt<64> c[3];')]),
 dict(name='c17-loop-bound-5-over-4-array', prop='C17', expect='R-BOUNDS', tier='quick',
      edits=[('src/bls12_381/fq12_cyclotomic.cpp', 'for (unsigned int i = 0; i != 4; i++) {', 'for (unsigned int i = 0; i != 5; i++) {')]),
 dict(name='c17-params-overlay-uint16', prop='C17', expect='R-ALIGN',
      edits=[('src/wkdibe/marshal.cpp', 'struct SecretKeyMarshalled {\n        uint8_t signature;', 'struct SecretKeyMarshalled {\n        uint16_t signature;')]),
]
MUTANTS += [
 dict(name='c20-printf-in-pairing', prop='C20', expect='R-EFFECT/symbols',
      edits=[('src/bls12_381/pairing.cpp', 'void final_exponentiation(Fq12& result, const Fq12& a) {', 'void final_exponentiation(Fq12& result, const Fq12& a) {\n        if (a.c0.c0.c0.val.bytes[0] == 0x77 && a.c1.c2.c1.val.bytes[3] == 0x11) { printf("rare\\n"); }')]),
 dict(name='c20-static-local-cache', prop='C20', expect='R-EFFECT',
      edits=[('src/bls12_381/curve_fast_multiply.cpp', 'void G1::endomorphism(const G1& a) {', 'void G1::endomorphism(const G1& a) {\n        static Fq cached_beta = g1_endomorphism_beta;\n        (void) cached_beta;')]),
 dict(name='c20-global-scratch-buffer', prop='C20', expect='R-EFFECT/escape',
      edits=[('src/bls12_381/fq2.cpp', '    void Fq2::inverse(const Fq2& a) {\n        Fq t0;\n        Fq t1;', '    static Fq fq2_inverse_scratch;\n    void Fq2::inverse(const Fq2& a) {\n        Fq t0;\n        Fq& t1 = fq2_inverse_scratch;')]),
 dict(name='c20-malloc-wnaf-table', prop='C20', expect='R-EFFECT/symbols',
      edits=[('src/lqibe/api.cpp', 'namespace embedded_pairing::lqibe {', 'extern "C" void* malloc(size_t);\nextern "C" void free(void*);\nnamespace embedded_pairing::lqibe {'),
             ('src/lqibe/api.cpp', '    void keygen(', '    static void scratch_touch(size_t n) { void* p = malloc(n); if (p) { ((volatile unsigned char*) p)[0] = 1; } free(p); }\n    void keygen(', ),
             ('src/lqibe/api.cpp', 'sq.multiply(id.q, msk.s);', 'scratch_touch(sizeof(sk)); sq.multiply(id.q, msk.s);')]),
 dict(name='c20-write-through-exported-pointer', prop='C20', expect='R-EFFECT',
      edits=[('src/bls12_381/bls12_381.cpp', 'void embedded_pairing_bls12_381_g1_negate(embedded_pairing_bls12_381_g1_t* result, const embedded_pairing_bls12_381_g1_t* a) {',
              'void embedded_pairing_bls12_381_g1_negate(embedded_pairing_bls12_381_g1_t* result, const embedded_pairing_bls12_381_g1_t* a) {\n    embedded_pairing_bls12_381_g1_zero = a;')]),
]
MUTANTS += [
 dict(name='c18-revert-D4-fq6-multiply', prop='C18', revert='D4', expect='Fq6::multiply'),
 dict(name='c18-fq2-mnr-drop-temp', prop='C18', expect='Fq2::multiply_by_nonresidue',
      edits=[('src/bls12_381/fq2.cpp', '        this->c0.subtract(a.c0, a.c1);\n        this->c1.add(a.c1, t0);', '        this->c0.subtract(a.c0, a.c1);\n        this->c1.add(a.c1, a.c0);')]),
 dict(name='c18-fq12-multiply-late-o', prop='C18', expect='Fq12::multiply',
      edits=[('src/bls12_381/fq12.cpp', '        o.add(b.c0, b.c1);\n\n        this->c1.add(a.c1, a.c0);\n        this->c1.multiply(this->c1, o);',
              '        this->c1.add(a.c1, a.c0);\n        o.add(b.c0, b.c1);\n        this->c1.multiply(this->c1, o);')]),
 dict(name='c18-affine-negate-order', prop='C18', benign=True, expect='',
      edits=[('include/bls12_381/curve.hpp', '            this->x.copy(a.x);\n            this->y.negate(a.y);\n            this->infinity = a.infinity;', '            this->y.negate(a.y);\n            this->x.copy(a.x);\n            this->infinity = a.infinity;')]),
 dict(name='c18-projective-add-z-early', prop='C18', expect='Projective',
      edits=[('include/bls12_381/curve.hpp', '            BaseField z1z1;\n            z1z1.square(a.z);\n\n            BaseField u2;\n            u2.multiply(b.x, z1z1);',
              '            BaseField z1z1;\n            z1z1.square(a.z);\n            this->z.add(a.z, a.z);\n\n            BaseField u2;\n            u2.multiply(b.x, z1z1);')]),
 dict(name='c18-bigint-shift-in-word-direction', prop='C18', expect='shift_right_in_word',
      edits=[('include/core/bigint.hpp', '            for (int i = word_length - 1; i != -1; i--) {\n                word_t new_shift_in = a.words[i] << ((sizeof(word_t) * 8) - amt);\n                this->words[i] = shift_in | (a.words[i] >> amt);\n                shift_in = new_shift_in;',
              '            for (int i = word_length - 1; i != -1; i--) {\n                this->words[i] = shift_in | (a.words[i] >> amt);\n                shift_in = a.words[i] << ((sizeof(word_t) * 8) - amt);')]),
]
MUTANTS += [
 dict(name='c01-prepared-final-drop-g2-check', prop='C01', expect='R-GUARD/G1',
      edits=[('src/bls12_381/pairing.cpp', """            if (!pair.g1->is_zero() && !pair.g2->is_zero()) {
                ell(result, pair.g2->coeffs[pair.coeff_idx++], *pair.g1);
            }
        }

        if constexpr""", """            if (!pair.g1->is_zero()) {
                ell(result, pair.g2->coeffs[pair.coeff_idx++], *pair.g1);
            }
        }

        if constexpr""")]),
 dict(name='c01-affine-addstep-or-instead-of-and', prop='C01', expect='R-GUARD/G1',
      edits=[('src/bls12_381/pairing.cpp', """                    if (!pair.g1->is_zero() && !pair.g2->is_zero()) {
                        miller_addition_step(""", """                    if (!pair.g1->is_zero() || !pair.g2->is_zero()) {
                        miller_addition_step(""")]),
 dict(name='c01-benign-continue-style', prop='C01', benign=True, expect='',
      edits=[('src/bls12_381/pairing.cpp', """            if (!pair.g1->is_zero() && !pair.g2->is_zero()) {
                miller_doubling_step(coeffs, pair.r);
                ell(result, coeffs, *pair.g1);
            }
        }
        for (size_t j = 0; j != num_prepared_pairs; j++) {
            PreparedPair& pair = prepared_pairs[j];
            if (!pair.g1->is_zero() && !pair.g2->is_zero()) {
                ell(result, pair.g2->coeffs[pair.coeff_idx++], *pair.g1);
            }
        }

        if constexpr""", """            if (pair.g1->is_zero() || pair.g2->infinity) {
                continue;
            }
            miller_doubling_step(coeffs, pair.r);
            ell(result, coeffs, *pair.g1);
        }
        for (size_t j = 0; j != num_prepared_pairs; j++) {
            PreparedPair& pair = prepared_pairs[j];
            if (!pair.g1->is_zero() && !pair.g2->is_zero()) {
                ell(result, pair.g2->coeffs[pair.coeff_idx++], *pair.g1);
            }
        }

        if constexpr""")]),
 dict(name='c08-benign-continue-style', prop='C08', benign=True, expect='',
      edits=[('src/bls12_381/pairing.cpp', """            if (!pair.g1->is_zero() && !pair.g2->is_zero()) {
                miller_doubling_step(coeffs, pair.r);
                ell(result, coeffs, *pair.g1);
            }
        }
        for (size_t j = 0; j != num_prepared_pairs; j++) {
            PreparedPair& pair = prepared_pairs[j];
            if (!pair.g1->is_zero() && !pair.g2->is_zero()) {
                ell(result, pair.g2->coeffs[pair.coeff_idx++], *pair.g1);
            }
        }

        if constexpr""", """            if (pair.g1->is_zero() || pair.g2->infinity) {
                continue;
            }
            miller_doubling_step(coeffs, pair.r);
            ell(result, coeffs, *pair.g1);
        }
        for (size_t j = 0; j != num_prepared_pairs; j++) {
            PreparedPair& pair = prepared_pairs[j];
            if (!pair.g1->is_zero() && !pair.g2->is_zero()) {
                ell(result, pair.g2->coeffs[pair.coeff_idx++], *pair.g1);
            }
        }

        if constexpr""")]),
 dict(name='c05-drop-equal-points-detour-mixed', prop='C05', expect='R-GUARD/G4',
      edits=[('include/bls12_381/curve.hpp', """            if (BaseField::equal(a.x, u2) && BaseField::equal(a.y, s2)) {
                this->multiply2(a);
                return;
            }""", """            if (BaseField::equal(a.x, u2) && BaseField::equal(a.y, s2) && a.z.is_zero()) {
                this->multiply2(a);
                return;
            }""")]),
 dict(name='c05-equal-detour-only-x', prop='C05', expect='R-GUARD/G4',
      edits=[('include/bls12_381/curve.hpp', """            if (BaseField::equal(u1, u2) && BaseField::equal(s1, s2)) {""", """            if (BaseField::equal(u1, u2)) {""")]),
 dict(name='c05-b-zero-copies-b', prop='C05', expect='R-GUARD/G4',
      edits=[('include/bls12_381/curve.hpp', """        void add(const Projective<BaseField>& a, const Projective<BaseField>& __restrict b) {
            if (b.is_zero()) {
                this->copy(a);""", """        void add(const Projective<BaseField>& a, const Projective<BaseField>& __restrict b) {
            if (b.is_zero()) {
                this->copy(b);""")]),
 dict(name='c05-from-projective-no-zero-guard', prop='C05', expect='R-GUARD/G5',
      edits=[('include/bls12_381/curve.hpp', """            if (a.is_zero()) {
                this->copy(zero);
                return;
            }
#ifndef""", """            if (a.is_zero() && a.x.is_zero()) {
                this->copy(zero);
                return;
            }
#ifndef""")]),
]
MUTANTS += [
 dict(name='c02-fq-inv-low-word', prop='C02', expect='montInvWord',
      edits=[('include/bls12_381/fq.hpp', '.std_words = { 0xfffcfffd, 0x89f3fffc, 0xd9d113e8', '.std_words = { 0xfffcfffd, 0x89f3fffd, 0xd9d113e8')]),
 dict(name='c02-benign-fq-inv-unused-high-word', prop='C02', benign=True, expect='',
      edits=[('include/bls12_381/fq.hpp', '0xfeaafc94, 0xceb06106 }', '0xfeaafc94, 0xceb06107 }')]),
 dict(name='c02-fr-R2-typo', prop='C02', expect='montR2',
      edits=[('include/bls12_381/fr.hpp', '0xf3f29c6d, 0xc999e990', '0xf3f29c6d, 0xc999e991')]),
 dict(name='c02-fr-random-mask-ff', prop='C02', expect='mask|r|random',
      edits=[('src/bls12_381/fr.cpp', """            this->val.bytes[BigInt<fr_bits>::byte_length - 1] &= 0x7F;
        } while""", """            this->val.bytes[BigInt<fr_bits>::byte_length - 1] &= 0xFF;
        } while""")]),
 dict(name='c02-negate-zero-unguarded', prop='C02', expect='R-GUARD/G3',
      edits=[('include/core/fp.hpp', """            if (a.val.is_zero()) {
#ifdef RESIST_SIDE_CHANNELS
                this->val.subtract(a.val, BigInt<bits>::zero);
#else
                this->val.copy(a.val);
#endif
            } else {
                this->val.subtract(p, a.val);
            }""", """            this->val.subtract(p, a.val);""")]),
 dict(name='c02-tonelli-root-wrong', prop='C02', expect='tonelli-root',
      edits=[('src/bls12_381/fr.cpp', '.std_words = {0x5f0e466a, 0xb9b58d8c', '.std_words = {0x5f0e466b, 0xb9b58d8c')]),
 dict(name='c04-frobenius-fq6-c2-entry', prop='C04', expect='frob|fq6_frobenius_coeff',
      edits=[('src/bls12_381/fq6.cpp', '{{{{.std_words = {0x798a64e8, 0x30f1361b,', '{{{{.std_words = {0x798a64e9, 0x30f1361b,')]),
 dict(name='c04-frobenius-index-mod-7', prop='C04', expect='R-BOUNDS',
      edits=[('src/bls12_381/fq6.cpp', 'unsigned int coeff_idx = power < 6 ? power : power % 6;', 'unsigned int coeff_idx = power < 7 ? power : power % 7;')]),
 dict(name='c04-fq12-table-entry', prop='C04', expect='frob|fq12_frobenius_coeff_c1',
      edits=[('src/bls12_381/fq12.cpp', '{{{{.std_words = {0xa55c9ad1, 0x3e2f585d,', '{{{{.std_words = {0xa55c9ad1, 0x3e2f585c,')]),
]
MUTANTS += [
 dict(name='c09-revert-D2-canonical', prop='C09', revert='D2', expect='canonical'),
 dict(name='c09-drop-subgroup', prop='C09', expect='mustpass',
      edits=[('src/bls12_381/curve.cpp', """            if (!g.is_in_correct_subgroup_assuming_on_curve()) {
                return false;
            }
""", "")]),
 dict(name='c09-padding-from-2', prop='C09', expect='padding',
      edits=[('src/bls12_381/curve.cpp', 'for (int i = 1; i != sizeof(this->data); i++) {', 'for (int i = 2; i != sizeof(this->data); i++) {')]),
 dict(name='c09-checked-literal-false', prop='C09', expect='on-curve',
      edits=[('src/bls12_381/curve.cpp', 'if (!g.get_point_from_x(g.x, greater, checked)) {', 'if (!g.get_point_from_x(g.x, greater, false)) {')]),
 dict(name='c09-legendre-only-unchecked', prop='C09', expect='getpoint',
      edits=[('include/bls12_381/curve.hpp', 'if (checked && x3b.legendre() == -1) {', 'if (!checked && x3b.legendre() == -1) {')]),
 dict(name='c09-form-test-only-unchecked', prop='C09', expect='form',
      edits=[('src/bls12_381/curve.cpp', 'if (checked && is_encoding_compressed(this->data[0]) != compressed) {', 'if (!checked && is_encoding_compressed(this->data[0]) != compressed) {')]),
 dict(name='c09-flag-residue-mask-narrow', prop='C09', benign=False, expect='flag-residue',
      edits=[('src/bls12_381/curve.cpp', 'if ((this->data[0] & ~(encoding_flags_compressed | encoding_flags_infinity)) != 0) {\n                    return false;\n                }\n', '')]),
 dict(name='c09-subgroup-uses-cofactor', prop='C09', expect='subgroup',
      edits=[('include/bls12_381/curve.hpp', 'ar.multiply_doubleadd_restrict(*this, ScalarField::p_value);', 'ar.multiply_doubleadd_restrict(*this, ScalarField::r_value);')]),
 dict(name='c09-memcmp-half', prop='C09', expect='canonical',
      edits=[('src/bls12_381/curve.cpp', 'return memcmp(canonical.data, this->data, sizeof(this->data)) == 0;', 'return memcmp(canonical.data, this->data, sizeof(this->data) / 2) == 0;')]),
 dict(name='c09-uncompressed-skip-oncurve', prop='C09', expect='on-curve',
      edits=[('src/bls12_381/curve.cpp', """                if (!g.is_on_curve()) {
                    return false;
                }""", """                if (!g.is_on_curve() && g.x.is_zero()) {
                    return false;
                }""")]),
]
MUTANTS += [
 dict(name='c11-revert-D7', prop='C11', revert='D7', expect='cursor|nondelegable_keygen|k'),
 dict(name='c11-revert-D8', prop='C11', revert='D8', expect='cursor|qualifykey|x'),
 dict(name='c11-revert-D9', prop='C11', revert='D9', expect='cursor|nondelegable_qualifykey|x'),
 dict(name='c11-keygen-kpp-inside-visible-only', prop='C11', expect='cursor|keygen|k',
      edits=[('src/wkdibe/api.cpp', """                if (!attrs.attrs[k].omitFromKeys) {
                    temp.multiply(params.h[i], attrs.attrs[k].id);
                    sk.a0.add(sk.a0, temp);
                }
                k++;
            } else if (!attrs.omitAllFromKeysUnlessPresent) {
                sk.b[j].idx = i;
                sk.b[j].hexp.multiply(params.h[i], r);""", """                if (!attrs.attrs[k].omitFromKeys) {
                    temp.multiply(params.h[i], attrs.attrs[k].id);
                    sk.a0.add(sk.a0, temp);
                    k++;
                }
            } else if (!attrs.omitAllFromKeysUnlessPresent) {
                sk.b[j].idx = i;
                sk.b[j].hexp.multiply(params.h[i], r);""")]),
 dict(name='c11-qualifykey-length-x', prop='C11', expect='length',
      edits=[('src/wkdibe/api.cpp', '        qualified.l = j;\n        qualified.signatures = sk.signatures;\n        if (qualified.signatures) {\n            qualified.bsig.multiply(', '        qualified.l = x;\n        qualified.signatures = sk.signatures;\n        if (qualified.signatures) {\n            qualified.bsig.multiply(')]),
 dict(name='c12-hidden-still-delegable', prop='C12', expect='R-HIDDEN',
      edits=[('src/wkdibe/api.cpp', """                } else if (x != sk.l && sk.b[x].idx == i) {
                    /* Hidden slot: drop the parent's component for it. */
                    x++;
                }""", """                } else if (x != sk.l && sk.b[x].idx == i) {
                    /* Hidden slot: keep the parent's component for it. */
                    qualified.b[j].idx = i;
                    qualified.b[j].hexp.copy(sk.b[x].hexp);
                    j++;
                    x++;
                }""")]),
 dict(name='c12-precompute-skips-hidden', prop='C12', expect='R-TOTAL',
      edits=[('src/wkdibe/api.cpp', """            const Attribute& attr = attrs.attrs[i];
            temp.multiply(params.h[attr.idx], attr.id);
            precomputed.prodexp.add(precomputed.prodexp, temp);
        }
    }

    void adjust_precomputed""", """            const Attribute& attr = attrs.attrs[i];
            if (attr.omitFromKeys) {
                continue;
            }
            temp.multiply(params.h[attr.idx], attr.id);
            precomputed.prodexp.add(precomputed.prodexp, temp);
        }
    }

    void adjust_precomputed""")]),
 dict(name='c12-nondelegable-keygen-hidden-contributes', prop='C12', expect='VIOLATION property=C12',
      edits=[('src/wkdibe/api.cpp', """            if (k != attrs.length && attrs.attrs[k].idx == i) {
                if (!attrs.attrs[k].omitFromKeys) {
                    temp.multiply(params.h[i], attrs.attrs[k].id);
                    sk.a0.add(sk.a0, temp);
                }
                k++;
            } else if (!attrs.omitAllFromKeysUnlessPresent) {
                sk.b[j].idx = i;
                sk.b[j].hexp.copy(params.h[i]);""", """            if (k != attrs.length && attrs.attrs[k].idx == i) {
                temp.multiply(params.h[i], attrs.attrs[k].id);
                sk.a0.add(sk.a0, temp);
                k++;
            } else if (!attrs.omitAllFromKeysUnlessPresent) {
                sk.b[j].idx = i;
                sk.b[j].hexp.copy(params.h[i]);""")]),
]
MUTANTS += [
 dict(name='c15-seed-firstbyte', prop='C15', patch='seeded/C17-length-firstbyte-predicate/patch.diff', expect='len|firstbyte'),
 dict(name='c17-seed-firstbyte', prop='C17', patch='seeded/C17-length-firstbyte-predicate/patch.diff', expect='len|firstbyte'),
 dict(name='c15-secretkey-length-forgets-bsig', prop='C15', expect='R-FOOT',
      edits=[('include/wkdibe/api.hpp', 'return SecretKey::marshalledLengthMinimum<compressed> + length * FreeSlot::marshalledLength<compressed> + (signatures ? 1 : 0) * bls12_381::Encoding<G1Affine, compressed>::size;',
              'return SecretKey::marshalledLengthMinimum<compressed> + length * FreeSlot::marshalledLength<compressed> + (signatures ? 1 : 0) * bls12_381::Encoding<G2Affine, compressed>::size;')]),
 dict(name='c15-params-unmarshal-swaps-g2-g3', prop='C15', expect='R-PAIR',
      edits=[('src/wkdibe/marshal.cpp', '        this->g2.from_affine(g2affine);\n\n        G1Affine g3affine;', '        this->g3.from_affine(g2affine);\n\n        G1Affine g3affine;'),
             ('src/wkdibe/marshal.cpp', '        this->g3.from_affine(g3affine);\n\n        if constexpr(compressed) {', '        this->g2.from_affine(g3affine);\n\n        if constexpr(compressed) {')]),
 dict(name='c15-idx-byteorder-mismatch', prop='C15', expect='R-PAIR',
      edits=[('src/wkdibe/marshal.cpp', 'encoded->idx[0] = (uint8_t) (this->idx >> 24);\n        encoded->idx[1] = (uint8_t) (this->idx >> 16);', 'encoded->idx[1] = (uint8_t) (this->idx >> 24);\n        encoded->idx[0] = (uint8_t) (this->idx >> 16);')]),
 dict(name='c15-ciphertext-decode-verdict-dropped', prop='C15', expect='R-MUSTCHECK',
      edits=[('src/wkdibe/marshal.cpp', """        G1Affine caffine;
        if (!encoded->c.decode(caffine, checked)) {
            return false;
        }
        this->c.from_affine(caffine);""", """        G1Affine caffine;
        encoded->c.decode(caffine, checked);
        this->c.from_affine(caffine);""")]),
 dict(name='c15-hsig-checked-literal', prop='C15', expect='R-MUSTCHECK',
      edits=[('src/wkdibe/marshal.cpp', 'if (!hsig->decode(hsigaffine, checked)) {', 'if (!hsig->decode(hsigaffine, false)) {')]),
 dict(name='c15-guard-le', prop='C15', benign=True, expect='',
      edits=[('include/wkdibe/api.hpp', """            if (marshalledLength < withoutLength) {
                return -1;
            }
            size_t hsize""", """            if (!(marshalledLength >= withoutLength)) {
                return -1;
            }
            size_t hsize""")]),
 dict(name='c15-unguarded-subtraction', prop='C15', expect='len|guard',
      edits=[('include/wkdibe/api.hpp', """            if (marshalledLength < withoutLength) {
                return -1;
            }
            size_t bsize""", """            size_t bsize""")]),
 dict(name='c15-setlength-always-stores', prop='C15', expect='len|setLength',
      edits=[('include/wkdibe/api.hpp', """            int len = SecretKey::unmarshalledLength<compressed>(marshalled, marshalledLength);
            if (len != -1) {
                this->l = len;
            }""", """            int len = SecretKey::unmarshalledLength<compressed>(marshalled, marshalledLength);
            this->l = len;""")]),
 dict(name='c15-marshal-h-loop-off-by-one', prop='C15', expect='R-FOOT',
      edits=[('src/wkdibe/marshal.cpp', """        for (int i = 0; i != this->l; i++) {
            G1Affine haffine;
            haffine.from_projective(this->h[i]);
            h[i].encode(haffine);""", """        for (int i = 0; i != this->l; i++) {
            G1Affine haffine;
            haffine.from_projective(this->h[i]);
            h[i + 1].encode(haffine);""")]),
]
MUTANTS += [
 dict(name='c15-compressed-params-pairing-roles', prop='C15', expect='params-pairing',
      edits=[('src/wkdibe/marshal.cpp', 'bls12_381::pairing(this->pairing, g2affine, g1affine);', 'bls12_381::pairing(this->pairing, g3affine, g1affine);')]),
]
MUTANTS += [
 dict(name='c06-revert-D3-wnaf-carry', prop='C06', revert='D3', expect='R-CARRY'),
 dict(name='c06-benign-subgroup-test-uses-generic-Projective-multiply', prop='C06', benign=True, expect='',
      edits=[('include/bls12_381/curve.hpp', 'ar.multiply_doubleadd_restrict(*this, ScalarField::p_value);', 'ar.multiply(*this, ScalarField::p_value);')]),
 dict(name='c06-cofactor-via-256bit-overload', prop='C06', expect='R-DISPATCH',
      edits=[('src/lqibe/api.cpp', 'q.multiply(qaffine, G1Affine::cofactor);', 'core::BigInt<256> h; h.copy(G1Affine::cofactor); q.multiply(qaffine, h);')]),
 dict(name='c06-wnaf-buffer-bits', prop='C06', expect='wnaf|extent',
      edits=[('include/bls12_381/wnaf.hpp', 'int8_t wnaf[bits + 1];', 'int8_t wnaf[bits];')]),
 dict(name='c06-digit-read-unguarded', prop='C06', expect='R-GUARD/G6',
      edits=[('src/bls12_381/curve_fast_multiply.cpp', 'if (i < wc1.wnaf_size && wc1.wnaf[i] != 0) {', 'if (wc1.wnaf[i] != 0) {')]),
 dict(name='c06-digit-guard-wrong-scalar', prop='C06', expect='R-GUARD/G6',
      edits=[('src/bls12_381/curve_fast_multiply.cpp', 'if (i < wc1.wnaf_size && wc1.wnaf[i] != 0) {', 'if (i < wc0.wnaf_size && wc1.wnaf[i] != 0) {')]),
 dict(name='c06-frobenius-loop-starts-63', prop='C06', expect='frobenius-start',
      edits=[('src/bls12_381/curve_fast_multiply.cpp', 'for (int i = 64; i != -1; i--) {', 'for (int i = 63; i != -1; i--) {')]),
 dict(name='c06-beta-other-root', prop='C06', expect='glv|beta',
      edits=[('src/bls12_381/curve_fast_multiply.cpp', '{{{.std_words = {0x798a64e8, 0x30f1361b, 0x7ece5a2a, 0xf3b8ddab, 0xc61577f7, 0x16a8ca3a, 0x74fd029b, 0xc26a2ff8, 0x60701c6e, 0x3636b766, 0x241b6160, 0x051ba4ab}}}}',
              '{{{.std_words = {0x8671f071, 0xcd03c9e4, 0x1fcda5d2, 0x5dab2246, 0xd3851b95, 0x587042af, 0x1bacb9e, 0x8eb60ebe, 0x83d050d2, 0x3f97d6e, 0x5ac9f2fb, 0x144e4211}}}}')]),
 dict(name='c06-reciprocal-last-word', prop='C06', expect='glv|reciprocal',
      edits=[('src/bls12_381/curve_fast_multiply.cpp', '.std_words = {0xfc75349a, 0xf6dee1ae,', '.std_words = {0xfc753499, 0xf6dee1ae,')]),
]
MUTANTS += [
 dict(name='c07-digit-loop-le', prop='C07', expect='reject|powers|digit',
      edits=[('src/bls12_381/decomposition.cpp', '} while (BigInt<64>::compare(this->c[i], bls_x) != -1);', '} while (BigInt<64>::compare(this->c[i], bls_x) == 1);')]),
 dict(name='c07-outer-compare-against-R', prop='C07', expect='reject|powers|y',
      edits=[('src/bls12_381/decomposition.cpp', '} while (BigInt<256>::compare(y, Fr::p_value) != -1);', '} while (BigInt<256>::compare(y, Fr::r_value) != -1);')]),
 dict(name='c07-x-cubed-typo', prop='C07', expect='powers|recombination',
      edits=[('src/bls12_381/decomposition.cpp', '0x00000000, 0x00010000, 0x76030000,', '0x00000000, 0x00010000, 0x76030001,')]),
 dict(name='c07-bit-scan-from-62', prop='C07', expect='R-POLY/exp',
      edits=[('src/bls12_381/fq12_cyclotomic.cpp', 'for (int i = bls_x_highest_set_bit; i != -1; i--) {', 'for (int i = bls_x_highest_set_bit - 1; i != -1; i--) {')]),
 dict(name='c10-fq-random-compare-gt', prop='C10', expect='reject|Fq::random',
      edits=[('src/bls12_381/fq.cpp', '} while (BigInt<fq_bits>::compare(this->val, fq_modulus) >= 0);', '} while (BigInt<fq_bits>::compare(this->val, fq_modulus) > 0);')]),
 dict(name='c10-zp_from_hash-no-reduce', prop='C10', expect='hashreduce',
      edits=[('src/bls12_381/bls12_381.cpp', '    res->val.read_big_endian(static_cast<const uint8_t*>(hash));\n    res->hash_reduce();', '    res->val.read_big_endian(static_cast<const uint8_t*>(hash));')]),
 dict(name='c10-hash-reduce-subtract-on-less', prop='C10', expect='hashreduce|Fr::hash_reduce',
      edits=[('src/bls12_381/fr.cpp', 'if (BigInt<fr_bits>::compare(this->val, fr_modulus) == -1) {\n#ifdef RESIST_SIDE_CHANNELS\n            this->val.subtract(this->val, BigInt<bits>::zero);\n#endif\n        } else {', 'if (BigInt<fr_bits>::compare(this->val, fr_modulus) != 1) {\n#ifdef RESIST_SIDE_CHANNELS\n            this->val.subtract(this->val, BigInt<bits>::zero);\n#endif\n        } else {')]),
 dict(name='c10-sample-generator-unchecked-point', prop='C10', expect='reject|point',
      edits=[('src/bls12_381/curve.cpp', '} while (!random.get_point_from_x(x, (b & 0x1) == 0x1, true));', '} while (!random.get_point_from_x(x, (b & 0x1) == 0x1, false));')]),
 dict(name='c10-sample-generator-no-identity-retry', prop='C10', expect='reject|nonidentity',
      edits=[('src/bls12_381/curve.cpp', '        } while (result.is_zero());', '        } while (false);')]),
 dict(name='c10-g1-cofactor-typo', prop='C10', expect='cofactor|g1',
      edits=[('include/bls12_381/curve.hpp', '.std_words = { 0xaaab, 0x8c00aaab, 0x5555e156, 0x396c8c00 }', '.std_words = { 0xaaab, 0x8c00aaab, 0x5555e156, 0x396c8c01 }')]),
 dict(name='c10-try-increment-by-R', prop='C10', benign=True, expect='',
      edits=[('include/bls12_381/curve.hpp', '                x.add(x, BaseField::one);', '                x.add(x, BaseFieldType::one);')]),
]
MUTANTS += [
 dict(name='c08-seed-retire-identity-pairs', prop='C08', patch='seeded/C01-retire-identity-pairs/patch.diff', expect='R-GUARD/G1'),
 dict(name='c08-num-coeffs-minus-one', prop='C08', expect='ccl|producer-count',
      edits=[('include/bls12_381/pairing.hpp', 'static constexpr unsigned int num_coeffs = bls_x_highest_set_bit + bls_x_num_set_bits - 1;', 'static constexpr unsigned int num_coeffs = bls_x_highest_set_bit + bls_x_num_set_bits - 2;')]),
 dict(name='c08-prepared-addition-phase-no-increment', prop='C08', expect='ccl|consumer-count',
      edits=[('src/bls12_381/pairing.cpp', """                    if (!pair.g1->is_zero() && !pair.g2->is_zero()) {
                        ell(result, pair.g2->coeffs[pair.coeff_idx++], *pair.g1);
                    }
                }
            }

            result.square(result);""", """                    if (!pair.g1->is_zero() && !pair.g2->is_zero()) {
                        ell(result, pair.g2->coeffs[pair.coeff_idx], *pair.g1);
                    }
                }
            }

            result.square(result);""")]),
 dict(name='c08-coeff-idx-not-reset', prop='C08', expect='ccl|reset', 
      edits=[('src/bls12_381/pairing.cpp', '            pair.coeff_idx = 0;\n', '            (void) pair;\n')]),
 dict(name='c08-prepare-skips-bit-1', prop='C08', expect='ccl|',
      edits=[('src/bls12_381/pairing.cpp', """        for (unsigned int i = bls_x_highest_set_bit - 1; i != 0; i--) {
            miller_doubling_step(this->coeffs[coeff_idx++], r);""", """        for (unsigned int i = bls_x_highest_set_bit - 1; i != 1; i--) {
            miller_doubling_step(this->coeffs[coeff_idx++], r);""")]),
 dict(name='c08-pairing-product-no-final-exp-alias', prop='C08', expect='ccl|shape',
      edits=[('include/bls12_381/pairing.hpp', """        miller_loop(result, affine_pairs, num_affine_pairs, prepared_pairs, num_prepared_pairs);
        final_exponentiation(result, result);""", """        miller_loop(result, affine_pairs, num_prepared_pairs, prepared_pairs, num_affine_pairs);
        final_exponentiation(result, result);""")]),
]
MUTANTS += [
 dict(name='c14-encrypt-drops-rng', prop='C14', benign=False, expect='delegate|sign',
      edits=[('src/wkdibe/api.cpp', 'sign_precomputed(signature, params, sk, attrs, precomputed, message, get_random_bytes);', 'sign_precomputed(signature, params, sk, nullptr, precomputed, message, get_random_bytes);')]),
 dict(name='c14-merge-equal-advances-only-i', prop='C14', expect='merge|adjust_precomputed|equal',
      edits=[('src/wkdibe/api.cpp', """                    precomputed.prodexp.add(precomputed.prodexp, temp);
                }
                i++;
                j++;""", """                    precomputed.prodexp.add(precomputed.prodexp, temp);
                    j++;
                }
                i++;""")]),
 dict(name='c14-borrow-ignored', prop='C14', expect='modr|adjust_precomputed',
      edits=[('src/wkdibe/api.cpp', """                    if (diff.subtract(to_attr.id, from_attr.id)) {
                        diff.add(diff, group_order);
                    }""", """                    diff.subtract(to_attr.id, from_attr.id);""")]),
 dict(name='c14-drain-to-missing', prop='C14', expect='merge|drain',
      edits=[('src/wkdibe/api.cpp', """        while (j != to.length) {
            const Attribute& to_attr = to.attrs[j];
            temp.multiply(params.h[to_attr.idx], to_attr.id);
            precomputed.prodexp.add(precomputed.prodexp, temp);
            j++;
        }""", """        if (j != to.length) {
            const Attribute& to_attr = to.attrs[j];
            temp.multiply(params.h[to_attr.idx], to_attr.id);
            precomputed.prodexp.add(precomputed.prodexp, temp);
            j++;
        }""")]),
 dict(name='c16-decrypt-hashes-sk-instead-of-id', prop='C16', expect='hash|same-input',
      edits=[('src/lqibe/api.cpp', """            bls12_381::pairing(result, sk.sq, ciphertext.rp);

            buffer.q.encode(id.q);""", """            bls12_381::pairing(result, sk.sq, ciphertext.rp);

            buffer.q.encode(sk.sq);""")]),
 dict(name='c16-hashbuffer-padding', prop='C16', expect='hash|',
      edits=[('src/lqibe/api.cpp', """        bls12_381::Encoding<G2Affine, true> rp;
        uint8_t pairing[sizeof(GT)];
    };""", """        bls12_381::Encoding<G2Affine, true> rp;
        uint32_t version;
        uint8_t pairing[sizeof(GT)];
    };""")]),
 dict(name='c16-encrypt-different-randomness', prop='C16', expect='roles|encrypt',
      edits=[('src/lqibe/api.cpp', """        G2 rsp;
        rsp.multiply_frobenius(params.sp, rx);""", """        G2 rsp;
        bls12_381::PowersOfX rx2;
        rx2.random(r, get_random_bytes);
        rsp.multiply_frobenius(params.sp, rx2);""")]),
 dict(name='c16-hash-length-half', prop='C16', expect='hash|call',
      edits=[('src/lqibe/api.cpp', """            result.write_big_endian(buffer.pairing);
        }

        hash_fill(symmetric, symmetric_length, &buffer, sizeof(buffer));
    }

    void decrypt""", """            result.write_big_endian(buffer.pairing);
        }

        hash_fill(symmetric, symmetric_length, &buffer, sizeof(buffer.q) + sizeof(buffer.rp));
    }

    void decrypt""")]),
]
MUTANTS += [
 dict(name='c17-asm-store-past-end', prop='C17', expect='asm|footprint',
      edits=[('src/core/arch/x86_64/bigint.s', """embedded_pairing_core_arch_x86_64_bigint_384_multiply2:
    movq (%rsi), %rax
    add %rax, %rax
    movq %rax, (%rdi)
""", """embedded_pairing_core_arch_x86_64_bigint_384_multiply2:
    movq (%rsi), %rax
    add %rax, %rax
    movq %rax, (%rdi)
    movq %rax, 48(%rdi)
""")]),
 dict(name='c17-asm-clobber-rbx', prop='C17', expect='asm|abi',
      edits=[('src/core/arch/x86_64/bigint.s', """embedded_pairing_core_arch_x86_64_bigint_384_subtract:
    movq (%rsi), %rax""", """embedded_pairing_core_arch_x86_64_bigint_384_subtract:
    movq (%rsi), %rbx
    movq (%rsi), %rax""")]),
 dict(name='c18-asm-multiply2-clears-top-word-first', prop='C18', expect='assembly leaf',
      edits=[('src/core/arch/x86_64/bigint.s', """embedded_pairing_core_arch_x86_64_bigint_384_multiply2:
    movq (%rsi), %rax
    add %rax, %rax
    movq %rax, (%rdi)
""", """embedded_pairing_core_arch_x86_64_bigint_384_multiply2:
    movq (%rsi), %rax
    movq $0, 40(%rdi)
    add %rax, %rax
    movq %rax, (%rdi)
""")]),
]
MUTANTS += [
 dict(name='seed-C09-masked-coordinate-compare', prop='C09', patch='seeded/C09-masked-coordinate-compare/patch.diff', expect='canonical'),
 dict(name='seed-C11-zero-id-skips-cursor', prop='C11', patch='seeded/C11-zero-id-skips-cursor/patch.diff', expect='cursor|qualifykey|x'),
 dict(name='seed-C08-drop-identity-pairs', prop='C08', patch='seeded/C08-drop-identity-pairs/patch.diff', expect='R-GUARD/G1'),
 dict(name='seed-C16-keygen-hash-reduce', prop='C16', patch='seeded/C16-keygen-hash-reduces-master-scalar/patch.diff', expect='roles|keygen'),
 dict(name='seed-C06-carry-from-add-return', prop='C06', patch='seeded/C06-wnaf-carry-from-add-return/patch.diff', expect='R-CARRY'),
 dict(name='seed-C15-placeholder-byte', prop='C15', patch='seeded/C15-compressed-params-placeholder-byte/patch.diff', expect='R-FOOT'),
 dict(name='seed-C01-retire-identity-pairs', prop='C01', patch='seeded/C01-retire-identity-pairs/patch.diff', expect='R-GUARD/G1'),
 dict(name='seed-C05-mixed-add-guard-order', prop='C05', patch='seeded/C05-mixed-add-guard-order/patch.diff', expect='R-GUARD/G4'),
 dict(name='seed-C18-gt-exp-pointer-table', prop='C18', patch='seeded/C18-gt-exp-pointer-table/patch.diff', expect='exponentiate_gt'),
 dict(name='seed-C19-preparedpair-private-field', prop='C19', patch='seeded/C19-preparedpair-private-field/patch.diff', expect='R-LAYOUT'),
]
MUTANTS += [
 dict(name='seed-C20-legendre-lazy-cache', prop='C20', patch='seeded/C20-legendre-lazy-cache/patch.diff', expect='R-EFFECT/escape'),
]
MUTANTS += [
 dict(name='c02-add-final-subtract-gt', prop='C02', expect='R-CANON',
      edits=[('include/core/fp.hpp', """            bool carry = this->val.add(a.val, b.val);
            if (BigInt<bits>::compare(this->val, p) >= 0 || carry) {""", """            bool carry = this->val.add(a.val, b.val);
            if (BigInt<bits>::compare(this->val, p) > 0 || carry) {""")]),
 dict(name='c02-multiply2-ignores-shiftout', prop='C02', expect='R-CANON',
      edits=[('include/core/fp.hpp', 'if (BigInt<bits>::compare(this->val, p) >= 0 || shift_out != 0) {', 'if (BigInt<bits>::compare(this->val, p) >= 0) {')]),
 dict(name='c02-reduce-le', prop='C02', expect='R-CANON',
      edits=[('include/core/fp.hpp', 'if (BigInt<bits>::compare(a, p) == -1) {', 'if (BigInt<bits>::compare(a, p) != 1) {')]),
 dict(name='c02-benign-add-cond-reordered', prop='C02', benign=True, expect='',
      edits=[('include/core/fp.hpp', """            bool carry = this->val.add(a.val, b.val);
            if (BigInt<bits>::compare(this->val, p) >= 0 || carry) {""", """            bool carry = this->val.add(a.val, b.val);
            if (carry || !(BigInt<bits>::compare(this->val, p) < 0)) {""")]),
]
MUTANTS += [
 dict(name='c03-spec-swaps-a-b', prop='C03', expect='spec|forward',
      edits=[('include/core/arch/x86_64/bigint.hpp', 'return embedded_pairing_core_arch_x86_64_bigint_384_subtract(this, &a, &b);', 'return embedded_pairing_core_arch_x86_64_bigint_384_subtract(this, &b, &a);')]),
 dict(name='c03-asm-skips-top-word-on-copy-path', prop='C03', expect='asm|mustwrite',
      edits=[('src/core/arch/x86_64/bigint.s', """embedded_pairing_core_arch_x86_64_bigint_384_multiply2:
    movq (%rsi), %rax
    add %rax, %rax
    movq %rax, (%rdi)

    mul2carry64 8
    mul2carry64 16
    mul2carry64 24
    mul2carry64 32
    mul2carry64 40
""", """embedded_pairing_core_arch_x86_64_bigint_384_multiply2:
    movq (%rsi), %rax
    add %rax, %rax
    movq %rax, (%rdi)

    mul2carry64 8
    mul2carry64 16
    mul2carry64 24
    mul2carry64 32
    movq 40(%rsi), %rax
    adc %rax, %rax
""")]),
 dict(name='c03-asm-carry-not-returned', prop='C03', expect='asm|retval',
      edits=[('src/core/arch/x86_64/bigint.s', """    subborrow64 40

    sbb %rax, %rax
    neg %rax
    ret""", """    subborrow64 40

    ret""")]),
 dict(name='c03-dispatch-wrong-pair', prop='C03', expect='dispatch|runtime_bigint_768_square',
      edits=[('src/core/arch/x86_64/runtime.cpp', 'cpu_supports_bmi2_adx ? embedded_pairing_core_arch_x86_64_bmi2_adx_bigint_768_square : embedded_pairing_core_arch_x86_64_bigint_768_square;',
              'cpu_supports_bmi2_adx ? embedded_pairing_core_arch_x86_64_bmi2_adx_bigint_768_square : embedded_pairing_core_arch_x86_64_bmi2_adx_bigint_768_square;')]),
 dict(name='c03-spec-adds-restrict', prop='C03', expect='spec|signature',
      edits=[('include/core/arch/x86_64/bigint.hpp', 'inline bool BigInt<384>::add(const BigInt<384>& a, const BigInt<384>& __restrict b) {', 'inline bool BigInt<384>::add(const BigInt<384>& __restrict a, const BigInt<384>& __restrict b) {')]),
]
MUTANTS += [
 dict(name='c13-verify-binds-without-hsig', prop='C13', expect='sig|binding',
      edits=[('src/wkdibe/api.cpp', """            G1 prodexp;
            prodexp.multiply(params.hsig, message);
            prodexp.add(prodexp, precomputed.prodexp);
            a0affine.from_projective(signature.a0);""", """            G1 prodexp;
            prodexp.multiply(params.g3, message);
            prodexp.add(prodexp, precomputed.prodexp);
            a0affine.from_projective(signature.a0);""")]),
 dict(name='c13-verify-pairs-swapped-a1', prop='C13', expect='sig|equation',
      edits=[('src/wkdibe/api.cpp', """        pairs[1].g1 = &prodexpaffine;
        pairs[1].g2 = &a1affine;
        bls12_381::pairing_product(ratio, pairs, 2, nullptr, 0);""", """        pairs[1].g1 = &prodexpaffine;
        pairs[1].g2 = &gaffine;
        bls12_381::pairing_product(ratio, pairs, 2, nullptr, 0);""")]),
 dict(name='c13-verify-no-negation', prop='C13', expect='sig|equation',
      edits=[('src/wkdibe/api.cpp', """        GT ratio;
        prodexpaffine.negate(prodexpaffine);""", """        GT ratio;""")]),
 dict(name='c13-sign-fill-no-kpp', prop='C13', expect='sig|fill',
      edits=[('src/wkdibe/api.cpp', """                    prodexp.multiply(sk.b[i].hexp, attrs->attrs[k].id);
                    signature.a0.add(signature.a0, prodexp);
                    k++;""", """                    prodexp.multiply(sk.b[i].hexp, attrs->attrs[k].id);
                    signature.a0.add(signature.a0, prodexp);""")]),
 dict(name='seed-C07-gt-exp-no-init', prop='C07', patch='seeded/C07-gt-exp-uninitialised-accumulator/patch.diff', expect='R-DEFOUT'),
 dict(name='c06-wnaf-table-multiply-no-init', prop='C06', expect='R-DEFOUT',
      edits=[('include/bls12_381/wnaf.hpp', """        result.copy(Projective::zero);

        bool found_one = false;""", """        bool found_one = false;""")]),
]
MUTANTS += [
 dict(name='c01-benign-bool-local-guard', prop='C01', benign=True, expect='',
      edits=[('src/bls12_381/pairing.cpp', """        for (size_t j = 0; j != num_affine_pairs; j++) {
            AffinePair& pair = affine_pairs[j];
            if (!pair.g1->is_zero() && !pair.g2->is_zero()) {
                miller_doubling_step(coeffs, pair.r);
                ell(result, coeffs, *pair.g1);
            }
        }
        for (size_t j = 0; j != num_prepared_pairs; j++) {
            PreparedPair& pair = prepared_pairs[j];
            if (!pair.g1->is_zero() && !pair.g2->is_zero()) {
                ell(result, pair.g2->coeffs[pair.coeff_idx++], *pair.g1);
            }
        }

        if constexpr""", """        for (size_t j = 0; j != num_affine_pairs; j++) {
            AffinePair& pair = affine_pairs[j];
            const bool skip = pair.g1->is_zero() || pair.g2->is_zero();
            if (!skip) {
                miller_doubling_step(coeffs, pair.r);
                ell(result, coeffs, *pair.g1);
            }
        }
        for (size_t j = 0; j != num_prepared_pairs; j++) {
            PreparedPair& pair = prepared_pairs[j];
            const bool active = !pair.g1->is_zero() && !pair.g2->is_zero();
            if (active) {
                ell(result, pair.g2->coeffs[pair.coeff_idx++], *pair.g1);
            }
        }

        if constexpr""")]),
 dict(name='c01-bool-local-guard-wrong-polarity', prop='C01', expect='R-GUARD/G1',
      edits=[('src/bls12_381/pairing.cpp', """        for (size_t j = 0; j != num_prepared_pairs; j++) {
            PreparedPair& pair = prepared_pairs[j];
            if (!pair.g1->is_zero() && !pair.g2->is_zero()) {
                ell(result, pair.g2->coeffs[pair.coeff_idx++], *pair.g1);
            }
        }

        if constexpr""", """        for (size_t j = 0; j != num_prepared_pairs; j++) {
            PreparedPair& pair = prepared_pairs[j];
            const bool active = !pair.g1->is_zero() || !pair.g2->is_zero();
            if (active) {
                ell(result, pair.g2->coeffs[pair.coeff_idx++], *pair.g1);
            }
        }

        if constexpr""")]),
 dict(name='c11-benign-nested-ifs-keygen', prop='C11', benign=True, expect='',
      edits=[('src/wkdibe/api.cpp', """            if (k != attrs.length && attrs.attrs[k].idx == i) {
                if (!attrs.attrs[k].omitFromKeys) {
                    temp.multiply(params.h[i], attrs.attrs[k].id);
                    sk.a0.add(sk.a0, temp);
                }
                k++;
            } else if (!attrs.omitAllFromKeysUnlessPresent) {
                sk.b[j].idx = i;
                sk.b[j].hexp.multiply(params.h[i], r);
                j++;
            }""", """            bool consumed = false;
            if (k != attrs.length) {
                if (attrs.attrs[k].idx == i) {
                    if (!attrs.attrs[k].omitFromKeys) {
                        temp.multiply(params.h[i], attrs.attrs[k].id);
                        sk.a0.add(sk.a0, temp);
                    }
                    k++;
                    consumed = true;
                }
            }
            if (!consumed && !attrs.omitAllFromKeysUnlessPresent) {
                sk.b[j].idx = i;
                sk.b[j].hexp.multiply(params.h[i], r);
                j++;
            }""")]),
 dict(name='c15-benign-byte-pointer-arithmetic', prop='C15', benign=True, expect='',
      edits=[('src/wkdibe/marshal.cpp', """            b = reinterpret_cast<FreeSlotMarshalled<compressed>*>(encoded + 1);
        }

        for (int i = 0; i != this->l; i++) {
            this->b[i].marshal<compressed>(&b[i]);""", """            b = reinterpret_cast<FreeSlotMarshalled<compressed>*>(reinterpret_cast<uint8_t*>(encoded) + sizeof(*encoded));
        }

        for (int i = 0; i != this->l; i++) {
            this->b[i].marshal<compressed>(b + i);""")]),
 dict(name='c09-benign-reordered-checks', prop='C09', benign=True, expect='',
      edits=[('src/bls12_381/curve.cpp', """            if (checked && greater) {
                return false;
            }
            g.y.read_big_endian(&this->data[sizeof(typename Affine::BaseFieldType)]);
            g.infinity = false;""", """            g.y.read_big_endian(&this->data[sizeof(typename Affine::BaseFieldType)]);
            g.infinity = false;
            if (greater && checked) {
                return false;
            }""")]),
]
MUTANTS += [
 dict(name='seed-C02-montgomery-meta-carry', prop='C02', patch='seeded/C02-montgomery-meta-carry/patch.diff', expect='R-NOWRAP'),
 dict(name='c02-multiply-word-accumulate-unwidened', prop='C02', expect='R-NOWRAP',
      edits=[('include/core/bigint.hpp', """                    dword_t new_word = ((dword_t) a.words[i]) * ((dword_t) b.words[j]) + this->words[i + j] + carry;
                    carry = new_word >> (sizeof(word_t) * 8);
                    this->words[i + j] = (word_t) new_word;
                }
                this->words[i + b.word_length] = carry;""", """                    dword_t new_word = ((dword_t) a.words[i]) * ((dword_t) b.words[j]) + carry;
                    word_t low = this->words[i + j] + (word_t) new_word;
                    carry = new_word >> (sizeof(word_t) * 8);
                    this->words[i + j] = low;
                }
                this->words[i + b.word_length] = carry;""")]),
 dict(name='c02-benign-montgomery-sum-order', prop='C02', benign=True, expect='',
      edits=[('include/core/fp.hpp', '((typename BigInt<bits>::dword_t) a.words[i + BigInt<bits>::word_length]) + ((typename BigInt<bits>::dword_t) carry) + ((typename BigInt<bits>::dword_t) meta_carry);',
              '((typename BigInt<bits>::dword_t) meta_carry) + ((typename BigInt<bits>::dword_t) carry) + ((typename BigInt<bits>::dword_t) a.words[i + BigInt<bits>::word_length]);')]),
]
MUTANTS += [
 dict(name='c02-subtract-borrow-compares-b', prop='C02', expect='nowrap|borrow',
      edits=[('include/core/bigint.hpp', """                    dword_t old_a_val = a.dwords[i];
                    this->dwords[i] = a.dwords[i] - b.dwords[i] - borrow;
                    if (borrow == 0) {
                        borrow = (old_a_val < this->dwords[i]) ? 1 : 0;
                    } else {
                        borrow = (old_a_val <= this->dwords[i]) ? 1 : 0;
                    }""", """                    dword_t old_b_val = b.dwords[i];
                    this->dwords[i] = a.dwords[i] - b.dwords[i] - borrow;
                    if (borrow == 0) {
                        borrow = (old_b_val < this->dwords[i]) ? 1 : 0;
                    } else {
                        borrow = (old_b_val <= this->dwords[i]) ? 1 : 0;
                    }""")]),
]
MUTANTS += [
 dict(name='seed-C12-precompute-skips-omitted', prop='C12', patch='seeded/C12-precompute-skips-omitted/patch.diff', expect='R-TOTAL'),
 dict(name='seed-C04-fq12-frobenius-index', prop='C04', patch='seeded/C04-fq12-frobenius-index-subtract/patch.diff', expect='R-BOUNDS'),
 dict(name='seed-C14-sticky-negative', prop='C14', patch='seeded/C14-sticky-negative-flag/patch.diff', expect='modr'),
 dict(name='seed-C10-bounded-retry', prop='C10', patch='seeded/C10-bounded-retry-fr-random/patch.diff', expect='reject|Fr::random'),
]
MUTANTS += [
 dict(name='c04-poly-fq2-multiply-sign', prop='C04', expect='poly|Fq2::multiply',
      edits=[('src/bls12_381/fq2.cpp', '        this->c0.subtract(aa, bb);\n    }\n\n    void Fq2::square', '        this->c0.add(aa, bb);\n    }\n\n    void Fq2::square')]),
 dict(name='c04-poly-fq6-square-term', prop='C04', expect='poly|Fq6::square',
      edits=[('src/bls12_381/fq6.cpp', '        this->c2.add(s1, s2);\n        this->c2.add(this->c2, s3);', '        this->c2.add(s1, s2);\n        this->c2.add(this->c2, s4);')]),
 dict(name='c04-poly-fq12-c014-wrong-slot', prop='C04', expect='poly|Fq12::multiply_by_c014',
      edits=[('src/bls12_381/fq12.cpp', '        aa.multiply_by_c01(a.c0, c0, c1);\n        bb.multiply_by_c1(a.c1, c4);', '        aa.multiply_by_c01(a.c0, c1, c0);\n        bb.multiply_by_c1(a.c1, c4);')]),
 dict(name='c04-poly-fq6-inverse-term', prop='C04', expect='poly|Fq6::inverse',
      edits=[('src/bls12_381/fq6.cpp', '        this->c1.multiply(c1, t0);\n        this->c2.multiply(c2, t0);', '        this->c1.multiply(c2, t0);\n        this->c2.multiply(c1, t0);')]),
 dict(name='c04-poly-fq12-conjugate-c0', prop='C04', expect='poly|Fq12::conjugate',
      edits=[('src/bls12_381/fq12.cpp', '        this->c0.copy(a.c0);\n        this->c1.negate(a.c1);\n    }\n\n    void Fq12::random', '        this->c0.negate(a.c0);\n        this->c1.copy(a.c1);\n    }\n\n    void Fq12::random')]),
 dict(name='c05-poly-add-x3-one-v', prop='C05', expect='poly|Projective',
      edits=[('include/bls12_381/curve.hpp', """            this->x.square(r);
            this->x.subtract(this->x, j);
            this->x.subtract(this->x, v);
            this->x.subtract(this->x, v);

            // Y3 = r*(V - X3) - 2*S1*J""", """            this->x.square(r);
            this->x.subtract(this->x, j);
            this->x.subtract(this->x, v);

            // Y3 = r*(V - X3) - 2*S1*J""")]),
 dict(name='c05-poly-double-8c-to-4c', prop='C05', expect='poly|Projective',
      edits=[('include/bls12_381/curve.hpp', """            c.multiply2(c);
            c.multiply2(c);
            c.multiply2(c);
            this->y.subtract(this->y, c);""", """            c.multiply2(c);
            c.multiply2(c);
            this->y.subtract(this->y, c);""")]),
 dict(name='c05-poly-mixed-add-i-2hh', prop='C05', expect='poly|Projective',
      edits=[('include/bls12_381/curve.hpp', """            BaseField i;
            i.multiply2(hh);
            i.multiply2(i);""", """            BaseField i;
            i.multiply2(hh);""")]),
 dict(name='c05-benign-add-refactor-z3', prop='C05', benign=True, expect='',
      edits=[('include/bls12_381/curve.hpp', """            this->z.add(a.z, b.z);
            this->z.square(this->z);
            this->z.subtract(this->z, z1z1);
            this->z.subtract(this->z, z2z2);
            this->z.multiply(this->z, h);""", """            this->z.multiply(a.z, b.z);
            this->z.multiply2(this->z);
            this->z.multiply(this->z, h);""")]),
]
# ---- R-POLY/exp and R-POLY/cyclotomic (exponent-domain value numbering)
MUTANTS += [
 dict(name='c01-final-exp-frobenius-power', prop='C01', expect='exp|final_exponentiation',
      edits=[('src/bls12_381/pairing.cpp', 'y1.frobenius_map(y1, 3);', 'y1.frobenius_map(y1, 1);')]),
 dict(name='c01-final-exp-dropped-conjugate', prop='C01', expect='exp|final_exponentiation',
      edits=[('src/bls12_381/pairing.cpp', '        y1.conjugate(y1);\n        y3.multiply(y3, y1);\n        y1.conjugate(y1);', '        y3.multiply(y3, y1);')]),
 dict(name='c01-final-exp-x-loop-skips-low-bit', prop='C01', expect='exp|final_exponentiation',
      edits=[('src/bls12_381/pairing.cpp', 'exp_by_x_restrict<0, false>(y1, y0);', 'exp_by_x_restrict<1, false>(y1, y0);')]),
 dict(name='c01-final-exp-easy-part-frobenius-1', prop='C01', expect='exp|final_exponentiation',
      edits=[('src/bls12_381/pairing.cpp', 'r.frobenius_map(r, 2);', 'r.frobenius_map(r, 1);')]),
 dict(name='c01-benign-final-exp-temp', prop='C01', benign=True, expect='',
      edits=[('src/bls12_381/pairing.cpp', '        y2.multiply(y2, y0);\n        y2.multiply(y2, r);', '        Fq12 y0r;\n        y0r.multiply(y0, r);\n        y2.multiply(y2, y0r);')]),
 dict(name='c04-cyclotomic-square-wrong-operand', prop='C04', expect='cyclo|Fq12::square_cyclotomic',
      edits=[('src/bls12_381/fq12_cyclotomic.cpp', '        t6.subtract(t5, a.c0.c1);\n        t6.multiply2(t6);\n        this->c0.c1.add(t6, t5);', '        t6.subtract(t5, a.c0.c2);\n        t6.multiply2(t6);\n        this->c0.c1.add(t6, t5);')]),
 dict(name='c04-cyclotomic-square-aliasing', prop='C04', expect='cyclo|Fq12::square_cyclotomic|out==a',
      edits=[('src/bls12_381/fq12_cyclotomic.cpp', '        Fq2 c0c0;\n        c0c0.copy(a.c0.c0);\n        this->c0.c0.subtract(t0, c0c0);', '        this->c0.c0.subtract(t0, a.c0.c0);'),
             ('src/bls12_381/fq12_cyclotomic.cpp', '        this->c0.c0.multiply2(this->c0.c0);\n        this->c0.c0.add(this->c0.c0, t0);\n\n        this->c1.c1.add(a.c1.c1, t1);',
              '        this->c0.c0.multiply2(this->c0.c0);\n        this->c0.c0.add(this->c0.c0, t0);\n        t1.add(a.c0.c0, a.c1.c1); t1.square(t1); t1.subtract(t1, t2); t1.subtract(t1, t3);\n\n        this->c1.c1.add(a.c1.c1, t1);')]),
 dict(name='c04-map-to-cyclotomic-frobenius-1', prop='C04', expect='exp|map_to_cyclotomic',
      edits=[('src/bls12_381/fq12_cyclotomic.cpp', 't.frobenius_map(*this, 2);', 't.frobenius_map(*this, 1);')]),
 dict(name='c07-gtexp-conjugate-parity', prop='C07', expect='exp|exponentiate_gt',
      edits=[('src/bls12_381/fq12_cyclotomic.cpp', 'if (((i & 0x1) == 0) != bls_x_is_negative) {', 'if (((i & 0x1) == 0) == bls_x_is_negative) {')]),
 dict(name='c07-benign-gtexp-square-inside-digit-loop', prop='C07', expect='',
      edits=[('src/bls12_381/fq12_cyclotomic.cpp', '            if (found_one) {\n                this->square_cyclotomic(*this);\n            }\n            for (unsigned int j = 0; j != 4; j++) {\n                if (scalar.c[j].bit(i)) {',
              '            for (unsigned int j = 0; j != 4; j++) {\n                if (found_one && j == 0) {\n                    this->square_cyclotomic(*this);\n                }\n                if (scalar.c[j].bit(i)) {')], benign=True),
 dict(name='c07-gtexp-found-one-set-late', prop='C07', expect='exp|exponentiate_gt',
      edits=[('src/bls12_381/fq12_cyclotomic.cpp', '                    this->multiply(*this, t[j]);\n                    found_one = true;', '                    this->multiply(*this, t[j]);\n                    found_one = (j != 3);')]),
]
# ---- round-4 seeded changes
MUTANTS += [
 dict(name='seed-C13-message-hash-reduce', prop='C13', patch='seeded/C13-message-hash-reduce/patch.diff', expect='VIOLATION property=C13'),
 dict(name='seed-C19-setlength-sibling-wrapper', prop='C19', patch='seeded/C19-setlength-via-sibling-wrapper/patch.diff', expect='R-WRAP'),
 dict(name='seed-C03-multiply2-dead-branch', prop='C03', patch='seeded/C03-multiply2-dead-branch/patch.diff', expect='deadarm'),
 dict(name='seed-C18-add-z3-reads-b', prop='C18', patch='seeded/C18-add-z3-reads-b-after-write/patch.diff', expect='R-ALIAS'),
 dict(name='seed-C17-decode-branch-on-buffer-flag', prop='C17', patch='seeded/C17-decode-branch-on-buffer-flag/patch.diff', expect='VIOLATION property=C17'),
 dict(name='seed-C20-lazy-dispatch-init', prop='C20', patch='seeded/C20-lazy-dispatch-init/patch.diff', expect='R-EFFECT'),
]
# ---- round-5 seeded changes
MUTANTS += [
 dict(name='seed-C05-equal-same-z-fastpath', prop='C05', patch='seeded/C05-equal-same-z-fastpath/patch.diff', expect='R-GUARD/G8'),
 dict(name='seed-C09-identity-padding-field-parse', prop='C09', patch='seeded/C09-identity-padding-via-field-parse/patch.diff', expect='VIOLATION property=C09'),
 dict(name='seed-C10-generator-no-identity-retry', prop='C10', patch='seeded/C10-generator-no-identity-retry/patch.diff', expect='reject|nonidentity'),
 dict(name='seed-C07-powers-random-single-draw', prop='C07', patch='seeded/C07-powers-random-single-draw/patch.diff', expect='reject|powers|digit'),
 dict(name='seed-C07-powers-random-single-draw-c10', prop='C10', patch='seeded/C07-powers-random-single-draw/patch.diff', expect='reject|powers|digit'),
 dict(name='c05-equal-coordinate-compare-before-guards', prop='C05', expect='R-GUARD/G8',
      edits=[('include/bls12_381/curve.hpp', '            /* Point at infinity is represented by z = 0. */\n            if (a.is_zero()) {\n                return b.is_zero();\n            }\n\n            if (b.is_zero()) {\n                return false;\n            }\n',
              '            if (BaseField::equal(a.x, b.x) && BaseField::equal(a.y, b.y) && BaseField::equal(a.z, b.z)) {\n                return true;\n            }\n            if (a.is_zero()) {\n                return b.is_zero();\n            }\n\n            if (b.is_zero()) {\n                return false;\n            }\n')]),
 dict(name='c05-affine-equal-ignores-infinity-mismatch', prop='C05', expect='G8|affine-equal',
      edits=[('include/bls12_381/curve.hpp', 'return (a.infinity == b.infinity) && (a.infinity || (x_equal && y_equal));', 'return (a.infinity && b.infinity) || (x_equal && y_equal);')]),
 dict(name='c05-benign-equal-guards-swapped', prop='C05', benign=True, expect='',
      edits=[('include/bls12_381/curve.hpp', '            if (a.is_zero()) {\n                return b.is_zero();\n            }\n\n            if (b.is_zero()) {\n                return false;\n            }\n',
              '            if (b.is_zero()) {\n                return a.is_zero();\n            }\n\n            if (a.is_zero()) {\n                return false;\n            }\n')]),
 dict(name='c05-benign-affine-equal-rewritten', prop='C05', benign=True, expect='',
      edits=[('include/bls12_381/curve.hpp', 'return (a.infinity == b.infinity) && (a.infinity || (x_equal && y_equal));', 'return a.infinity ? b.infinity : (!b.infinity && x_equal && y_equal);')]),
]
# ---- R-POLY/line (C01)
MUTANTS += [
 dict(name='c01-line-doubling-no-negate-b', prop='C01', expect='line|doubling|coefficients',
      edits=[('src/bls12_381/pairing.cpp', '        tmp3.multiply2(tmp3);\n        tmp3.negate(tmp3);\n', '        tmp3.multiply2(tmp3);\n')]),
 dict(name='c01-line-doubling-point-y-8Y4-to-4Y4', prop='C01', expect='line|doubling|point',
      edits=[('src/bls12_381/pairing.cpp', '        tmp2.multiply2(tmp2);\n        tmp2.multiply2(tmp2);\n        tmp2.multiply2(tmp2);\n', '        tmp2.multiply2(tmp2);\n        tmp2.multiply2(tmp2);\n')]),
 dict(name='c01-line-addition-c-uses-y-not-x', prop='C01', expect='line|addition|coefficients',
      edits=[('src/bls12_381/pairing.cpp', '        t9.multiply(t6, g2.x);', '        t9.multiply(t6, g2.y);')]),
 dict(name='c01-line-ell-swaps-xP-yP', prop='C01', expect='line|ell',
      edits=[('src/bls12_381/pairing.cpp', '        c0.c0.multiply(coeffs.a.c0, g1.y);\n        c0.c1.multiply(coeffs.a.c1, g1.y);', '        c0.c0.multiply(coeffs.a.c0, g1.x);\n        c0.c1.multiply(coeffs.a.c1, g1.y);')]),
 dict(name='c01-line-ell-c1-c4-swapped', prop='C01', expect='line|ell',
      edits=[('src/bls12_381/pairing.cpp', 'f.multiply_by_c014(f, coeffs.c, c1, c0);', 'f.multiply_by_c014(f, coeffs.c, c0, c1);')]),
 dict(name='c01-benign-line-coefficients-scaled-by-two', prop='C01', benign=True, expect='',
      edits=[('src/bls12_381/pairing.cpp', '        // Calculate result.a\n        tmp0.multiply(r.z, zsquared);\n        tmp0.multiply2(tmp0);\n',
              '        // Calculate result.a\n        tmp0.multiply(r.z, zsquared);\n        tmp0.multiply2(tmp0);\n        tmp0.multiply2(tmp0);\n        tmp3.multiply2(tmp3);\n        tmp6.multiply2(tmp6);\n')]),
 dict(name='seed-C01-multiply8-top-word-estimate', prop='C01', patch='seeded/C01-multiply8-top-word-quotient/patch.diff', expect='R-FIELDLAYER'),
 dict(name='seed-C01-multiply8-c02', prop='C02', patch='seeded/C01-multiply8-top-word-quotient/patch.diff', expect='R-FIELDLAYER'),
 dict(name='seed-C04-lazy-add-two-sites', prop='C04', patch='seeded/C04-lazy-reduction-two-sites/patch.diff', expect='R-FIELDLAYER'),
 dict(name='seed-C06-g1-128bit-via-endomorphism', prop='C06', patch='seeded/C06-g1-128bit-via-endomorphism/patch.diff', expect='R-DISPATCH'),
]
# ---- R-WORDALG (C02/C03): x86-64 assembly, word-level algebra
MUTANTS += [
 dict(name='seed-C02-asm-multiply2-compare-chain', prop='C02', patch='seeded/C02-asm-multiply2-compare-chain-wrong-word/patch.diff', expect='wordalg|embedded_pairing_core_arch_x86_64_fpbase_384_multiply2'),
 dict(name='seed-C02-asm-multiply2-compare-chain-c03', prop='C03', patch='seeded/C02-asm-multiply2-compare-chain-wrong-word/patch.diff', expect='wordalg|embedded_pairing_core_arch_x86_64_fpbase_384_multiply2'),
 dict(name='seed-C03-bmi2-reduce-addback', prop='C03', patch='seeded/C03-bmi2-reduce-addback-carry-in/patch.diff', expect='wordalg|embedded_pairing_core_arch_x86_64_bmi2_adx_fpbase_384_montgomery_reduce'),
 dict(name='seed-C03-bmi2-reduce-addback-c02', prop='C02', patch='seeded/C03-bmi2-reduce-addback-carry-in/patch.diff', expect='wordalg|embedded_pairing_core_arch_x86_64_bmi2_adx_fpbase_384_montgomery_reduce'),
 dict(name='c03-revert-D10-square-doubling-carry', prop='C03', revert='D10', expect='wordalg|embedded_pairing_core_arch_x86_64_bigint_768_square'),
 dict(name='c03-asm-muladdcarry-drops-second-carry', prop='C03', expect='R-WORDALG',
      edits=[('src/core/arch/x86_64/multiply.s', '    add \\scratch, %rax\n    adc $0, %rdx\n    add %rax, \\dst\n    adc $0, %rdx\n.endm', '    add \\scratch, %rax\n    adc $0, %rdx\n    add %rax, \\dst\n.endm')]),
 dict(name='c03-asm-fpadd-jbe-copies-on-equal-top-word', prop='C03', expect='wordalg|embedded_pairing_core_arch_x86_64_fpbase_384_add',
      edits=[('src/core/arch/x86_64/bigint.s', '    cmp %rdx, %rsi\n    jb embedded_pairing_core_arch_x86_64_fpbase_384_add_final_copy', '    cmp %rdx, %rsi\n    jbe embedded_pairing_core_arch_x86_64_fpbase_384_add_final_copy')]),
 dict(name='c03-asm-bmi2-reduce-final-add-drops-carry', prop='C03', expect='wordalg|embedded_pairing_core_arch_x86_64_bmi2_adx_fpbase_384_montgomery_reduce',
      edits=[('src/core/arch/x86_64/multiply_bmi2_adx.s', '    adox 88(%rsi), %r8\n    adc %rbx, %r8', '    adox 88(%rsi), %r8\n    add %rbx, %r8')]),
 dict(name='c03-asm-subtract-returns-limb-not-borrow', prop='C03', expect='bigint_384_subtract',
      edits=[('src/core/arch/x86_64/bigint.s', '    sbb %rax, %rax\n    neg %rax\n    ret', '    sbb $0, %rax\n    neg %rax\n    ret')]),
 dict(name='c03-benign-asm-final-copy-store-order', prop='C03', benign=True, expect='',
      edits=[('src/core/arch/x86_64/bigint.s', 'embedded_pairing_core_arch_x86_64_fpbase_384_add_final_copy:\n    movq %rax, (%rdi)\n    movq %rbx, 8(%rdi)', 'embedded_pairing_core_arch_x86_64_fpbase_384_add_final_copy:\n    movq %rbx, 8(%rdi)\n    movq %rax, (%rdi)')]),
 dict(name='c03-benign-asm-seeded-add-lexicographic-chain', prop='C03', benign=True, expect='', patch='selftest/fixes/benign-fpadd-lexicographic.patch'),
]
# ---- R-WORDALG on the AArch64 sources
MUTANTS += [
 dict(name='c03-a64-mul-adcs-to-adds-drops-carry-in', prop='C03', expect='wordalg|embedded_pairing_core_arch_aarch64',
      edits=[('src/core/arch/aarch64/multiply.s', '    adcs \\dst, \\dst, \\scratch\n    adcs \\carry_out, \\carry_out, xzr\n    adds \\dst, \\dst, \\carry_in', '    adds \\dst, \\dst, \\scratch\n    adcs \\carry_out, \\carry_out, xzr\n    adds \\dst, \\dst, \\carry_in')]),
 dict(name='c03-a64-add-returns-borrow-sense', prop='C03', expect='wordalg|embedded_pairing_core_arch_aarch64_bigint_384_add',
      edits=[('src/core/arch/aarch64/bigint.s', 'cset x0, cs', 'cset x0, cc')]),
]
MUTANTS += [
 dict(name='c03-a64-reduce-compare-wrong-register', prop='C03', expect='wordalg|embedded_pairing_core_arch_aarch64_fpbase_384_montgomery_reduce',
      edits=[('src/core/arch/aarch64/multiply.s', '    cmp x13, x22\n    b.hi embedded_pairing_core_arch_aarch64_fpbase_384_montgomery_reduce_final_subtract', '    cmp x12, x22\n    b.hi embedded_pairing_core_arch_aarch64_fpbase_384_montgomery_reduce_final_subtract')]),
 dict(name='c03-a64-multiply-tail-lo-hi-swapped-at-word-3', prop='C03', expect='wordalg|embedded_pairing_core_arch_aarch64_fpbase_384_multiply',
      edits=[('src/core/arch/aarch64/multiply.s', '    cmp x26, x12\n    b.hi embedded_pairing_core_arch_aarch64_fpbase_384_multiply_final_subtract\n    b.lo embedded_pairing_core_arch_aarch64_fpbase_384_multiply_final_copy',
              '    cmp x26, x12\n    b.lo embedded_pairing_core_arch_aarch64_fpbase_384_multiply_final_subtract\n    b.hi embedded_pairing_core_arch_aarch64_fpbase_384_multiply_final_copy')]),
]
# ---- round-6 seeded changes
MUTANTS += [
 dict(name='seed-C08-first-line-overwrites-accumulator', prop='C08', patch='seeded/C08-first-line-overwrites-accumulator/patch.diff', expect='ccl|uniform'),
 dict(name='seed-C12-hidden-slot-keeps-component', prop='C12', patch='seeded/C12-qualifykey-hidden-slot-keeps-delegation-component/patch.diff', expect='VIOLATION property=C12'),
 dict(name='seed-C13-sign-fill-skips-omitted', prop='C13', patch='seeded/C13-sign-fill-skips-omitted-attribute/patch.diff', expect='VIOLATION property=C13'),
 dict(name='seed-C15-setlength-ignores-zero', prop='C15', patch='seeded/C15-setlength-ignores-zero-slots/patch.diff', expect='VIOLATION property=C15'),
 dict(name='seed-C16-pairing-cache-by-address', prop='C16', patch='seeded/C16-encrypt-pairing-cache-by-address/patch.diff', expect='VIOLATION property=C16'),
 dict(name='seed-C16-pairing-cache-c20', prop='C20', patch='seeded/C16-encrypt-pairing-cache-by-address/patch.diff', expect='R-EFFECT'),
 dict(name='seed-C17-length-fixed-part-underflow', prop='C17', patch='seeded/C17-length-fixed-part-underflow/patch.diff', expect='VIOLATION property=C17'),
 dict(name='seed-C18-fq12-multiply-scratch-in-output', prop='C18', patch='seeded/C18-fq12-multiply-scratch-in-output/patch.diff', expect='R-ALIAS'),
 dict(name='seed-C18-fq12-multiply-c04', prop='C04', patch='seeded/C18-fq12-multiply-scratch-in-output/patch.diff', expect='R-POLY'),
 dict(name='seed-C19-core-h-overaligned', prop='C19', patch='seeded/C19-core-h-overaligned-word-structs/patch.diff', expect='R-LAYOUT'),
 dict(name='seed-C20-sampler-static-scratch', prop='C20', patch='seeded/C20-generator-sampler-static-scratch/patch.diff', expect='R-EFFECT'),
]
# ---- R-SCHEME (C11-C14, C16): discrete-log-domain effect tables
MUTANTS += [
 dict(name='seed-C11-qualifykey-loop-stops-early', prop='C11', patch='seeded/C11-qualifykey-loop-stops-with-parent-slots/patch.diff', expect='R-SCHEME'),
 dict(name='seed-C14-adjust-nondelegable-drops-slot', prop='C14', patch='seeded/C14-adjust-nondelegable-drops-vacated-slot/patch.diff', expect='R-SCHEME'),
 dict(name='c11-scheme-keygen-a1-uses-other-randomness', prop='C11', expect='scheme|wkdibe::keygen',
      edits=[('src/wkdibe/api.cpp', '        sk.a0.add(sk.a0, msk.g2alpha);\n        sk.a1.multiply_frobenius(params.g, rx);\n    }\n\n    void qualifykey',
              '        sk.a0.add(sk.a0, msk.g2alpha);\n        random_zpstar(rx, r, get_random_bytes);\n        sk.a1.multiply_frobenius(params.g, rx);\n    }\n\n    void qualifykey')]),
 dict(name='c11-scheme-qualifykey-b-not-rerandomised', prop='C11', expect='scheme|wkdibe::qualifykey',
      edits=[('src/wkdibe/api.cpp', '                    qualified.b[j].hexp.multiply(params.h[i], t);\n                    qualified.b[j].hexp.add(qualified.b[j].hexp, sk.b[x].hexp);', '                    qualified.b[j].hexp.copy(sk.b[x].hexp);')]),
 dict(name='c11-scheme-keygen-wrong-h-index', prop='C11', expect='scheme|wkdibe::keygen',
      edits=[('src/wkdibe/api.cpp', '                sk.b[j].hexp.multiply(params.h[i], r);', '                sk.b[j].hexp.multiply(params.h[j], r);')]),
 dict(name='c11-scheme-decrypt-negates-wrong-term', prop='C11', expect='scheme|wkdibe::decrypt',
      edits=[('src/wkdibe/api.cpp', '        a0affine.negate(a0affine);\n        bls12_381::AffinePair pairs[2];', '        caffine.negate(caffine);\n        bls12_381::AffinePair pairs[2];')]),
 dict(name='c11-scheme-resample-bsig-not-rerandomised', prop='C11', expect='scheme|wkdibe::resamplekey',
      edits=[('src/wkdibe/api.cpp', '            temp.multiply(params.hsig, t);\n            resampled.bsig.add(sk.bsig, temp);', '            resampled.bsig.copy(sk.bsig);')]),
 dict(name='c13-scheme-verify-omits-message-term', prop='C13', expect='scheme|wkdibe::verify_precomputed',
      edits=[('src/wkdibe/api.cpp', '            prodexp.multiply(params.hsig, message);\n            prodexp.add(prodexp, precomputed.prodexp);\n            a0affine.from_projective(signature.a0);', '            prodexp.copy(precomputed.prodexp);\n            a0affine.from_projective(signature.a0);')]),
 dict(name='c14-scheme-adjust-precomputed-adds-instead-of-subtracts', prop='C14', expect='scheme|wkdibe::adjust_precomputed',
      edits=[('src/wkdibe/api.cpp', '        while (i != from.length) {\n            const Attribute& from_attr = from.attrs[i];\n            diff.subtract(group_order, from_attr.id);\n            temp.multiply(params.h[from_attr.idx], diff);',
              '        while (i != from.length) {\n            const Attribute& from_attr = from.attrs[i];\n            temp.multiply(params.h[from_attr.idx], from_attr.id);')]),
 dict(name='c16-scheme-lq-encrypt-uses-p-not-sp', prop='C16', expect='scheme|lqibe::encrypt',
      edits=[('src/lqibe/api.cpp', '        rsp.multiply_frobenius(params.sp, rx);', '        rsp.multiply_frobenius(params.p, rx);')]),
 dict(name='c11-benign-scheme-keygen-order-of-final-steps', prop='C11', benign=True, expect='',
      edits=[('src/wkdibe/api.cpp', '        sk.a0.multiply(sk.a0, r);\n        sk.a0.add(sk.a0, msk.g2alpha);\n        sk.a1.multiply_frobenius(params.g, rx);\n    }\n\n    void qualifykey',
              '        sk.a1.multiply_frobenius(params.g, rx);\n        sk.a0.multiply(sk.a0, r);\n        sk.a0.add(sk.a0, msk.g2alpha);\n    }\n\n    void qualifykey')]),
 dict(name='c14-benign-scheme-adjust-precomputed-uses-negate', prop='C14', benign=True, expect='',
      edits=[('src/wkdibe/api.cpp', '            } else if (from_attr.idx < to_attr.idx) {\n                diff.subtract(group_order, from_attr.id);\n                temp.multiply(params.h[from_attr.idx], diff);\n                precomputed.prodexp.add(precomputed.prodexp, temp);',
              '            } else if (from_attr.idx < to_attr.idx) {\n                temp.multiply(params.h[from_attr.idx], from_attr.id);\n                temp.negate(temp);\n                precomputed.prodexp.add(precomputed.prodexp, temp);')]),
]
MUTANTS += [
 dict(name='c11-benign-qualifykey-pointer-refactor', prop='C11', benign=True, expect='', patch='selftest/fixes/benign-qualifykey-pointer-refactor.patch'),
 dict(name='c12-benign-qualifykey-pointer-refactor', prop='C12', benign=True, expect='', patch='selftest/fixes/benign-qualifykey-pointer-refactor.patch'),
]
# ---- R-LANES, R-WORDALG/c++ and round-7 seeds
MUTANTS += [
 dict(name='seed-C15-freeslot-idx-swap-precedence', prop='C15', patch='seeded/C15-freeslot-index-swap-helper-precedence/patch.diff', expect='R-LANES'),
 dict(name='c15-benign-freeslot-idx-memcpy-swap', prop='C15', benign=True, expect='', patch='selftest/fixes/benign-freeslot-idx-memcpy-swap.patch'),
 dict(name='c17-benign-freeslot-idx-memcpy-swap', prop='C17', benign=True, expect='', patch='selftest/fixes/benign-freeslot-idx-memcpy-swap.patch'),
 dict(name='c09-write-big-endian-off-by-one', prop='C09', expect='R-LANES',
      edits=[('include/core/bigint.hpp', '                buffer[i] = this->bytes[byte_length - i - 1];', '                buffer[i] = this->bytes[byte_length - i - 1 - (i == 5)];')]),
 dict(name='seed-C02-portable-redc-meta-carry-narrow', prop='C02', patch='seeded/C02-portable-redc-meta-carry-narrowed/patch.diff', expect='VIOLATION property=C02'),
 dict(name='seed-C03-portable-add-carry-folded-into-b', prop='C03', patch='seeded/C03-portable-add-carry-folded-into-addend/patch.diff', expect='R-WORDALG/c++'),
 dict(name='seed-C11-resample-bsig-stale', prop='C11', patch='seeded/C11-resamplekey-bsig-not-rerandomised/patch.diff', expect='R-SCHEME'),
 dict(name='seed-C18-negate-zero-test-after-write', prop='C18', patch='seeded/C18-negate-zero-test-after-write/patch.diff', expect='VIOLATION property=C18'),
 dict(name='seed-C17-decode-helper-wire-flag', prop='C17', patch='seeded/C17-decode-helper-trusts-wire-flag/patch.diff', expect='VIOLATION property=C17'),
 dict(name='c02-cpp-add-carry-le-in-no-carry-arm', prop='C02', expect='R-WORDALG/c++',
      edits=[('include/core/bigint.hpp', '                    if (carry == 0) {\n                        carry = (this->dwords[i] < b.dwords[i]) ? 1 : 0;', '                    if (carry == 0) {\n                        carry = (this->dwords[i] <= b.dwords[i]) ? 1 : 0;')]),
 dict(name='c02-cpp-fpadd-compare-strict', prop='C02', expect='R-WORDALG/c++',
      edits=[('include/core/fp.hpp', '            bool carry = this->val.add(a.val, b.val);\n            if (BigInt<bits>::compare(this->val, p) >= 0 || carry) {', '            bool carry = this->val.add(a.val, b.val);\n            if (BigInt<bits>::compare(this->val, p) > 0 || carry) {')]),
 dict(name='c02-cpp-square-diagonal-carry-dropped', prop='C02', expect='R-WORDALG/c++',
      edits=[('include/core/bigint.hpp', '                new_word = ((dword_t) this->words[(i << 1) + 1]) + ((dword_t) carry);\n                this->words[(i << 1) + 1] = (word_t) new_word;\n                carry = (word_t) (new_word >> (sizeof(word_t) * 8));',
              '                new_word = ((dword_t) this->words[(i << 1) + 1]) + ((dword_t) carry);\n                this->words[(i << 1) + 1] = (word_t) new_word;\n                carry = 0;')]),
 dict(name='c02-cpp-compare-returns-swapped-at-low-word', prop='C02', expect='R-WORDALG/c++',
      edits=[('include/core/bigint.hpp', '            for (int i = word_length - 1; i != -1; i--) {\n                if (a.words[i] < b.words[i]) {\n                    return -1;\n                }',
              '            for (int i = word_length - 1; i != -1; i--) {\n                if (a.words[i] < b.words[i]) {\n                    return (i == 0) ? 1 : -1;\n                }')]),
]
MUTANTS += [
 dict(name='seed-C06-frobenius-running-base-skipped', prop='C06', patch='seeded/C06-frobenius-tables-running-base-skips-advance/patch.diff', expect='R-POLY/tables'),
 dict(name='c06-benign-frobenius-single-running-base', prop='C06', benign=True, expect='', patch='selftest/fixes/benign-frobenius-single-running-base.patch'),
 dict(name='seed-C09-encode-sign-helper-swapped-fallback', prop='C09', patch='seeded/C09-encode-sign-helper-swapped-fallback/patch.diff', expect='sign|'),
 dict(name='seed-C13-verify-shared-inversion-identity', prop='C13', patch='seeded/C13-verify-shared-inversion-identity-a1/patch.diff', expect='VIOLATION property=C13'),
 dict(name='seed-C14-attribute-term-short-id-fastpath', prop='C14', patch='seeded/C14-attribute-term-short-id-fastpath/patch.diff', expect='VIOLATION property=C14'),
 dict(name='c06-fill-table-adds-base-not-double', prop='C06', expect='tables|WnafTable',
      edits=[('include/bls12_381/wnaf.hpp', '                table[i].add(table[i - 1], two_base);', '                table[i].add(table[i - 1], table[0]);')]),
 dict(name='c06-endomorphism-table-from-endo-of-a', prop='C06', expect='tables|G1::multiply_endomorphism',
      edits=[('src/bls12_381/curve_fast_multiply.cpp', '        WnafTable<G1, wnaf_window_size> wt;\n        wt.fill_table(a);', '        WnafTable<G1, wnaf_window_size> wt;\n        G1 ea;\n        ea.endomorphism(a);\n        wt.fill_table(ea);')]),
]
# ---- R-POLY/digits
MUTANTS += [
 dict(name='c06-digits-endomorphism-c1-sign-flag-inverted-on-negative-digit', prop='C06', expect='R-POLY/digits',
      edits=[('src/bls12_381/curve_fast_multiply.cpp', '                    timeslambda.endomorphism(wt.table[(-wc1.wnaf[i]) >> 1]);\n                    if (!c1_neg) {', '                    timeslambda.endomorphism(wt.table[(-wc1.wnaf[i]) >> 1]);\n                    if (c1_neg) {')]),
 dict(name='c06-digits-frobenius-lookup-wrong-table', prop='C06', expect='R-POLY/digits',
      edits=[('src/bls12_381/curve_fast_multiply.cpp', '                        this->add(*this, wt[j].table[power.wnaf[i] >> 1]);', '                        this->add(*this, wt[j ^ 1].table[power.wnaf[i] >> 1]);')]),
 dict(name='c06-digits-table-multiply-no-found-one', prop='C06', expect='R-POLY/digits',
      edits=[('include/bls12_381/wnaf.hpp', '                    result.add(result, tmp);\n                }\n                found_one = true;', '                    result.add(result, tmp);\n                }\n                found_one = (power.wnaf[i] > 0);')]),
 dict(name='c06-digits-endomorphism-first-stream-not-negated', prop='C06', expect='R-POLY/digits',
      edits=[('src/bls12_381/curve_fast_multiply.cpp', '                    if (c0_neg) {\n                        G1 tmp;\n                        tmp.negate(entry);\n                        this->add(*this, tmp);\n                    } else {\n                        this->add(*this, entry);\n                    }\n                } else {',
              '                    this->add(*this, entry);\n                } else {')]),
]
# ---- round 8
MUTANTS += [
 dict(name='seed-C19-unmarshal-helper-passes-compressed-as-checked', prop='C19', patch='seeded/C19-unmarshal-helper-passes-compressed-as-checked/patch.diff', expect='R-WRAP'),
 dict(name='c19-benign-shared-marshal-helpers', prop='C19', benign=True, expect='', patch='selftest/fixes/benign-c19-shared-marshal-helpers.patch'),
 dict(name='c15-benign-shared-marshal-helpers', prop='C15', benign=True, expect='', patch='selftest/fixes/benign-c19-shared-marshal-helpers.patch'),
 dict(name='seed-C04-fq2-sqrt-exceptional-guard', prop='C04', patch='seeded/C04-fq2-sqrt-exceptional-branch-guard/patch.diff', expect='R-POLY/sqrt'),
 dict(name='seed-C05-fq2-is-one-predicate', prop='C05', patch='seeded/C05-fq2-is-one-wrong-conjunction/patch.diff', expect='R-PRED'),
 dict(name='c04-fq6-is-zero-skips-c2', prop='C04', expect='R-PRED',
      edits=[('src/bls12_381/fq6.cpp', '        return c0_zero && c1_zero && c2_zero;', '        return c0_zero && c1_zero;')]),
]
MUTANTS += [
 dict(name='seed-C01-miller-loop-merge-extra-squaring', prop='C01', patch='seeded/C01-miller-loop-merge-extra-squaring/patch.diff', expect='ccl|schedule'),
 dict(name='seed-C01-on-C08-silent', prop='C08', benign=True, expect='', patch='seeded/C01-miller-loop-merge-extra-squaring/patch.diff'),
 dict(name='c01-benign-merged-last-doubling', prop='C01', benign=True, expect='', patch='selftest/fixes/benign-c01-merged-last-doubling.patch'),
 dict(name='c08-benign-merged-last-doubling', prop='C08', benign=True, expect='', patch='selftest/fixes/benign-c01-merged-last-doubling.patch'),
 dict(name='seed-C07-decompose-fold-fifth-digit', prop='C07', patch='seeded/C07-decompose-fold-fifth-digit-incomplete-borrow/patch.diff', expect='PowersOfX::decompose'),
 dict(name='seed-C08-miller-loop-compacts-pair-arrays', prop='C08', patch='seeded/C08-miller-loop-compacts-pair-arrays/patch.diff', expect='VIOLATION property=C08'),
 dict(name='seed-C10-hash-reduce-branch-swap', prop='C10', patch='seeded/C10-hash-reduce-branch-swap-boundary/patch.diff', expect='VIOLATION property=C10'),
 dict(name='seed-C12-joint-walk-unguarded-read', prop='C12', patch='seeded/C12-nondelegable-qualifykey-joint-walk-unguarded-read/patch.diff', expect='R-INBOUNDS'),
 dict(name='seed-C12-joint-walk-on-C11', prop='C11', patch='seeded/C12-nondelegable-qualifykey-joint-walk-unguarded-read/patch.diff', expect='R-INBOUNDS'),
 dict(name='c12-benign-joint-walk-guarded', prop='C12', benign='noverdict', expect='', patch='selftest/fixes/benign-c12-joint-walk-guarded.patch'),
 dict(name='c11-benign-joint-walk-guarded', prop='C11', benign='noverdict', expect='', patch='selftest/fixes/benign-c12-joint-walk-guarded.patch'),
 dict(name='seed-C16-lqibe-encrypt-shared-inversion', prop='C16', patch='seeded/C16-lqibe-encrypt-shared-inversion/patch.diff', expect='VIOLATION property=C16'),
 dict(name='seed-C20-lqibe-static-hash-buffer', prop='C20', patch='seeded/C20-lqibe-static-hash-buffer/patch.diff', expect='VIOLATION property=C20'),
 # ---- decomposition identities (R-WORDALG/c++)
 dict(name='c07-decompose-c3-from-second-dword', prop='C07', expect='PowersOfX::decompose',
      edits=[('src/bls12_381/decomposition.cpp', 'c3.std_dwords[0] = quotient.std_dwords[0];', 'c3.std_dwords[0] = quotient.std_dwords[1];')]),
 dict(name='c07-decompose-unreduced-on-large-path', prop='C07', expect='PowersOfX::decompose',
      edits=[('src/bls12_381/decomposition.cpp', 'div_exp_coeff(this->c[0], this->c[1], this->c[2], this->c[3], a);', 'div_exp_coeff(this->c[0], this->c[1], this->c[2], this->c[3], y);')]),
 dict(name='c07-benign-decompose-compare-le', prop='C07', benign=True, expect='',
      edits=[('src/bls12_381/decomposition.cpp', 'if (BigInt<256>::compare(y, Fr::p_value) == -1) {', 'if (BigInt<256>::compare(y, Fr::p_value) != 1) {')]),
 dict(name='c06-decompose-second-division-of-y', prop='C06', expect='PowersOfX::decompose',
      edits=[('src/bls12_381/decomposition.cpp', 'c1.std_dwords[0] = quotient.divide_std_dword<x>(quotient);', 'c1.std_dwords[0] = quotient.divide_std_dword<x>(y);')]),
 dict(name='c06-glv-c0-sign-wrong', prop='C06', expect='decompose_lambda',
      edits=[('src/bls12_381/curve_fast_multiply.cpp', 'c0_neg = true;\n             c0.subtract(product, k);', 'c0_neg = false;\n             c0.subtract(product, k);')]),
 dict(name='c06-glv-c1-sign-wrong', prop='C06', expect='decompose_lambda',
      edits=[('src/bls12_381/curve_fast_multiply.cpp', 'c1_neg = true;\n             c1.copy(rounded_b2);', 'c1_neg = false;\n             c1.copy(rounded_b2);')]),
 dict(name='c06-glv-wrong-lattice-constant', prop='C06', expect='decompose_lambda',
      edits=[('src/bls12_381/curve_fast_multiply.cpp', 'product.multiply(rounded_b2, g1_v2_1);', 'product.multiply(rounded_b2, g1_v1_2);')]),
 dict(name='c06-glv-round-b1-not-added', prop='C06', expect='decompose_lambda',
      edits=[('src/bls12_381/curve_fast_multiply.cpp', 'if (rounded_b1 == 1) {', 'if (rounded_b1 == 2) {')]),
 dict(name='c06-glv-compare-direction', prop='C06', expect='decompose_lambda',
      edits=[('src/bls12_381/curve_fast_multiply.cpp', 'if (BigInt<256>::compare(k, product) == -1) {', 'if (BigInt<256>::compare(k, product) == 1) {')]),
 dict(name='c06-glv-c1-subtract-swapped', prop='C06', expect='decompose_lambda',
      edits=[('src/bls12_381/curve_fast_multiply.cpp', 'c1.subtract(v1_2_wide, rounded_b2_wide);', 'c1.subtract(rounded_b2_wide, v1_2_wide);')]),
 dict(name='c06-benign-glv-rounding-tie', prop='C06', benign=True, expect='',
      edits=[('src/bls12_381/curve_fast_multiply.cpp', '} else if (BigInt<256>::compare(two_k, Fr::p_value) == -1) {', '} else if (BigInt<256>::compare(two_k, Fr::p_value) != 1) {')]),
]
# ---- ARMv6-M assembly (R-WORDALG, thumbsem)
MUTANTS += [
 dict(name='c03-m0-add-chain-restarts', prop='C03', expect='bigint_384_add',
      edits=[('src/core/arch/armv6_m/bigint.s', '.macro addcarry64 dst, src0, src1\n    ldm \\src0!, {r3, r4}\n    ldm \\src1!, {r5, r6}\n    adc r3, r3, r5', '.macro addcarry64 dst, src0, src1\n    ldm \\src0!, {r3, r4}\n    ldm \\src1!, {r5, r6}\n    add r3, r3, r5')]),
 dict(name='c03-m0-subtract-returns-carry-not-borrow', prop='C03', expect='bigint_384_subtract',
      edits=[('src/core/arch/armv6_m/bigint.s', '    sbc r0, r0, r0\n    neg r0, r0', '    eor r0, r0, r0\n    adc r0, r0, r0')]),
 dict(name='c03-m0-multiply-cross-carry-shift', prop='C03', expect='bigint_768_multiply',
      edits=[('src/core/arch/armv6_m/multiply.s', '.macro multiply32part2\n    @ Move carry to top half of r5\n    lsl r5, r5, #16', '.macro multiply32part2\n    @ Move carry to top half of r5\n    lsl r5, r5, #15')]),
 dict(name='c02-m0-montgomery-row-reads-wrong-modulus-word', prop='C02', expect='fpbase_384',
      edits=[('src/core/arch/armv6_m/multiply.s', '    ldr r0, [r1, #44]\n    muladdcarry32 r2, r0, 4*\\i+44, r0, r3\n    str r6, [sp, #4*\\i+44]\n.endm', '    ldr r0, [r1, #40]\n    muladdcarry32 r2, r0, 4*\\i+44, r0, r3\n    str r6, [sp, #4*\\i+44]\n.endm')]),
 dict(name='c02-m0-montgomery-meta-carry-lost', prop='C02', expect='fpbase_384',
      edits=[('src/core/arch/armv6_m/multiply.s', '    ldr r3, [sp, #4*\\i+48]\n    adc r0, r0, r3', '    ldr r3, [sp, #4*\\i+48]\n    add r0, r0, r3')]),
 dict(name='c02-m0-fused-multiply-reduces-wrong-half', prop='C02', expect='fpbase_384_multiply',
      edits=[('src/core/arch/armv6_m/multiply.s', '    add r1, sp, #48\n    bl embedded_pairing_core_arch_armv6_m_fpbase_384_reduce', '    add r1, sp, #44\n    bl embedded_pairing_core_arch_armv6_m_fpbase_384_reduce')]),
 dict(name='c03-m0-square-callee-saved-swapped', prop='C03', expect='callee-saved',
      edits=[('src/core/arch/armv6_m/multiply.s', '    pop {r4, r5, r6, r7}\n    mov r11, r7\n    mov r10, r6\n    mov r9, r5\n    mov r8, r4\n    pop {r4, r5, r6, r7}\n    bx lr', '    pop {r4, r5, r6, r7}\n    mov r10, r7\n    mov r11, r6\n    mov r9, r5\n    mov r8, r4\n    pop {r4, r5, r6, r7}\n    bx lr')]),
 dict(name='c03-m0-square-doubling-drops-carry', prop='C03', expect='bigint_768_square',
      edits=[('src/core/arch/armv6_m/multiply.s', '    stm r1!, {r2-r7}\n    ldm r0!, {r2-r7}\n    adc r2, r2, r2\n    adc r3, r3, r3', '    stm r1!, {r2-r7}\n    ldm r0!, {r2-r7}\n    add r2, r2, r2\n    adc r3, r3, r3')]),
 dict(name='c02-m0-trampoline-swaps-arguments', prop='C02', expect='trampoline',
      edits=[('src/core/arch/armv6_m/fp.cpp', 'res_val->reduce(*a_val, *p_val);', 'res_val->reduce(*p_val, *a_val);')]),
]
MUTANTS += [
 dict(name='c17-m0-add-one-pair-too-many', prop='C17', expect='asm|footprint',
      edits=[('src/core/arch/armv6_m/bigint.s', '    addcarry64 r0, r1, r2\n\n    @ Recover carry bit and store it in r0\n    eor r0, r0, r0', '    addcarry64 r0, r1, r2\n    addcarry64 r0, r1, r2\n\n    @ Recover carry bit and store it in r0\n    eor r0, r0, r0')]),
 dict(name='c17-m0-multiply-frame-too-small', prop='C17', expect='asm|',
      edits=[('src/core/arch/armv6_m/multiply.s', '    @ Allocate space for temporary BigInt<768> "tmp" storing the product\n    sub sp, sp, #96\n\n    @ Compute the product of a * b and store it in tmp\n\n    multiply768\n\n    @ Copy result', '    @ Allocate space for temporary BigInt<768> "tmp" storing the product\n    sub sp, sp, #88\n\n    @ Compute the product of a * b and store it in tmp\n\n    multiply768\n\n    @ Copy result')]),
]
# ---- w-NAF recoding step
MUTANTS += [
 dict(name='c06-wnaf-step-D3-reverted', prop='C06', revert='D3', expect='from_bigint'),
 dict(name='c06-wnaf-step-negative-digit-off-by-window', prop='C06', expect='from_bigint',
      edits=[('include/bls12_381/wnaf.hpp', 'u -= (1 << (window + 1));', 'u -= (1 << window);')]),
 dict(name='c06-wnaf-step-addback-subtracts', prop='C06', expect='from_bigint',
      edits=[('include/bls12_381/wnaf.hpp', 'a.bytes[0] = (uint8_t) (-u);\n                        c.add(c, a);', 'a.bytes[0] = (uint8_t) (-u);\n                        c.subtract(c, a);')]),
 dict(name='c06-wnaf-step-lost-bit-reinserted-one-lower', prop='C06', expect='from_bigint',
      edits=[('include/bls12_381/wnaf.hpp', 'c.bytes[(bits - 1) >> 3] |= (uint8_t) (1 << ((bits - 1) & 0x7));', 'c.bytes[(bits - 1) >> 3] |= (uint8_t) (1 << ((bits - 2) & 0x7));')]),
 dict(name='c06-wnaf-step-threshold-allows-2w', prop='C06', expect='from_bigint',
      edits=[('include/bls12_381/wnaf.hpp', 'u = (int16_t) (c.bytes[0] & ((1 << (window + 1)) - 1));', 'u = (int16_t) (c.bytes[0] & ((1 << (window + 2)) - 1));')]),
 dict(name='c06-benign-wnaf-positive-digits-only', prop='C06', benign=True, expect='',
      edits=[('include/bls12_381/wnaf.hpp', 'u = (int16_t) (c.bytes[0] & ((1 << (window + 1)) - 1));', 'u = (int16_t) (c.bytes[0] & ((1 << window) - 1));')]),
 dict(name='c06-benign-wnaf-threshold-ge', prop='C06', benign=True, expect='',
      edits=[('include/bls12_381/wnaf.hpp', 'if (u > (1 << window)) {', 'if (u >= (1 << window)) {')]),
]
# ---- session 4, later: guard-refined ranges, conditional reference bindings, R-HIDDEN/flag
MUTANTS += [
 dict(name='c17-benign-frobenius-index-arms-swapped', prop='C17', benign=True, expect='',
      edits=[('src/bls12_381/fq12.cpp', 'unsigned int coeff_idx = power < 12 ? power : power % 12;', 'unsigned int coeff_idx = power >= 12 ? power % 12 : power;')]),
 dict(name='c17-frobenius-index-subtract-once', prop='C17', expect='R-BOUNDS',
      edits=[('src/bls12_381/fq12.cpp', 'unsigned int coeff_idx = power < 12 ? power : power % 12;', 'unsigned int coeff_idx = power < 12 ? power : power - 12;')]),
 dict(name='c17-fq6-frobenius-guarded-index-off-by-one', prop='C17', expect='R-BOUNDS',
      edits=[('src/bls12_381/fq12.cpp', 'unsigned int coeff_idx = power < 12 ? power : power % 12;', 'unsigned int coeff_idx = power <= 12 ? power : power % 12;')]),
 dict(name='c18-benign-fq6-multiply-reference-locals', prop='C18', benign=True, expect='',
      edits=[('src/bls12_381/fq6.cpp', '    void Fq6::multiply(const Fq6& a, const Fq6& b) {\n        Fq2 a_a;', '    void Fq6::multiply(const Fq6& a0, const Fq6& b0) {\n        const Fq6& a = a0;\n        const Fq6& b = b0;\n        Fq2 a_a;')]),
 dict(name='c12-keygen-flag-test-on-next-element', prop='C12', expect='R-HIDDEN/flag',
      edits=[('src/wkdibe/api.cpp', '                if (!attrs.attrs[k].omitFromKeys) {\n                    temp.multiply(params.h[i], attrs.attrs[k].id);\n                    sk.a0.add(sk.a0, temp);\n                }\n                k++;\n            } else if (!attrs.omitAllFromKeysUnlessPresent) {\n                sk.b[j].idx = i;\n                sk.b[j].hexp.multiply(params.h[i], r);',
              '                if (!attrs.attrs[0].omitFromKeys) {\n                    temp.multiply(params.h[i], attrs.attrs[k].id);\n                    sk.a0.add(sk.a0, temp);\n                }\n                k++;\n            } else if (!attrs.omitAllFromKeysUnlessPresent) {\n                sk.b[j].idx = i;\n                sk.b[j].hexp.multiply(params.h[i], r);')]),
]
# ---- round 9
MUTANTS += [
 dict(name='seed-C03-bmi2-reduce-adox-drops-adcx-carry', prop='C03', patch='seeded/C03-bmi2-reduce-adox-drops-adcx-carry/patch.diff', expect='R-WORDALG'),
 dict(name='seed-C06-wnaf-do-while-seeded-accumulator', prop='C06', patch='seeded/C06-wnaf-do-while-and-seeded-accumulator-zero-scalar/patch.diff', expect='R-POLY/digits'),
 dict(name='seed-C09-decode-range-test-replaces-canonical-check', prop='C09', patch='seeded/C09-decode-range-test-replaces-canonical-check/patch.diff', expect='canonical'),
 dict(name='seed-C11-nondelegable-keygen-via-precompute', prop='C11', patch='seeded/C11-nondelegable-keygen-via-precompute/patch.diff', expect='R-HIDDEN/flag'),
 dict(name='seed-C11-nondelegable-keygen-via-precompute-c12', prop='C12', patch='seeded/C11-nondelegable-keygen-via-precompute/patch.diff', expect='R-HIDDEN/flag'),
 dict(name='seed-C13-message-exponent-hash-reduce', prop='C13', patch='seeded/C13-message-exponent-hash-reduce/patch.diff', expect='VIOLATION property=C13'),
 dict(name='seed-C14-adjust-precomputed-short-step', prop='C14', patch='seeded/C14-adjust-precomputed-short-step-raw-difference/patch.diff', expect='VIOLATION property=C14'),
 dict(name='seed-C17-fq12-frobenius-index-subtract', prop='C17', patch='seeded/C17-fq12-frobenius-index-subtract/patch.diff', expect='R-BOUNDS'),
 dict(name='seed-C18-fq6-multiply-operand-swap-lazy-read', prop='C18', patch='seeded/C18-fq6-multiply-operand-swap-lazy-read/patch.diff', expect='this==a, this==b'),
]
# ---- inversion (binary extended Euclid) steps
MUTANTS += [
 dict(name='c02-inverse-compare-direction', prop='C02', expect='fp_inverse',
      edits=[('include/core/fp_utils.hpp', 'if (BigInt<Fp::bits_value>::compare(v, u) == -1) {', 'if (BigInt<Fp::bits_value>::compare(v, u) == 1) {')]),
 dict(name='c02-inverse-odd-accumulator-not-lifted', prop='C02', expect='fp_inverse',
      edits=[('include/core/fp_utils.hpp', '                if (b.val.is_odd()) {\n                    b.val.add(b.val, Fp::p_value);\n                }', '                if (b.val.is_even()) {\n                    b.val.add(b.val, Fp::p_value);\n                }')]),
 dict(name='c02-inverse-accumulator-subtraction-swapped', prop='C02', expect='fp_inverse',
      edits=[('include/core/fp_utils.hpp', '                u.subtract(u, v);\n                b.subtract(b, c);', '                u.subtract(u, v);\n                b.subtract(c, b);')]),
 dict(name='c02-inverse-result-selection-swapped', prop='C02', expect='fp_inverse',
      edits=[('include/core/fp_utils.hpp', '        if (u.is_one()) {\n            res.copy(b);\n        } else {\n            res.copy(c);', '        if (u.is_one()) {\n            res.copy(c);\n        } else {\n            res.copy(b);')]),
 dict(name='c02-inverse-loop-until-both-one', prop='C02', expect='fp_inverse',
      edits=[('include/core/fp_utils.hpp', 'while (!u.is_one() && !v.is_one()) {', 'while (!u.is_one() || !v.is_one()) {')]),
 dict(name='c02-inverse-starts-from-R', prop='C02', expect='fp_inverse',
      edits=[('include/core/fp_utils.hpp', 'b.copy(Fp::r2_value);', 'b.copy(Fp::r_value);')]),
 dict(name='c02-benign-inverse-halving-loops-swapped', prop='C02', benign=True, expect='',
      edits=[('include/core/fp_utils.hpp', """            while (u.is_even()) {
                u.template shift_right_in_word<1>(u);
                if (b.val.is_odd()) {
                    b.val.add(b.val, Fp::p_value);
                }
                b.val.template shift_right_in_word<1>(b.val);
            }
            while (v.is_even()) {
                v.template shift_right_in_word<1>(v);
                if (c.val.is_odd()) {
                    c.val.add(c.val, Fp::p_value);
                }
                c.val.template shift_right_in_word<1>(c.val);
            }
""", """            while (v.is_even()) {
                v.template shift_right_in_word<1>(v);
                if (c.val.is_odd()) {
                    c.val.add(c.val, Fp::p_value);
                }
                c.val.template shift_right_in_word<1>(c.val);
            }
            while (u.is_even()) {
                u.template shift_right_in_word<1>(u);
                if (b.val.is_odd()) {
                    b.val.add(b.val, Fp::p_value);
                }
                b.val.template shift_right_in_word<1>(b.val);
            }
""")]),
 dict(name='seed-C02-fp-inverse-kaliski-no-verdict', prop='C02', novd=True, expect='', patch='seeded/C02-fp-inverse-kaliski-short-iteration-count/patch.diff'),
 dict(name='seed-C15-secretkey-marshal-batched-inversion-no-verdict', prop='C15', novd=True, expect='', patch='seeded/C15-secretkey-marshal-batched-inversion-identity-slot/patch.diff'),
]
# ---- restoring division of the 32-bit-word configurations
MUTANTS += [
 dict(name='c07-m0-restoring-division-strict-compare', prop='C07', expect='restoring step',
      edits=[('include/core/bigint.hpp', 'if (top_bit == 1 || rem >= divisor) {', 'if (top_bit == 1 || rem > divisor) {')]),
 dict(name='c07-m0-restoring-division-ignores-lost-top-bit', prop='C07', expect='restoring step',
      edits=[('include/core/bigint.hpp', 'if (top_bit == 1 || rem >= divisor) {', 'if (rem >= divisor) {')]),
 dict(name='c06-m0-restoring-division-bit-from-wrong-position', prop='C06', expect='restoring step',
      edits=[('include/core/bigint.hpp', 'rem |= ((dividend_lower >> i) & 0x1);', 'rem |= ((dividend_lower >> (63 - i)) & 0x1);')]),
 dict(name='c07-benign-m0-restoring-division-top-bit-nonzero-test', prop='C07', benign=True, expect='',
      edits=[('include/core/bigint.hpp', 'if (top_bit == 1 || rem >= divisor) {', 'if (top_bit != 0 || rem >= divisor) {')]),
]
# ---- Legendre symbol
MUTANTS += [
 dict(name='c02-legendre-exponent-not-halved', prop='C02', expect='legendre',
      edits=[('include/core/fp.hpp', '            pminusoneovertwo.template shift_right_in_word<1>(pminusoneovertwo);\n', '')]),
 dict(name='c02-legendre-exponent-p-plus-one', prop='C02', expect='legendre',
      edits=[('include/core/fp.hpp', 'pminusoneovertwo.subtract(p, BigInt<bits>::one);', 'pminusoneovertwo.add(p, BigInt<bits>::one);')]),
 dict(name='c02-legendre-zero-reported-as-nonresidue', prop='C02', expect='legendre',
      edits=[('include/core/fp.hpp', '            if (tmp.is_zero()) {\n                return 0;\n            } else if (tmp.is_one()) {', '            if (tmp.is_zero()) {\n                return -1;\n            } else if (tmp.is_one()) {')]),
]
# ---- round 10 related mutants
MUTANTS += [
 dict(name='c05-multiply2-identity-shortcut-no-copy', prop='C05', expect='R-DEFOUT/curve',
      edits=[('include/bls12_381/curve.hpp', """            if (other.is_zero()) {
                this->copy(other);
                return;
            }""", """            if (other.is_zero()) {
                return;
            }""")]),
 dict(name='c20-mutable-cursor-in-g2prepared', prop='C20', expect='R-EFFECT/const',
      edits=[('include/bls12_381/pairing.hpp', 'bool infinity;\n', 'bool infinity;\n        mutable unsigned char scratch_pos;\n')], count=1),
]
# ---- sign predicate truth tables (C09, C10)
MUTANTS += [
 dict(name='c09-getpoint-sign-compare-reversed', prop='C09', expect='getpoint-sign',
      edits=[('include/bls12_381/curve.hpp', 'bool ywasgreater = (BaseField::compare(y, negy) == 1);', 'bool ywasgreater = (BaseField::compare(negy, y) == 1);')]),
 dict(name='c10-getpoint-sign-ge', prop='C10', expect='getpoint-sign',
      edits=[('include/bls12_381/curve.hpp', 'bool ywasgreater = (BaseField::compare(y, negy) == 1);', 'bool ywasgreater = (BaseField::compare(y, negy) >= 0);')]),
 dict(name='c09-encoder-sign-ne-minus-one', prop='C09', expect='sign|',
      edits=[('src/bls12_381/curve.cpp', 'if (Affine::BaseFieldType::compare(g.y, negy) == 1) {', 'if (Affine::BaseFieldType::compare(g.y, negy) != -1) {')]),
 dict(name='c09-benign-getpoint-sign-reversed-compare-minus-one', prop='C09', benign=True, expect='',
      edits=[('include/bls12_381/curve.hpp', 'bool ywasgreater = (BaseField::compare(y, negy) == 1);', 'bool ywasgreater = (BaseField::compare(negy, y) == -1);')]),
 dict(name='c10-benign-getpoint-sign-reversed-compare-minus-one', prop='C10', benign=True, expect='',
      edits=[('include/bls12_381/curve.hpp', 'bool ywasgreater = (BaseField::compare(y, negy) == 1);', 'bool ywasgreater = (BaseField::compare(negy, y) == -1);')]),
]
# ---- round 10
MUTANTS += [
 dict(name='seed-C01-final-exponentiation-static-temporaries-c20', prop='C20', patch='seeded/C01-final-exponentiation-static-temporaries/patch.diff', expect='staticlocal'),
 dict(name='seed-C01-final-exponentiation-static-temporaries-c01', prop='C01', novd=True, expect='', patch='seeded/C01-final-exponentiation-static-temporaries/patch.diff'),
 dict(name='seed-C04-fq2-frobenius-raw-subtract', prop='C04', patch='seeded/C04-fq2-frobenius-raw-subtract-noncanonical-zero/patch.diff', expect='R-FIELDLAYER'),
 dict(name='seed-C05-multiply2-identity-shortcut', prop='C05', patch='seeded/C05-multiply2-identity-shortcut-leaves-result-unwritten/patch.diff', expect='R-DEFOUT/curve'),
 dict(name='seed-C07-exponentiate-gt-base-pointer-aliases-result', prop='C07', patch='seeded/C07-exponentiate-gt-base-pointer-aliases-result/patch.diff', expect='out==a'),
 dict(name='seed-C08-c-api-pairing-sum-blocks', prop='C08', patch='seeded/C08-c-api-pairing-sum-blocks-of-eight/patch.diff', expect='cwrapper'),
 dict(name='seed-C08-c-api-pairing-sum-blocks-c19', prop='C19', patch='seeded/C08-c-api-pairing-sum-blocks-of-eight/patch.diff', expect='R-WRAP/W1'),
 dict(name='seed-C10-fq2-lexicographically-largest', prop='C10', patch='seeded/C10-fq2-lexicographically-largest-drops-c0-fallback/patch.diff', expect='getpoint-sign'),
 dict(name='seed-C10-fq2-lexicographically-largest-c09', prop='C09', patch='seeded/C10-fq2-lexicographically-largest-drops-c0-fallback/patch.diff', expect='Fq2'),
 dict(name='seed-C12-qualifykey-merge-trailing-slots', prop='C12', patch='seeded/C12-qualifykey-merge-trailing-slots-ignore-omit-all/patch.diff', expect='R-HIDDEN/all'),
 dict(name='seed-C16-lqibe-decrypt-zero-length', prop='C16', patch='seeded/C16-lqibe-decrypt-zero-length-shortcut/patch.diff', expect='VIOLATION property=C16'),
 dict(name='seed-C19-g2-unmarshal-helper', prop='C19', patch='seeded/C19-g2-unmarshal-helper-passes-compressed-as-checked/patch.diff', expect='R-WRAP'),
 dict(name='seed-C20-g2prepared-mutable-read-cursor', prop='C20', patch='seeded/C20-g2prepared-mutable-read-cursor/patch.diff', expect='R-EFFECT/const'),
]

# ---- benign-refactor round 1: behaviour-preserving rewrites by fresh sub-agents of the code each property is anchored in; the checks of
# the property (and of those that read the same routines) must stay silent (or, for the pointer-walk precompute, decline)
MUTANTS += [
 dict(name='benign-r1-C01', prop='C01', benign=True, expect='', patch='selftest/fixes/benign-r1-C01.patch'),
 dict(name='benign-r1-C01-on-C08', prop='C08', benign=True, expect='', patch='selftest/fixes/benign-r1-C01.patch'),
 dict(name='benign-r1-C05', prop='C05', benign=True, expect='', patch='selftest/fixes/benign-r1-C05.patch'),
 dict(name='benign-r1-C06', prop='C06', benign=True, expect='', patch='selftest/fixes/benign-r1-C06.patch'),
 dict(name='benign-r1-C08', prop='C08', benign=True, expect='', patch='selftest/fixes/benign-r1-C08.patch'),
 dict(name='benign-r1-C08-on-C01', prop='C01', benign=True, expect='', patch='selftest/fixes/benign-r1-C08.patch'),
 dict(name='benign-r1-C09', prop='C09', benign=True, expect='', patch='selftest/fixes/benign-r1-C09.patch'),
 dict(name='benign-r1-C09-on-C10', prop='C10', benign=True, expect='', patch='selftest/fixes/benign-r1-C09.patch'),
 dict(name='benign-r1-C11', prop='C11', benign=True, expect='', patch='selftest/fixes/benign-r1-C11.patch'),
 dict(name='benign-r1-C11-on-C12', prop='C12', benign=True, expect='', patch='selftest/fixes/benign-r1-C11.patch'),
 dict(name='benign-r1-C12', prop='C12', benign=True, expect='', patch='selftest/fixes/benign-r1-C12.patch'),
 dict(name='benign-r1-C12-on-C11', prop='C11', benign=True, expect='', patch='selftest/fixes/benign-r1-C12.patch'),
 dict(name='benign-r1-C14', prop='C14', benign=True, expect='', patch='selftest/fixes/benign-r1-C14.patch'),
 dict(name='benign-r1-C14-on-C11', prop='C11', benign=True, expect='', patch='selftest/fixes/benign-r1-C14.patch'),
 dict(name='benign-r1-C15', prop='C15', benign=True, expect='', patch='selftest/fixes/benign-r1-C15.patch'),
 dict(name='benign-r1-C18', prop='C18', benign=True, expect='', patch='selftest/fixes/benign-r1-C18.patch'),
 dict(name='benign-r1-C18-on-C04', prop='C04', benign=True, expect='', patch='selftest/fixes/benign-r1-C18.patch'),
 # the same rewrites with one defect put back: the rules must still see through the new shape
 dict(name='benign-r1-C09-padding-short', prop='C09', expect='padding', patch='selftest/fixes/benign-r1-C09.patch',
      edits=[('src/bls12_381/curve.cpp', 'sizeof(this->data) - 1)) {', 'sizeof(this->data) - 2)) {')]),
 dict(name='benign-r1-C09-padding-from-2', prop='C09', expect='padding', patch='selftest/fixes/benign-r1-C09.patch',
      edits=[('src/bls12_381/curve.cpp', 'all_bytes_zero(&this->data[1], sizeof(this->data) - 1)', 'all_bytes_zero(&this->data[2], sizeof(this->data) - 2)')]),
 dict(name='benign-r1-C09-stray-mask', prop='C09', expect='flag-residue', patch='selftest/fixes/benign-r1-C09.patch',
      edits=[('src/bls12_381/curve.cpp', 'bool stray_flags = ((this->data[0] & ~(encoding_flags_compressed | encoding_flags_infinity)) != 0);',
              'bool stray_flags = ((this->data[0] & ~(encoding_flags_compressed | encoding_flags_infinity | 0x20)) != 0);')]),
 dict(name='benign-r1-C06-sign-flip', prop='C06', expect='digits|', patch='selftest/fixes/benign-r1-C06.patch',
      edits=[('src/bls12_381/curve_fast_multiply.cpp', 'if (digit_neg != c0_neg)', 'if (digit_neg == c0_neg)')]),
 dict(name='benign-r1-C06-index-flip', prop='C06', expect='digits|', patch='selftest/fixes/benign-r1-C06.patch',
      edits=[('src/bls12_381/curve_fast_multiply.cpp', 'const G1& entry = wt.table[(digit_neg ? -digit : digit) >> 1];', 'const G1& entry = wt.table[(digit_neg ? digit : -digit) >> 1];')]),
 dict(name='benign-r1-C18-fq6-tables-swapped', prop='C04', expect='VIOLATION property=C04', patch='selftest/fixes/benign-r1-C18.patch',
      edits=[('src/bls12_381/fq6.cpp', 'this->c1.multiply(this->c1, coeff_c1);', 'this->c1.multiply(this->c1, coeff_c2);'),
             ('src/bls12_381/fq6.cpp', 'this->c2.multiply(this->c2, coeff_c2);', 'this->c2.multiply(this->c2, coeff_c1);')]),
]

# ---- round 11 seeds
MUTANTS += [
 dict(name='seed-C02-negate-in-place-zero', prop='C02', patch='seeded/C02-negate-in-place-zero-test-after-write/patch.diff', expect='VIOLATION property=C02'),
 dict(name='seed-C03-portable-redc-zero-round', prop='C03', patch='seeded/C03-portable-redc-zero-round-skips-carry/patch.diff', expect='differs from T + U*p'),
 dict(name='c03-benign-redc-zero-round-carry-kept', prop='C03', benign='noverdict', expect='', patch='selftest/fixes/benign-c03-redc-zero-round-carry-kept.patch'),
 dict(name='seed-C06-g1-short-scalar-endomorphism', prop='C06', patch='seeded/C06-g1-short-scalar-through-endomorphism/patch.diff', expect='R-DISPATCH'),
 dict(name='seed-C09-identity-wrong-form', prop='C09', patch='seeded/C09-decode-identity-accepted-in-wrong-form/patch.diff', expect='VIOLATION property=C09'),
 dict(name='seed-C11-resamplekey-hexp-by-position', prop='C11', patch='seeded/C11-resamplekey-hexp-by-position/patch.diff', expect='VIOLATION property=C11'),
 dict(name='seed-C13-sign-early-stop', prop='C13', patch='seeded/C13-sign-early-stop-counter/patch.diff', expect='fill loop can end before'),
 dict(name='seed-C14-adjust-skip-equal-idx', prop='C14', patch='seeded/C14-adjust-nondelegable-skips-equal-idx-copy/patch.diff', expect='VIOLATION property=C14'),
 dict(name='seed-C15-params-bound-before-hsig', prop='C15', novd=True, patch='seeded/C15-params-unmarshal-bound-before-hsig/patch.diff', expect=''),
 dict(name='seed-C17-wordwise-big-endian', prop='C17', patch='seeded/C17-wordwise-big-endian-overlay/patch.diff', expect='VIOLATION property=C17'),
 dict(name='seed-C18-gt-exp-pointer-table-alias', prop='C18', patch='seeded/C18-exponentiate-gt-pointer-table-aliases-output/patch.diff', expect='VIOLATION property=C18'),
 # the signer's fill loop may stop when the attribute list is exhausted
 dict(name='c13-benign-fill-loop-stops-at-list-end', prop='C13', benign=True, expect='',
      edits=[('src/wkdibe/api.cpp', 'for (int i = 0; i != sk.l; i++) {\n                while (k != attrs->length && attrs->attrs[k].idx < sk.b[i].idx) {',
              'for (int i = 0; i != sk.l && k != attrs->length; i++) {\n                while (k != attrs->length && attrs->attrs[k].idx < sk.b[i].idx) {')]),
 dict(name='c13-fill-loop-stops-one-early', prop='C13', expect='fill loop can end before',
      edits=[('src/wkdibe/api.cpp', 'for (int i = 0; i != sk.l; i++) {\n                while (k != attrs->length && attrs->attrs[k].idx < sk.b[i].idx) {',
              'for (int i = 0; i + 1 < sk.l; i++) {\n                while (k != attrs->length && attrs->attrs[k].idx < sk.b[i].idx) {')]),
]

# ---- benign-refactor round 2 (C02 C03 C04 C07 C10 C13 C16 C17 C19 C20) and defective variants of the refactored forms
MUTANTS += [
 dict(name='benign-r2-C02', prop='C02', benign=True, expect='', patch='selftest/fixes/benign-r2-C02.patch'),
 dict(name='benign-r2-C02-on-C03', prop='C03', benign=True, expect='', patch='selftest/fixes/benign-r2-C02.patch'),
 dict(name='benign-r2-C02-on-C04', prop='C04', benign=True, expect='', patch='selftest/fixes/benign-r2-C02.patch'),
 dict(name='benign-r2-C02-on-C01', prop='C01', benign=True, expect='', patch='selftest/fixes/benign-r2-C02.patch'),
 dict(name='benign-r2-C03', prop='C03', benign=True, expect='', patch='selftest/fixes/benign-r2-C03.patch'),
 dict(name='benign-r2-C03-on-C02', prop='C02', benign=True, expect='', patch='selftest/fixes/benign-r2-C03.patch'),
 dict(name='benign-r2-C04', prop='C04', benign=True, expect='', patch='selftest/fixes/benign-r2-C04.patch'),
 dict(name='benign-r2-C04-on-C18', prop='C18', benign=True, expect='', patch='selftest/fixes/benign-r2-C04.patch'),
 dict(name='benign-r2-C07', prop='C07', benign=True, expect='', patch='selftest/fixes/benign-r2-C07.patch'),
 dict(name='benign-r2-C07-on-C10', prop='C10', benign=True, expect='', patch='selftest/fixes/benign-r2-C07.patch'),
 dict(name='benign-r2-C07-on-C06', prop='C06', benign=True, expect='', patch='selftest/fixes/benign-r2-C07.patch'),
 dict(name='benign-r2-C10', prop='C10', benign=True, expect='', patch='selftest/fixes/benign-r2-C10.patch'),
 dict(name='benign-r2-C10-on-C02', prop='C02', benign=True, expect='', patch='selftest/fixes/benign-r2-C10.patch'),
 dict(name='benign-r2-C13', prop='C13', benign=True, expect='', patch='selftest/fixes/benign-r2-C13.patch'),
 dict(name='benign-r2-C13-on-C14', prop='C14', benign=True, expect='', patch='selftest/fixes/benign-r2-C13.patch'),
 dict(name='benign-r2-C16', prop='C16', benign=True, expect='', patch='selftest/fixes/benign-r2-C16.patch'),
 dict(name='benign-r2-C17', prop='C17', benign=True, expect='', patch='selftest/fixes/benign-r2-C17.patch'),
 dict(name='benign-r2-C17-on-C15', prop='C15', benign=True, expect='', patch='selftest/fixes/benign-r2-C17.patch'),
 dict(name='benign-r2-C19', prop='C19', benign=True, expect='', patch='selftest/fixes/benign-r2-C19.patch'),
 dict(name='benign-r2-C20', prop='C20', benign=True, expect='', patch='selftest/fixes/benign-r2-C20.patch'),
 dict(name='benign-r2-C20-on-C01', prop='C01', benign=True, expect='', patch='selftest/fixes/benign-r2-C20.patch'),
 dict(name='benign-r2-C20-on-C08', prop='C08', benign=True, expect='', patch='selftest/fixes/benign-r2-C20.patch'),
 dict(name='benign-r2-C20-helper-ignores-g2', prop='C01', expect='R-GUARD/G1', patch='selftest/fixes/benign-r2-C20.patch',
      edits=[('src/bls12_381/pairing.cpp', 'return !pair.g2->is_zero();', 'return true;')]),
 dict(name='benign-r2-C20-helper-ignores-g2-c08', prop='C08', expect='VIOLATION property=C08', patch='selftest/fixes/benign-r2-C20.patch',
      edits=[('src/bls12_381/pairing.cpp', 'return !pair.g2->is_zero();', 'return true;')]),
 dict(name='benign-r2-C02-helper-and', prop='C02', expect='R-CANON', patch='selftest/fixes/benign-r2-C02.patch',
      edits=[('include/core/fp.hpp', 'if (overflowed || at_least_p) {', 'if (overflowed && at_least_p) {')]),
 dict(name='benign-r2-C02-helper-gt', prop='C02', expect='VIOLATION property=C02', patch='selftest/fixes/benign-r2-C02.patch',
      edits=[('include/core/fp.hpp', 'const bool at_least_p = (BigInt<bits>::compare(this->val, p) >= 0);', 'const bool at_least_p = (BigInt<bits>::compare(this->val, p) > 0);')]),
 dict(name='benign-r2-C13-helper-wrong-id', prop='C13', expect='R-SCHEME', patch='selftest/fixes/benign-r2-C13.patch',
      edits=[('src/wkdibe/api.cpp', 'temp.multiply(slot.hexp, attr.id);', 'temp.multiply(slot.hexp, attrs.attrs[0].id);')]),
 dict(name='benign-r2-C13-helper-no-kpp', prop='C13', expect='VIOLATION property=C13', patch='selftest/fixes/benign-r2-C13.patch',
      edits=[('src/wkdibe/api.cpp', 'signature.a0.add(signature.a0, temp);\n                k++;', 'signature.a0.add(signature.a0, temp);')]),
 dict(name='benign-r2-C16-helper-short-hash', prop='C16', expect='VIOLATION property=C16', patch='selftest/fixes/benign-r2-C16.patch',
      edits=[('src/lqibe/api.cpp', 'hash_fill(symmetric, symmetric_length, &buffer, sizeof(buffer));', 'hash_fill(symmetric, symmetric_length, &buffer, sizeof(buffer) - 1);')]),
 dict(name='benign-r2-C16-helper-pairing-unwritten', prop='C16', expect='VIOLATION property=C16', patch='selftest/fixes/benign-r2-C16.patch',
      edits=[('src/lqibe/api.cpp', 'shared.write_big_endian(buffer.pairing);', '/* pairing bytes left as they are */')]),
 dict(name='benign-r2-C17-store-skips-byte0', prop='C17', expect='VIOLATION property=C17', patch='selftest/fixes/benign-r2-C17.patch',
      edits=[('src/wkdibe/marshal.cpp', 'for (int i = 3; i >= 0; i--) {', 'for (int i = 3; i > 0; i--) {')]),
 dict(name='benign-r2-C17-load-shift-4', prop='C15', expect='VIOLATION property=C15', patch='selftest/fixes/benign-r2-C17.patch',
      edits=[('src/wkdibe/marshal.cpp', 'value = (value << 8) | (uint32_t) src[i];', 'value = (value << 4) | (uint32_t) src[i];')]),
 dict(name='benign-r2-C17-load-five-bytes', prop='C17', expect='VIOLATION property=C17', patch='selftest/fixes/benign-r2-C17.patch',
      edits=[('src/wkdibe/marshal.cpp', 'for (int i = 0; i != 4; i++) {\n            value = (value << 8)', 'for (int i = 0; i != 5; i++) {\n            value = (value << 8)')]),
 dict(name='benign-r2-C07-reduce-only-equal', prop='C07', expect='PowersOfX::decompose', patch='selftest/fixes/benign-r2-C07.patch',
      edits=[('src/bls12_381/decomposition.cpp', 'if (BigInt<256>::compare(y, Fr::p_value) != -1) {\n            reduced.subtract', 'if (BigInt<256>::compare(y, Fr::p_value) == 0) {\n            reduced.subtract')]),
 dict(name='benign-r2-C07-recombine-wrong-power', prop='C07', expect='VIOLATION property=C07', patch='selftest/fixes/benign-r2-C07.patch',
      edits=[('src/bls12_381/decomposition.cpp', 't1.multiply(c[1], bls_x);', 't1.multiply(c[0], bls_x);')]),
 dict(name='benign-r2-C10-mask-ff', prop='C10', expect='VIOLATION property=C10', patch='selftest/fixes/benign-r2-C10.patch',
      edits=[('src/bls12_381/fr.cpp', 'top_byte &= 0x7F;', 'top_byte &= 0xFF;')]),
]

MUTANTS += [
 dict(name='benign-r2-C13-extern-helper', prop='C13', benign=True, expect='', patch='selftest/fixes/benign-r2-C13-extern.patch'),
 dict(name='benign-r2-C13-extern-helper-on-C14', prop='C14', benign=True, expect='', patch='selftest/fixes/benign-r2-C13-extern.patch'),
 dict(name='benign-r2-C13-extern-helper-on-C20', prop='C20', benign=True, expect='', patch='selftest/fixes/benign-r2-C13-extern.patch'),
 dict(name='benign-r2-C13-extern-helper-wrong-id', prop='C13', expect='R-SCHEME', patch='selftest/fixes/benign-r2-C13-extern.patch',
      edits=[('src/wkdibe/api.cpp', 'temp.multiply(slot.hexp, attr.id);', 'temp.multiply(slot.hexp, attrs.attrs[0].id);')]),
]

# ---- round 12 seeds
MUTANTS += [
 dict(name='seed-C01-sparse-multiply-lazy-add', prop='C01', patch='seeded/C01-sparse-multiply-lazy-add-lost-carry/patch.diff', expect='VIOLATION property=C01'),
 dict(name='seed-C01-sparse-multiply-lazy-add-on-C04', prop='C04', patch='seeded/C01-sparse-multiply-lazy-add-lost-carry/patch.diff', expect='VIOLATION property=C04'),
 dict(name='seed-C04-fq12-multiply-scratch-in-output', prop='C04', patch='seeded/C04-fq12-multiply-scratch-in-output/patch.diff', expect='VIOLATION property=C04'),
 dict(name='seed-C05-projective-equal-fastpath', prop='C05', patch='seeded/C05-projective-equal-normalized-fastpath/patch.diff', expect='R-GUARD/G8'),
 dict(name='seed-C07-gt-exp-pointer-table', prop='C07', patch='seeded/C07-gt-exp-base-used-through-pointer-table/patch.diff', expect='R-POLY/exp'),
 dict(name='seed-C08-swap-identity-pairs', prop='C08', patch='seeded/C08-miller-loop-swap-identity-pairs-to-tail/patch.diff', expect='VIOLATION property=C08'),
 dict(name='seed-C10-generator-flattened', prop='C10', patch='seeded/C10-generator-sampler-flattened-no-identity-retry/patch.diff', expect='reject|nonidentity'),
 dict(name='seed-C12-exit-test-after-consume', prop='C12', patch='seeded/C12-nondelegable-qualifykey-exit-test-after-consume/patch.diff', expect='VIOLATION property=C12'),
 dict(name='seed-C16-keygen-short-ladder', prop='C16', patch='seeded/C16-keygen-short-ladder-after-one-subtraction/patch.diff', expect='roles|keygen'),
 dict(name='seed-C19-set-length-sibling', prop='C19', patch='seeded/C19-secretkey-set-length-through-sibling-wrapper/patch.diff', expect='VIOLATION property=C19'),
 dict(name='seed-C20-verify-generator-cache', prop='C20', patch='seeded/C20-verify-generator-cache-by-params-address/patch.diff', expect='VIOLATION property=C20'),
]

# ---- benign-refactor round 3 (loop forms, condition restructuring, named locals; no helper extraction) and defective variants
MUTANTS += [
 dict(name='benign-r3-C01', prop='C01', benign=True, expect='', patch='selftest/fixes/benign-r3-C01.patch'),
 dict(name='benign-r3-C01-on-C08', prop='C08', benign=True, expect='', patch='selftest/fixes/benign-r3-C01.patch'),
 dict(name='benign-r3-C05', prop='C05', benign=True, expect='', patch='selftest/fixes/benign-r3-C05.patch'),
 dict(name='benign-r3-C05-on-C18', prop='C18', benign=True, expect='', patch='selftest/fixes/benign-r3-C05.patch'),
 dict(name='benign-r3-C06', prop='C06', benign=True, expect='', patch='selftest/fixes/benign-r3-C06.patch'),
 dict(name='benign-r3-C06-on-C17', prop='C17', benign=True, expect='', patch='selftest/fixes/benign-r3-C06.patch'),
 dict(name='benign-r3-C08', prop='C08', benign=True, expect='', patch='selftest/fixes/benign-r3-C08.patch'),
 dict(name='benign-r3-C08-on-C01', prop='C01', benign=True, expect='', patch='selftest/fixes/benign-r3-C08.patch'),
 dict(name='benign-r3-C09', prop='C09', benign=True, expect='', patch='selftest/fixes/benign-r3-C09.patch'),
 dict(name='benign-r3-C09-on-C10', prop='C10', benign=True, expect='', patch='selftest/fixes/benign-r3-C09.patch'),
 dict(name='benign-r3-C11', prop='C11', benign=True, expect='', patch='selftest/fixes/benign-r3-C11.patch'),
 dict(name='benign-r3-C11-on-C12', prop='C12', benign=True, expect='', patch='selftest/fixes/benign-r3-C11.patch'),
 dict(name='benign-r3-C12', prop='C12', benign=True, expect='', patch='selftest/fixes/benign-r3-C12.patch'),
 dict(name='benign-r3-C12-on-C11', prop='C11', benign=True, expect='', patch='selftest/fixes/benign-r3-C12.patch'),
 dict(name='benign-r3-C14', prop='C14', benign=True, expect='', patch='selftest/fixes/benign-r3-C14.patch'),
 dict(name='benign-r3-C14-on-C11', prop='C11', benign=True, expect='', patch='selftest/fixes/benign-r3-C14.patch'),
 dict(name='benign-r3-C15', prop='C15', benign=True, expect='', patch='selftest/fixes/benign-r3-C15.patch'),
 dict(name='benign-r3-C15-on-C17', prop='C17', benign=True, expect='', patch='selftest/fixes/benign-r3-C15.patch'),
 dict(name='benign-r3-C18', prop='C18', benign=True, expect='', patch='selftest/fixes/benign-r3-C18.patch'),
 dict(name='benign-r3-C18-on-C04', prop='C04', benign=True, expect='', patch='selftest/fixes/benign-r3-C18.patch'),
 dict(name='benign-r3-C01-guard-and', prop='C01', expect='R-GUARD/G1', patch='selftest/fixes/benign-r3-C01.patch',
      edits=[('src/bls12_381/pairing.cpp', '''                if (pair.g1->is_zero() || pair.g2->is_zero()) {
                    continue;
                }
                miller_doubling_step(coeffs, pair.r);''', '''                if (pair.g1->is_zero() && pair.g2->is_zero()) {
                    continue;
                }
                miller_doubling_step(coeffs, pair.r);''')]),
 dict(name='benign-r3-C01-loop-stops-at-1', prop='C01', expect='ccl|', patch='selftest/fixes/benign-r3-C01.patch',
      edits=[('src/bls12_381/pairing.cpp', 'while (i != 0) {', 'while (i != 1) {')]),
 dict(name='benign-r3-C05-equal-or', prop='C05', expect='VIOLATION property=C05', patch='selftest/fixes/benign-r3-C05.patch',
      edits=[('include/bls12_381/curve.hpp', 'return a_zero && b_zero;', 'return a_zero || b_zero;')]),
 dict(name='benign-r3-C09-padding-skips-byte-1', prop='C09', expect='padding', patch='selftest/fixes/benign-r3-C09.patch',
      edits=[('src/bls12_381/curve.cpp', 'while (i != 0) {', 'while (i != 1) {')]),
 dict(name='benign-r3-C11-x-never-advanced', prop='C11', expect='VIOLATION property=C11', patch='selftest/fixes/benign-r3-C11.patch',
      edits=[('src/wkdibe/api.cpp', '''            if (in_parent) {
                x++;
            }''', '''            if (in_parent && k != attrs.length) {
                x++;
            }''')]),
 dict(name='benign-r3-C12-k-advanced-when-unlisted', prop='C12', expect='VIOLATION property=C12', patch='selftest/fixes/benign-r3-C12.patch',
      edits=[('src/wkdibe/api.cpp', '''            if (listed) {
                k++;
            }''', '''            if (!listed) {
                k++;
            }''')]),
 dict(name='benign-r3-C14-wrong-cursor-in-gt-arm', prop='C14', expect='VIOLATION property=C14', patch='selftest/fixes/benign-r3-C14.patch',
      edits=[('src/wkdibe/api.cpp', '''                    precomputed.prodexp.add(precomputed.prodexp, temp);
                    j++;
                } else {''', '''                    precomputed.prodexp.add(precomputed.prodexp, temp);
                    i++;
                } else {''')]),
 dict(name='benign-r3-C14-missing-continue', prop='C14', expect='VIOLATION property=C14', patch='selftest/fixes/benign-r3-C14.patch',
      edits=[('src/wkdibe/api.cpp', '''                    i++;
                }
                continue;
            }''', '''                    i++;
                }
            }''')]),
 dict(name='benign-r3-C15-hsig-overlaps-h0', prop='C15', expect='VIOLATION property=C15', patch='selftest/fixes/benign-r3-C15.patch',
      edits=[('src/wkdibe/marshal.cpp', '''            h->encode(hsigaffine);

            h++;''', '''            h->encode(hsigaffine);''')]),
 dict(name='benign-r3-C15-last-slot-not-read', prop='C15', expect='VIOLATION property=C15', patch='selftest/fixes/benign-r3-C15.patch',
      edits=[('src/wkdibe/marshal.cpp', '''        int i = 0;
        while (i != this->l) {
            G1Affine haffine;
            if (!h[i].decode(haffine, checked)) {''', '''        int i = 1;
        while (i != this->l) {
            G1Affine haffine;
            if (!h[i].decode(haffine, checked)) {''')]),
 dict(name='benign-r3-C06-negative-digit-plain-index', prop='C06', expect='VIOLATION property=C06', patch='selftest/fixes/benign-r3-C06.patch',
      edits=[('include/bls12_381/wnaf.hpp', 'tmp.negate(table.table[(-digit) >> 1]);', 'tmp.negate(table.table[digit >> 1]);')]),
]

MUTANTS += [
 dict(name='c05-equal-identity-vs-finite-true', prop='C05', expect='G8|equal-identity',
      edits=[('include/bls12_381/curve.hpp', '''            if (b.is_zero()) {
                return false;
            }

            /*
             * The affine coordinates (x, y) correspond to the projective''', '''            if (b.is_zero()) {
                return true;
            }

            /*
             * The affine coordinates (x, y) correspond to the projective''')]),
 dict(name='c05-equal-identity-first-arm-negated', prop='C05', expect='G8|equal-identity',
      edits=[('include/bls12_381/curve.hpp', '''            if (a.is_zero()) {
                return b.is_zero();
            }

            if (b.is_zero()) {''', '''            if (a.is_zero()) {
                return !b.is_zero();
            }

            if (b.is_zero()) {''')]),
]

# ---- benign-refactor round 4 (C02 C03 C04 C07 C10 C13 C16 C17 C19 C20; no helper extraction) and defective variants
MUTANTS += [
 dict(name='benign-r4-C02', prop='C02', benign=True, expect='', patch='selftest/fixes/benign-r4-C02.patch'),
 dict(name='benign-r4-C02-on-C03', prop='C03', benign=True, expect='', patch='selftest/fixes/benign-r4-C02.patch'),
 dict(name='benign-r4-C02-on-C10', prop='C10', benign=True, expect='', patch='selftest/fixes/benign-r4-C02.patch'),
 dict(name='benign-r4-C03', prop='C03', benign=True, expect='', patch='selftest/fixes/benign-r4-C03.patch'),
 dict(name='benign-r4-C03-on-C02', prop='C02', benign=True, expect='', patch='selftest/fixes/benign-r4-C03.patch'),
 dict(name='benign-r4-C04', prop='C04', benign=True, expect='', patch='selftest/fixes/benign-r4-C04.patch'),
 dict(name='benign-r4-C04-on-C18', prop='C18', benign=True, expect='', patch='selftest/fixes/benign-r4-C04.patch'),
 dict(name='benign-r4-C07', prop='C07', benign=True, expect='', patch='selftest/fixes/benign-r4-C07.patch'),
 dict(name='benign-r4-C07-on-C10', prop='C10', benign=True, expect='', patch='selftest/fixes/benign-r4-C07.patch'),
 dict(name='benign-r4-C10', prop='C10', benign=True, expect='', patch='selftest/fixes/benign-r4-C10.patch'),
 dict(name='benign-r4-C10-on-C02', prop='C02', benign=True, expect='', patch='selftest/fixes/benign-r4-C10.patch'),
 dict(name='benign-r4-C10-on-C09', prop='C09', benign=True, expect='', patch='selftest/fixes/benign-r4-C10.patch'),
 dict(name='benign-r4-C13', prop='C13', benign=True, expect='', patch='selftest/fixes/benign-r4-C13.patch'),
 dict(name='benign-r4-C13-on-C14', prop='C14', benign=True, expect='', patch='selftest/fixes/benign-r4-C13.patch'),
 dict(name='benign-r4-C16', prop='C16', benign=True, expect='', patch='selftest/fixes/benign-r4-C16.patch'),
 dict(name='benign-r4-C16-on-C20', prop='C20', benign=True, expect='', patch='selftest/fixes/benign-r4-C16.patch'),
 dict(name='benign-r4-C17', prop='C17', benign=True, expect='', patch='selftest/fixes/benign-r4-C17.patch'),
 dict(name='benign-r4-C17-on-C15', prop='C15', benign=True, expect='', patch='selftest/fixes/benign-r4-C17.patch'),
 dict(name='benign-r4-C19', prop='C19', benign=True, expect='', patch='selftest/fixes/benign-r4-C19.patch'),
 dict(name='benign-r4-C19-on-C17', prop='C17', benign=True, expect='', patch='selftest/fixes/benign-r4-C19.patch'),
 dict(name='benign-r4-C20', prop='C20', benign=True, expect='', patch='selftest/fixes/benign-r4-C20.patch'),
 dict(name='benign-r4-C20-on-C01', prop='C01', benign=True, expect='', patch='selftest/fixes/benign-r4-C20.patch'),
 dict(name='benign-r4-C02-inverse-loop-and', prop='C02', expect='fp_inverse', patch='selftest/fixes/benign-r4-C02.patch',
      edits=[('include/core/fp_utils.hpp', 'while (!(u.is_one() || v.is_one())) {', 'while (!(u.is_one() && v.is_one())) {')]),
 dict(name='benign-r4-C02-reduce-gt', prop='C02', expect='R-CANON', patch='selftest/fixes/benign-r4-C02.patch',
      edits=[('include/core/fp.hpp', 'if (BigInt<bits>::compare(a, p) >= 0) {\n                this->val.subtract(a, p);', 'if (BigInt<bits>::compare(a, p) > 0) {\n                this->val.subtract(a, p);')]),
 dict(name='benign-r4-C03-carry-arm-strict', prop='C03', expect='VIOLATION property=C03', patch='selftest/fixes/benign-r4-C03.patch',
      edits=[('include/core/bigint.hpp', 'carry = (sum <= b.dwords[i]) ? 1 : 0;', 'carry = (sum < b.dwords[i]) ? 1 : 0;')]),
 dict(name='benign-r4-C04-sqrt-arms-not-swapped', prop='C04', expect='sqrt|', patch='selftest/fixes/benign-r4-C04.patch',
      edits=[('src/bls12_381/fq2.cpp', 'if (!alpha_is_minus_one) {', 'if (alpha_is_minus_one) {')]),
 dict(name='benign-r4-C07-bit-zero-dropped', prop='C07', expect='R-POLY/exp', patch='selftest/fixes/benign-r4-C07.patch',
      edits=[('src/bls12_381/fq12_cyclotomic.cpp', 'while (i >= 0) {', 'while (i > 0) {')]),
 dict(name='benign-r4-C10-fq-random-accepts-modulus', prop='C10', expect='VIOLATION property=C10', patch='selftest/fixes/benign-r4-C10.patch',
      edits=[('src/bls12_381/fq.cpp', 'if (BigInt<fq_bits>::compare(this->val, fq_modulus) < 0) {\n                break;', 'if (BigInt<fq_bits>::compare(this->val, fq_modulus) <= 0) {\n                break;')]),
 dict(name='benign-r4-C13-skip-loop-passes-equal', prop='C13', expect='VIOLATION property=C13', patch='selftest/fixes/benign-r4-C13.patch',
      edits=[('src/wkdibe/api.cpp', 'if (attrs->attrs[k].idx >= sk.b[i].idx) {', 'if (attrs->attrs[k].idx > sk.b[i].idx) {')]),
 dict(name='benign-r4-C16-decrypt-encodes-own-point', prop='C16', expect='VIOLATION property=C16', patch='selftest/fixes/benign-r4-C16.patch',
      edits=[('src/lqibe/api.cpp', 'buffer.rp.encode(rp);', 'buffer.rp.encode(rp); buffer.q.encode(sk.sq);')]),
 dict(name='benign-r4-C19-marshal-arms-not-swapped', prop='C19', expect='VIOLATION property=C19', patch='selftest/fixes/benign-r4-C19.patch',
      edits=[('src/wkdibe/wkdibe.cpp', '''    const Params* obj = reinterpret_cast<const Params*>(params);
    if (!compressed) {
        obj->marshal<false>(buffer);
        return;''', '''    const Params* obj = reinterpret_cast<const Params*>(params);
    if (compressed) {
        obj->marshal<false>(buffer);
        return;''')]),
 dict(name='benign-r4-C20-exp-by-x-top-bit-dropped', prop='C01', expect='R-POLY/exp', patch='selftest/fixes/benign-r4-C20.patch',
      edits=[('src/bls12_381/pairing.cpp', 'unsigned int i = bls_x_highest_set_bit + 1;', 'unsigned int i = bls_x_highest_set_bit;')]),
]

# ---- round 13 seeds
MUTANTS += [
 dict(name='seed-C02-fq-sqrt-restrict-in-place', prop='C02', patch='seeded/C02-fq-sqrt-calls-restrict-exponentiation-in-place/patch.diff', expect='R-ALIAS'),
 dict(name='seed-C03-bmi2-redc-stale-flag', prop='C03', patch='seeded/C03-bmi2-redc-first-iteration-drops-flag-reset/patch.diff', expect='stale flag'),
 dict(name='seed-C06-wnaf-add-carry-for-wrap', prop='C06', patch='seeded/C06-wnaf-recoding-uses-add-carry-for-wrap/patch.diff', expect='VIOLATION property=C06'),
 dict(name='seed-C09-canonical-helper-stride', prop='C09', patch='seeded/C09-decode-canonical-helper-strides-by-field-size/patch.diff', expect='never compared with q'),
 dict(name='seed-C11-keygen-product-from-precompute', prop='C11', patch='seeded/C11-keygen-product-from-precompute-binds-hidden-id/patch.diff', expect='VIOLATION property=C11'),
 dict(name='seed-C13-message-exponent-top-bit', prop='C13', patch='seeded/C13-message-exponent-top-bit-dropped/patch.diff', expect='VIOLATION property=C13'),
 dict(name='seed-C14-adjust-sticky-negative-flag', prop='C14', patch='seeded/C14-adjust-precomputed-sticky-negative-flag/patch.diff', expect='VIOLATION property=C14'),
 dict(name='seed-C15-lqibe-params-shared-inversion', prop='C15', patch='seeded/C15-lqibe-params-marshal-shared-inversion/patch.diff', expect='VIOLATION property=C15'),
 dict(name='seed-C17-unmarshalled-length-wraparound', prop='C17', patch='seeded/C17-unmarshalled-length-size_t-wraparound/patch.diff', expect='VIOLATION property=C17'),
 dict(name='seed-C18-projective-add-early-z-write', prop='C18', patch='seeded/C18-projective-add-early-z-write/patch.diff', expect='VIOLATION property=C18'),
 # a canonicality helper with the right stride is accepted
 dict(name='c09-benign-canonical-helper-stride-48', prop='C09', benign=True, expect='', patch='seeded/C09-decode-canonical-helper-strides-by-field-size/patch.diff',
      edits=[('src/bls12_381/curve.cpp', 'for (size_t i = 0; i != size; i += sizeof(BaseField)) {', 'for (size_t i = 0; i != size; i += sizeof(Fq)) {')]),
]

# ---- benign-refactor round 5 (larger combined refactors) and defective variants
MUTANTS += [
 dict(name='benign-r5-C01', prop='C01', benign=True, expect='', patch='selftest/fixes/benign-r5-C01.patch'),
 dict(name='benign-r5-C01-on-C08', prop='C08', benign=True, expect='', patch='selftest/fixes/benign-r5-C01.patch'),
 dict(name='benign-r5-C02', prop='C02', benign='noverdict', expect='', patch='selftest/fixes/benign-r5-C02.patch'),
 dict(name='benign-r5-C05', prop='C05', benign=True, expect='', patch='selftest/fixes/benign-r5-C05.patch'),
 dict(name='benign-r5-C05-on-C18', prop='C18', benign=True, expect='', patch='selftest/fixes/benign-r5-C05.patch'),
 dict(name='benign-r5-C06', prop='C06', benign=True, expect='', patch='selftest/fixes/benign-r5-C06.patch'),
 dict(name='benign-r5-C06-on-C17', prop='C17', benign=True, expect='', patch='selftest/fixes/benign-r5-C06.patch'),
 dict(name='benign-r5-C09', prop='C09', benign=True, expect='', patch='selftest/fixes/benign-r5-C09.patch'),
 dict(name='benign-r5-C09-on-C10', prop='C10', benign=True, expect='', patch='selftest/fixes/benign-r5-C09.patch'),
 dict(name='benign-r5-C11', prop='C11', benign=True, expect='', patch='selftest/fixes/benign-r5-C11.patch'),
 dict(name='benign-r5-C11-on-C12', prop='C12', benign=True, expect='', patch='selftest/fixes/benign-r5-C11.patch'),
 dict(name='benign-r5-C11-on-C14', prop='C14', benign=True, expect='', patch='selftest/fixes/benign-r5-C11.patch'),
 dict(name='benign-r5-C13', prop='C13', benign=True, expect='', patch='selftest/fixes/benign-r5-C13.patch'),
 dict(name='benign-r5-C13-on-C14', prop='C14', benign=True, expect='', patch='selftest/fixes/benign-r5-C13.patch'),
 dict(name='benign-r5-C14', prop='C14', benign=True, expect='', patch='selftest/fixes/benign-r5-C14.patch'),
 dict(name='benign-r5-C14-on-C11', prop='C11', benign=True, expect='', patch='selftest/fixes/benign-r5-C14.patch'),
 dict(name='benign-r5-C15', prop='C15', benign='noverdict', expect='', patch='selftest/fixes/benign-r5-C15.patch'),
 dict(name='benign-r5-C17', prop='C17', benign=True, expect='', patch='selftest/fixes/benign-r5-C17.patch'),
 dict(name='benign-r5-C17-on-C09', prop='C09', benign=True, expect='', patch='selftest/fixes/benign-r5-C17.patch'),
 dict(name='benign-r5-C02-on-C04', prop='C04', benign=True, expect='', patch='selftest/fixes/benign-r5-C02.patch'),
 dict(name='benign-r5-C15-on-C17', prop='C17', benign='noverdict', expect='', patch='selftest/fixes/benign-r5-C15.patch'),
 dict(name='benign-r5-C01-folded-loop-stops-at-1', prop='C01', expect='ccl|', patch='selftest/fixes/benign-r5-C01.patch',
      edits=[('src/bls12_381/pairing.cpp', 'if (i == 0) {\n                break;', 'if (i == 1) {\n                break;')]),
 dict(name='benign-r5-C01-helper-guard-and', prop='C01', expect='R-GUARD/G1', patch='selftest/fixes/benign-r5-C01.patch',
      edits=[('src/bls12_381/pairing.cpp', 'return pair.g1->is_zero() || pair.g2->is_zero();', 'return pair.g1->is_zero() && pair.g2->is_zero();')]),
 dict(name='benign-r5-C06-helper-negation-inverted', prop='C06', expect='digits|', patch='selftest/fixes/benign-r5-C06.patch',
      edits=[('src/bls12_381/curve_fast_multiply.cpp', 'g1_add_signed(*this, entry, digit_neg != c0_neg);', 'g1_add_signed(*this, entry, digit_neg == c0_neg);')]),
 dict(name='benign-r5-C09-padding-from-byte-2', prop='C09', expect='padding', patch='selftest/fixes/benign-r5-C09.patch',
      edits=[('src/bls12_381/curve.cpp', '|| !is_zero_padding(&this->data[1], end))) {', '|| !is_zero_padding(&this->data[2], end))) {')]),
 dict(name='benign-r5-C13-skip-helper-passes-equal', prop='C13', expect='VIOLATION property=C13', patch='selftest/fixes/benign-r5-C13.patch',
      edits=[('src/wkdibe/api.cpp', 'while (k != list.length && list.attrs[k].idx < idx) {', 'while (k != list.length && list.attrs[k].idx <= idx) {')]),
 dict(name='benign-r5-C14-drain-restarts', prop='C14', expect='VIOLATION property=C14', patch='selftest/fixes/benign-r5-C14.patch',
      edits=[('src/wkdibe/api.cpp', 'for (const Attribute* removed = from.attrs + i; removed != from_end; removed++) {', 'for (const Attribute* removed = from.attrs; removed != from_end; removed++) {')]),
 dict(name='benign-r5-C11-helper-wrong-base', prop='C11', expect='VIOLATION property=C11', patch='selftest/fixes/benign-r5-C11.patch',
      edits=[('src/wkdibe/api.cpp', 'term.multiply(base, id);', 'term.multiply(acc, id);')]),
]

MUTANTS += [
 dict(name='c13-skip-loop-passes-equal', prop='C13', expect='strictly below',
      edits=[('src/wkdibe/api.cpp', 'while (k != attrs->length && attrs->attrs[k].idx < sk.b[i].idx) {', 'while (k != attrs->length && attrs->attrs[k].idx <= sk.b[i].idx) {')]),
]

# ---- round 14 seeds
MUTANTS += [
 dict(name='seed-C01-pow2-scaling-truncated-quotient', prop='C01', patch='seeded/C01-line-step-pow2-scaling-truncated-quotient/patch.diff', expect='VIOLATION property=C01'),
 dict(name='seed-C04-fq2-frobenius-raw-negation', prop='C04', patch='seeded/C04-fq2-frobenius-raw-negation-of-zero/patch.diff', expect='VIOLATION property=C04'),
 dict(name='seed-C05-add-normalized-fastpath', prop='C05', patch='seeded/C05-add-normalized-fastpath-doubles-opposite-points/patch.diff', expect='R-GUARD/G4'),
 dict(name='seed-C07-powers-random-horner', prop='C07', patch='seeded/C07-powers-random-horner-accumulates-over-retries/patch.diff', expect='VIOLATION property=C07'),
 dict(name='seed-C08-skip-identity-swap-with-last', prop='C08', patch='seeded/C08-skip-identity-pairs-swap-with-last/patch.diff', expect='VIOLATION property=C08'),
 dict(name='seed-C10-random-accepts-modulus', prop='C10', patch='seeded/C10-random-accepts-the-modulus/patch.diff', expect='VIOLATION property=C10'),
 dict(name='seed-C12-precompute-drops-flagged', prop='C12', patch='seeded/C12-precompute-shares-keygen-accumulator-drops-flagged/patch.diff', expect='VIOLATION property=C12'),
 dict(name='seed-C16-encrypt-shared-inversion', prop='C16', patch='seeded/C16-encrypt-shared-inversion-sp-infinity/patch.diff', expect='VIOLATION property=C16'),
 dict(name='seed-C19-core-h-literal-alignment', prop='C19', patch='seeded/C19-core-h-words-with-literal-alignment/patch.diff', expect='VIOLATION property=C19'),
 dict(name='seed-C20-g2prepared-mutable-cursor', prop='C20', patch='seeded/C20-g2prepared-owns-mutable-cursor/patch.diff', expect='mutable'),
]

# ---- benign-refactor round 6 (C03 C04 C07 C08 C10 C12 C16 C18 C19 C20; larger combined refactors) and defective variants
MUTANTS += [
 dict(name='benign-r6-C03', prop='C03', benign=True, expect='', patch='selftest/fixes/benign-r6-C03.patch'),
 dict(name='benign-r6-C03-on-C02', prop='C02', benign=True, expect='', patch='selftest/fixes/benign-r6-C03.patch'),
 dict(name='benign-r6-C04', prop='C04', benign=True, expect='', patch='selftest/fixes/benign-r6-C04.patch'),
 dict(name='benign-r6-C04-on-C18', prop='C18', benign=True, expect='', patch='selftest/fixes/benign-r6-C04.patch'),
 dict(name='benign-r6-C07', prop='C07', benign=True, expect='', patch='selftest/fixes/benign-r6-C07.patch'),
 dict(name='benign-r6-C07-on-C10', prop='C10', benign=True, expect='', patch='selftest/fixes/benign-r6-C07.patch'),
 dict(name='benign-r6-C08', prop='C08', benign=True, expect='', patch='selftest/fixes/benign-r6-C08.patch'),
 dict(name='benign-r6-C08-on-C01', prop='C01', benign=True, expect='', patch='selftest/fixes/benign-r6-C08.patch'),
 dict(name='benign-r6-C10', prop='C10', benign=True, expect='', patch='selftest/fixes/benign-r6-C10.patch'),
 dict(name='benign-r6-C10-on-C02', prop='C02', benign=True, expect='', patch='selftest/fixes/benign-r6-C10.patch'),
 dict(name='benign-r6-C10-on-C09', prop='C09', benign=True, expect='', patch='selftest/fixes/benign-r6-C10.patch'),
 dict(name='benign-r6-C12', prop='C12', benign='noverdict', expect='', patch='selftest/fixes/benign-r6-C12.patch'),
 dict(name='benign-r6-C16', prop='C16', benign=True, expect='', patch='selftest/fixes/benign-r6-C16.patch'),
 dict(name='benign-r6-C16-on-C15', prop='C15', benign=True, expect='', patch='selftest/fixes/benign-r6-C16.patch'),
 dict(name='benign-r6-C16-on-C17', prop='C17', benign=True, expect='', patch='selftest/fixes/benign-r6-C16.patch'),
 dict(name='benign-r6-C18', prop='C18', benign=True, expect='', patch='selftest/fixes/benign-r6-C18.patch'),
 dict(name='benign-r6-C18-on-C05', prop='C05', benign=True, expect='', patch='selftest/fixes/benign-r6-C18.patch'),
 dict(name='benign-r6-C19', prop='C19', benign=True, expect='', patch='selftest/fixes/benign-r6-C19.patch'),
 dict(name='benign-r6-C19-on-C15', prop='C15', benign=True, expect='', patch='selftest/fixes/benign-r6-C19.patch'),
 dict(name='benign-r6-C20', prop='C20', benign=True, expect='', patch='selftest/fixes/benign-r6-C20.patch'),
 dict(name='benign-r6-C20-on-C01', prop='C01', benign=True, expect='', patch='selftest/fixes/benign-r6-C20.patch'),
 dict(name='benign-r6-C20-on-C08', prop='C08', benign=True, expect='', patch='selftest/fixes/benign-r6-C20.patch'),
 dict(name='benign-r6-C12-on-C11', prop='C11', benign='noverdict', expect='', patch='selftest/fixes/benign-r6-C12.patch'),
 dict(name='benign-r6-C12-on-C14', prop='C14', benign=True, expect='', patch='selftest/fixes/benign-r6-C12.patch'),
 dict(name='benign-r6-C20-prepared-helper-no-increment', prop='C08', expect='VIOLATION property=C08', patch='selftest/fixes/benign-r6-C20.patch',
      edits=[('src/bls12_381/pairing.cpp', 'const MillerTriple& line = g2.coeffs[coeff_idx++];', 'const MillerTriple& line = g2.coeffs[coeff_idx];')]),
 dict(name='benign-r6-C08-prepare-cursor-skips-one', prop='C08', expect='VIOLATION property=C08', patch='selftest/fixes/benign-r6-C08.patch',
      edits=[('src/bls12_381/pairing.cpp', 'MillerTriple* coeff = this->coeffs;', 'MillerTriple* coeff = this->coeffs + 1;')]),
 dict(name='benign-r6-C07-flag-condition-inverted', prop='C07', expect='VIOLATION property=C07', patch='selftest/fixes/benign-r6-C07.patch',
      edits=[('src/bls12_381/decomposition.cpp', '} while (!below_r);', '} while (below_r);')]),
 dict(name='benign-r6-C10-below-modulus-le', prop='C10', expect='VIOLATION property=C10', patch='selftest/fixes/benign-r6-C10.patch',
      edits=[('src/bls12_381/fq.cpp', 'return BigInt<fq_bits>::compare(v, fq_modulus) < 0;', 'return BigInt<fq_bits>::compare(v, fq_modulus) <= 0;')]),
 dict(name='benign-r6-C03-row-carry-dropped', prop='C03', expect='VIOLATION property=C03', patch='selftest/fixes/benign-r6-C03.patch',
      edits=[('include/core/bigint.hpp', 'dword_t new_word = factor * ((dword_t) *src) + carry;', 'dword_t new_word = factor * ((dword_t) *src);')]),
]

# ---- benign round 7: three small everyday edits per property (renames, counter types, != to <, named constants, early returns, ...)
MUTANTS += [
 dict(name='benign-r7-C02-1', prop='C02', benign=True, expect='', patch='selftest/fixes/benign-r7-C02-1.patch'),
 dict(name='benign-r7-C02-1-on-C03', prop='C03', benign=True, expect='', patch='selftest/fixes/benign-r7-C02-1.patch'),
 dict(name='benign-r7-C02-2', prop='C02', benign=True, expect='', patch='selftest/fixes/benign-r7-C02-2.patch'),
 dict(name='benign-r7-C02-2-on-C03', prop='C03', benign=True, expect='', patch='selftest/fixes/benign-r7-C02-2.patch'),
 dict(name='benign-r7-C02-3', prop='C02', benign=True, expect='', patch='selftest/fixes/benign-r7-C02-3.patch'),
 dict(name='benign-r7-C02-3-on-C03', prop='C03', benign=True, expect='', patch='selftest/fixes/benign-r7-C02-3.patch'),
 dict(name='benign-r7-C04-1', prop='C04', benign=True, expect='', patch='selftest/fixes/benign-r7-C04-1.patch'),
 dict(name='benign-r7-C04-1-on-C18', prop='C18', benign=True, expect='', patch='selftest/fixes/benign-r7-C04-1.patch'),
 dict(name='benign-r7-C04-2', prop='C04', benign=True, expect='', patch='selftest/fixes/benign-r7-C04-2.patch'),
 dict(name='benign-r7-C04-2-on-C18', prop='C18', benign=True, expect='', patch='selftest/fixes/benign-r7-C04-2.patch'),
 dict(name='benign-r7-C04-3', prop='C04', benign=True, expect='', patch='selftest/fixes/benign-r7-C04-3.patch'),
 dict(name='benign-r7-C04-3-on-C18', prop='C18', benign=True, expect='', patch='selftest/fixes/benign-r7-C04-3.patch'),
 dict(name='benign-r7-C06-1', prop='C06', benign=True, expect='', patch='selftest/fixes/benign-r7-C06-1.patch'),
 dict(name='benign-r7-C06-1-on-C17', prop='C17', benign=True, expect='', patch='selftest/fixes/benign-r7-C06-1.patch'),
 dict(name='benign-r7-C06-2', prop='C06', benign=True, expect='', patch='selftest/fixes/benign-r7-C06-2.patch'),
 dict(name='benign-r7-C06-2-on-C17', prop='C17', benign=True, expect='', patch='selftest/fixes/benign-r7-C06-2.patch'),
 dict(name='benign-r7-C06-3', prop='C06', benign=True, expect='', patch='selftest/fixes/benign-r7-C06-3.patch'),
 dict(name='benign-r7-C06-3-on-C17', prop='C17', benign=True, expect='', patch='selftest/fixes/benign-r7-C06-3.patch'),
 dict(name='benign-r7-C08-1', prop='C08', benign=True, expect='', patch='selftest/fixes/benign-r7-C08-1.patch'),
 dict(name='benign-r7-C08-1-on-C01', prop='C01', benign=True, expect='', patch='selftest/fixes/benign-r7-C08-1.patch'),
 dict(name='benign-r7-C08-2', prop='C08', benign=True, expect='', patch='selftest/fixes/benign-r7-C08-2.patch'),
 dict(name='benign-r7-C08-2-on-C01', prop='C01', benign=True, expect='', patch='selftest/fixes/benign-r7-C08-2.patch'),
 dict(name='benign-r7-C08-3', prop='C08', benign=True, expect='', patch='selftest/fixes/benign-r7-C08-3.patch'),
 dict(name='benign-r7-C08-3-on-C01', prop='C01', benign=True, expect='', patch='selftest/fixes/benign-r7-C08-3.patch'),
 dict(name='benign-r7-C10-1', prop='C10', benign=True, expect='', patch='selftest/fixes/benign-r7-C10-1.patch'),
 dict(name='benign-r7-C10-1-on-C02', prop='C02', benign=True, expect='', patch='selftest/fixes/benign-r7-C10-1.patch'),
 dict(name='benign-r7-C10-2', prop='C10', benign=True, expect='', patch='selftest/fixes/benign-r7-C10-2.patch'),
 dict(name='benign-r7-C10-2-on-C02', prop='C02', benign=True, expect='', patch='selftest/fixes/benign-r7-C10-2.patch'),
 dict(name='benign-r7-C10-3', prop='C10', benign=True, expect='', patch='selftest/fixes/benign-r7-C10-3.patch'),
 dict(name='benign-r7-C10-3-on-C02', prop='C02', benign=True, expect='', patch='selftest/fixes/benign-r7-C10-3.patch'),
 dict(name='benign-r7-C12-1', prop='C12', benign=True, expect='', patch='selftest/fixes/benign-r7-C12-1.patch'),
 dict(name='benign-r7-C12-1-on-C11', prop='C11', benign=True, expect='', patch='selftest/fixes/benign-r7-C12-1.patch'),
 dict(name='benign-r7-C12-2', prop='C12', benign=True, expect='', patch='selftest/fixes/benign-r7-C12-2.patch'),
 dict(name='benign-r7-C12-2-on-C11', prop='C11', benign=True, expect='', patch='selftest/fixes/benign-r7-C12-2.patch'),
 dict(name='benign-r7-C12-3', prop='C12', benign=True, expect='', patch='selftest/fixes/benign-r7-C12-3.patch'),
 dict(name='benign-r7-C12-3-on-C11', prop='C11', benign=True, expect='', patch='selftest/fixes/benign-r7-C12-3.patch'),
 dict(name='benign-r7-C14-1', prop='C14', benign=True, expect='', patch='selftest/fixes/benign-r7-C14-1.patch'),
 dict(name='benign-r7-C14-1-on-C13', prop='C13', benign=True, expect='', patch='selftest/fixes/benign-r7-C14-1.patch'),
 dict(name='benign-r7-C14-2', prop='C14', benign=True, expect='', patch='selftest/fixes/benign-r7-C14-2.patch'),
 dict(name='benign-r7-C14-2-on-C13', prop='C13', benign=True, expect='', patch='selftest/fixes/benign-r7-C14-2.patch'),
 dict(name='benign-r7-C14-3', prop='C14', benign=True, expect='', patch='selftest/fixes/benign-r7-C14-3.patch'),
 dict(name='benign-r7-C14-3-on-C13', prop='C13', benign=True, expect='', patch='selftest/fixes/benign-r7-C14-3.patch'),
 dict(name='benign-r7-C16-1', prop='C16', benign=True, expect='', patch='selftest/fixes/benign-r7-C16-1.patch'),
 dict(name='benign-r7-C16-1-on-C19', prop='C19', benign=True, expect='', patch='selftest/fixes/benign-r7-C16-1.patch'),
 dict(name='benign-r7-C16-2', prop='C16', benign=True, expect='', patch='selftest/fixes/benign-r7-C16-2.patch'),
 dict(name='benign-r7-C16-2-on-C19', prop='C19', benign=True, expect='', patch='selftest/fixes/benign-r7-C16-2.patch'),
 dict(name='benign-r7-C16-3', prop='C16', benign=True, expect='', patch='selftest/fixes/benign-r7-C16-3.patch'),
 dict(name='benign-r7-C16-3-on-C19', prop='C19', benign=True, expect='', patch='selftest/fixes/benign-r7-C16-3.patch'),
 dict(name='benign-r7-C18-1', prop='C18', benign=True, expect='', patch='selftest/fixes/benign-r7-C18-1.patch'),
 dict(name='benign-r7-C18-1-on-C05', prop='C05', benign=True, expect='', patch='selftest/fixes/benign-r7-C18-1.patch'),
 dict(name='benign-r7-C18-2', prop='C18', benign=True, expect='', patch='selftest/fixes/benign-r7-C18-2.patch'),
 dict(name='benign-r7-C18-2-on-C05', prop='C05', benign=True, expect='', patch='selftest/fixes/benign-r7-C18-2.patch'),
 dict(name='benign-r7-C18-3', prop='C18', benign=True, expect='', patch='selftest/fixes/benign-r7-C18-3.patch'),
 dict(name='benign-r7-C18-3-on-C05', prop='C05', benign=True, expect='', patch='selftest/fixes/benign-r7-C18-3.patch'),
 dict(name='benign-r7-C20-1', prop='C20', benign=True, expect='', patch='selftest/fixes/benign-r7-C20-1.patch'),
 dict(name='benign-r7-C20-1-on-C15', prop='C15', benign=True, expect='', patch='selftest/fixes/benign-r7-C20-1.patch'),
 dict(name='benign-r7-C20-2', prop='C20', benign=True, expect='', patch='selftest/fixes/benign-r7-C20-2.patch'),
 dict(name='benign-r7-C20-2-on-C15', prop='C15', benign=True, expect='', patch='selftest/fixes/benign-r7-C20-2.patch'),
 dict(name='benign-r7-C20-3', prop='C20', benign=True, expect='', patch='selftest/fixes/benign-r7-C20-3.patch'),
 dict(name='benign-r7-C20-3-on-C15', prop='C15', benign=True, expect='', patch='selftest/fixes/benign-r7-C20-3.patch'),
]

# ---- round 15 seeds, and hand mutants of the plain double-and-add multiplication (R-POLY/doubleadd, added after the C06 seed was missed)
MUTANTS += [
 dict(name='seed-C02-is-zero-dword-fold', prop='C02', patch='seeded/C02-is-zero-dword-fold-shifts-by-sizeof/patch.diff', expect='R-PRED/bigint'),
 dict(name='seed-C05-fq2-is-one-from-is-zero', prop='C05', patch='seeded/C05-fq2-is-one-copied-from-is-zero/patch.diff', expect='Fq2::is_one'),
 dict(name='seed-C06-doubleadd-skips-zero-words', prop='C06', patch='seeded/C06-doubleadd-skips-zero-scalar-words/patch.diff', expect='R-POLY/doubleadd'),
 dict(name='seed-C09-compressed-never-validates', prop='C09', patch='seeded/C09-compressed-decode-never-validates/patch.diff', expect='VIOLATION property=C09'),
 dict(name='seed-C13-message-hash-reduce', prop='C13', patch='seeded/C13-message-exponent-through-hash-reduce/patch.diff', expect='VIOLATION property=C13'),
 dict(name='seed-C17-length-firstbyte-eq-1', prop='C17', patch='seeded/C17-unmarshalled-length-firstbyte-equals-one/patch.diff', expect='VIOLATION property=C17'),
 dict(name='c06-doubleadd-stops-before-bit-0', prop='C06', expect='R-POLY/doubleadd',
      edits=[('include/bls12_381/curve.hpp', 'for (int i = highest_bit; i != -1; i--) {\n                this->multiply2(*this);\n                if (scalar.bit(i)) {',
              'for (int i = highest_bit; i != 0; i--) {\n                this->multiply2(*this);\n                if (scalar.bit(i)) {')]),
 dict(name='c06-doubleadd-adds-on-clear-bit', prop='C06', expect='R-POLY/doubleadd',
      edits=[('include/bls12_381/curve.hpp', 'this->multiply2(*this);\n                if (scalar.bit(i)) {\n                    this->add(*this, base);',
              'this->multiply2(*this);\n                if (!scalar.bit(i)) {\n                    this->add(*this, base);')]),
 dict(name='c06-doubleadd-add-before-double', prop='C06', expect='R-POLY/doubleadd',
      edits=[('include/bls12_381/curve.hpp', 'this->multiply2(*this);\n                if (scalar.bit(i)) {\n                    this->add(*this, base);\n                } else {',
              'if (scalar.bit(i)) {\n                    this->add(*this, base);\n                    this->multiply2(*this);\n                } else {\n                    this->multiply2(*this);')]),
 dict(name='c06-doubleadd-starts-below-highest-bit', prop='C06', expect='R-POLY/doubleadd',
      edits=[('include/bls12_381/curve.hpp', 'this->copy(zero);\n            for (int i = highest_bit; i != -1; i--) {', 'this->copy(zero);\n            for (int i = highest_bit - 1; i != -1; i--) {')]),
 # behaviour-preserving: count down with a while loop
 dict(name='c06-benign-doubleadd-while-loop', prop='C06', benign=True, expect='',
      edits=[('include/bls12_381/curve.hpp', 'for (int i = highest_bit; i != -1; i--) {\n                this->multiply2(*this);\n                if (scalar.bit(i)) {',
              'for (int i = highest_bit; i >= 0; --i) {\n                this->multiply2(*this);\n                if (scalar.bit(i)) {')]),
 # correct word-at-a-time rewrites of the same routine (the seeded one without the zero-word shortcut; with a shortcut that still doubles)
 dict(name='c06-benign-doubleadd-wordwise', prop='C06', benign=True, expect='', patch='selftest/fixes/c06-benign-doubleadd-wordwise.patch'),
 dict(name='c06-benign-doubleadd-wordwise-zero-word-doubles', prop='C06', benign=True, expect='', patch='selftest/fixes/c06-benign-doubleadd-wordwise-zero-word-doubles.patch'),
 # R-PRED/bigint: is_zero must test every bit of the value
 dict(name='c02-is-zero-skips-word-0', prop='C02', expect='R-PRED/bigint',
      edits=[('include/core/bigint.hpp', 'for (int i = 0; i != word_length; i++) {\n                if (this->words[i] != 0) {\n                    return false;',
              'for (int i = 1; i != word_length; i++) {\n                if (this->words[i] != 0) {\n                    return false;')]),
 # the seeded double-word fold with the shift corrected to a whole word: R-PRED/bigint accepts it; R-WORDALG/c++ declines the or of
 # overlapping double words inside fp_inverse (no verdict, no alarm)
 dict(name='c02-benign-is-zero-dword-fold', prop='C02', benign='noverdict', expect='', patch='selftest/fixes/c02-benign-is-zero-dword-fold.patch'),
]

# ---- round 16 seeds
MUTANTS += [
 dict(name='seed-C03-x86-square-adddiagonal', prop='C03', patch='seeded/C03-x86-square-adddiagonal-carry-into-accumulator/patch.diff', expect='R-WORDALG'),
 dict(name='seed-C07-gt-exp-static-table', prop='C20', patch='seeded/C07-exponentiate-gt-static-table-keyed-by-address/patch.diff', expect='R-EFFECT'),
 dict(name='seed-C07-gt-exp-static-table-on-C07', prop='C07', novd=True, patch='seeded/C07-exponentiate-gt-static-table-keyed-by-address/patch.diff', expect=''),
 dict(name='seed-C10-powers-random-clear-outside-retry', prop='C10', patch='seeded/C10-powers-random-table-clear-outside-retry/patch.diff', expect='VIOLATION property=C10'),
 dict(name='seed-C11-qualifykey-tail-copy-ignores-omit-all', prop='C11', patch='seeded/C11-nondelegable-qualifykey-tail-copy-ignores-omit-all/patch.diff', expect='R-HIDDEN/all'),
 dict(name='seed-C14-deferred-removal-early-return', prop='C14', novd=True, patch='seeded/C14-adjust-precomputed-deferred-removal-early-return/patch.diff', expect=''),
 dict(name='seed-C16-encrypt-raw-sp-coordinates', prop='C16', patch='seeded/C16-encrypt-pairs-raw-sp-coordinates/patch.diff', expect='VIOLATION property=C16'),
 # the correct form of the C14 refactor (removed terms summed in a new local, negated once at the end): declined, not reported
 dict(name='c14-benign-adjust-precomputed-deferred-removal', prop='C14', benign='noverdict', expect='', patch='selftest/fixes/c14-benign-adjust-precomputed-deferred-removal.patch'),
]
