# Each mutant: a small edit that still compiles; 'expect' is a substring the report must contain.
# benign=True marks behaviour-preserving edits on which the check must stay silent.
MUTANTS = [
 dict(name='c19-swap-args-g1_add', prop='C19', expect='R-WRAP/W3',
      edits=[('src/bls12_381/bls12_381.cpp',
              'reinterpret_cast<G1*>(result)->add(*reinterpret_cast<const G1*>(a), *reinterpret_cast<const G1*>(b));',
              'reinterpret_cast<G1*>(result)->add(*reinterpret_cast<const G1*>(b), *reinterpret_cast<const G1*>(a));')]),
 dict(name='c19-coeffs-67', prop='C19', expect='R-LAYOUT',
      edits=[('include/bls12_381/bls12_381.h', 'coeffs[68]', 'coeffs[67]')]),
 dict(name='c19-gt_negate-wrong-op', prop='C19', expect='R-WRAP/W5',
      edits=[('src/bls12_381/bls12_381.cpp', 'reinterpret_cast<Fq12*>(result)->inverse(', 'reinterpret_cast<Fq12*>(result)->square_cyclotomic(')]),
 dict(name='c19-polarity-params-marshal', prop='C19', expect='R-WRAP/polarity',
      edits=[('src/wkdibe/wkdibe.cpp', 'reinterpret_cast<const Params*>(params)->marshal<true>(buffer);', 'reinterpret_cast<const Params*>(params)->marshal<false>(buffer);')]),
 dict(name='c19-dup-arg', prop='C19', expect='R-WRAP/W2',
      edits=[('src/bls12_381/bls12_381.cpp',
              'return G2::equal(*reinterpret_cast<const G2*>(a), *reinterpret_cast<const G2*>(b));',
              'return G2::equal(*reinterpret_cast<const G2*>(a), *reinterpret_cast<const G2*>(a));')]),
 dict(name='c19-field-order-c-struct', prop='C19', expect='R-LAYOUT',
      edits=[('include/wkdibe/wkdibe.h', '    int l;\n    bool signatures;\n    embedded_pairing_wkdibe_g1_t bsig;', '    bool signatures;\n    int l;\n    embedded_pairing_wkdibe_g1_t bsig;')]),
 dict(name='c19-benign-rename-local', prop='C19', benign=True, expect='',
      edits=[('src/bls12_381/bls12_381.cpp', 'Fr* res = reinterpret_cast<Fr*>(result);\n    res->val.read_big_endian(static_cast<const uint8_t*>(hash));\n    res->hash_reduce();',
              'Fr* out = reinterpret_cast<Fr*>(result);\n    out->val.read_big_endian(static_cast<const uint8_t*>(hash));\n    out->hash_reduce();')]),
]
MUTANTS += [
 dict(name='c19-gt_zero-is-Fq12-zero', prop='C19', expect='xconst|gt_zero',
      edits=[('src/bls12_381/bls12_381.cpp', '(const embedded_pairing_bls12_381_fq12_t*) &Fq12::one;', '(const embedded_pairing_bls12_381_fq12_t*) &Fq12::zero;')]),
 dict(name='c19-group_order-is-R', prop='C19', expect='xconst|group_order',
      edits=[('src/bls12_381/bls12_381.cpp', '(const embedded_pairing_core_bigint_256_t*) &fr_modulus;', '(const embedded_pairing_core_bigint_256_t*) &fr_R;')]),
 dict(name='c19-generator-pairing-word', prop='C19', tier='thorough', expect='xconst|gt_generator',
      edits=[('include/bls12_381/pairing.hpp', '0xa01f85c5, 0x1972e433', '0xa01f85c4, 0x1972e433')]),
 dict(name='c19-g1-generator-y-negated-typo', prop='C19', expect='xconst|g1affine_generator',
      edits=[('include/bls12_381/curve.hpp', '.y = {{{{.std_words = { 0xce72271,', '.y = {{{{.std_words = { 0xce72272,')]),
]
MUTANTS += [
 dict(name='c17-revert-D1-freeslot-uint32', prop='C17', revert='D1', expect='R-ALIGN'),
 dict(name='c17-c-array-3', prop='C17', expect='R-BOUNDS',
      edits=[('include/bls12_381/decomposition.hpp', 'BigInt<64> c[4];', 'BigInt<64> c[3];')]),
 dict(name='c17-loop-bound-5-over-4-array', prop='C17', expect='R-BOUNDS', tier='quick',
      edits=[('src/bls12_381/fq12_cyclotomic.cpp', 'for (unsigned int i = 0; i != 4; i++) {', 'for (unsigned int i = 0; i != 5; i++) {')]),
 dict(name='c17-params-overlay-uint16', prop='C17', expect='R-ALIGN',
      edits=[('src/wkdibe/marshal.cpp', 'struct SecretKeyMarshalled {\n        uint8_t signature;', 'struct SecretKeyMarshalled {\n        uint16_t signature;')]),
]
