#!/usr/bin/env python3
"""keep_seed.py <worktree> <seed id> <property> <needs> <confirm log> <detected-by>: copy a confirmed seeded change into /verif/seeded/<id>/"""
import sys, os, shutil, json, subprocess
wt, sid, prop, needs, log, detected = sys.argv[1:7]
dst = os.path.join(os.path.dirname(os.path.dirname(os.path.abspath(__file__))), 'seeded', sid)
os.makedirs(dst, exist_ok=True)
seed = os.path.join(wt, '_seed')
for f in os.listdir(seed):
    p = os.path.join(seed, f)
    if os.path.isfile(p) and os.path.getsize(p) < 200000 and not f.startswith('demo_') and not f.endswith(('.o', '.a')) and f not in ('demo',):
        if os.access(p, os.X_OK) and not f.endswith('.sh'):
            continue
        shutil.copy(p, os.path.join(dst, f))
for d in ('stub',):
    if os.path.isdir(os.path.join(seed, d)):
        shutil.copytree(os.path.join(seed, d), os.path.join(dst, d), dirs_exist_ok=True)
meta = dict(id=sid, property=prop, needs_to_manifest=needs, source='independent sub-agent given only the property text and a scratch worktree',
            confirmed=open(log).read() if os.path.exists(log) else log, detected_by=detected,
            base_commit=subprocess.check_output(['git', '-C', wt, 'rev-parse', 'HEAD'], text=True).strip())
json.dump(meta, open(os.path.join(dst, 'meta.json'), 'w'), indent=1)
print('kept', dst, sorted(os.listdir(dst)))
