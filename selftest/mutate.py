#!/usr/bin/env python3
"""Mutation self-test (development time): applies each mutant to a scratch copy of /repo under /tmp,
runs the named check against the copy (JPV_REPO), and requires exit 1 with the expected rule named.
usage: selftest/mutate.py [name-substring ...]"""
import os, sys, subprocess, shutil, json, tempfile
HERE = os.path.dirname(os.path.abspath(__file__))
VERIF = os.path.dirname(HERE)
sys.path.insert(0, HERE)
from mutants import MUTANTS

def main():
    sel = sys.argv[1:]
    scratch = tempfile.mkdtemp(prefix='jpv-mut-')
    ok = True
    try:
        start = int(os.environ.get('MUT_START', '0'))
        stride = int(os.environ.get('MUT_STRIDE', '1'))
        offset = int(os.environ.get('MUT_OFFSET', '0'))
        for idx, m in enumerate(MUTANTS):
            # MUT_START / MUT_STRIDE / MUT_OFFSET: run a slice of the list (several processes side by side)
            if idx < start or (idx - start) % stride != offset or idx >= int(os.environ.get('MUT_END', '1000000')):
                continue
            if sel and not any(s in m['name'] or s == m['prop'] for s in sel):
                continue
            d = os.path.join(scratch, 'repo')
            if os.path.isdir(d):
                shutil.rmtree(d)
            subprocess.check_call(['git', '-C', '/repo', 'worktree', 'prune'])
            shutil.copytree('/repo', d, ignore=shutil.ignore_patterns('bin', '.git', '*.a', 'test', '_build'), symlinks=True)
            if m.get('revert'):
                subprocess.check_call(['patch', '-R', '-p1', '-s', '-i', os.path.join(HERE, 'fixes', m['revert'] + '.patch')], cwd=d)
            if m.get('patch'):
                pf = os.path.join(VERIF, m['patch'])
                if not os.path.exists(pf) or subprocess.call(['patch', '-p1', '-s', '-i', pf], cwd=d) != 0:
                    print('MUTANT-STALE %s: patch %s missing or does not apply' % (m['name'], m['patch'])); ok = False; continue
            for (path, old, new) in m.get('edits', []):
                fp = os.path.join(d, path)
                s = open(fp).read()
                if s.count(old) != m.get('count', 1) and s.count(old) < 1:
                    print('MUTANT-STALE %s: pattern not found in %s' % (m['name'], path)); ok = False; continue
                s = s.replace(old, new, 1) if not m.get('all') else s.replace(old, new)
                open(fp, 'w').write(s)
            env = dict(os.environ, JPV_REPO=d)
            p = subprocess.run([os.path.join(VERIF, 'check'), m['prop'], '--tier', m.get('tier', 'quick')], env=env,
                               stdout=subprocess.PIPE, stderr=subprocess.STDOUT, text=True, cwd=VERIF)
            fired = p.returncode == 1 and 'VIOLATION property=%s' % m['prop'] in p.stdout
            named = m['expect'] in p.stdout
            status = 'CAUGHT' if fired and named else ('WRONG-RULE' if fired else 'MISSED(exit %d)' % p.returncode)
            if m.get('benign'):
                status = 'SILENT-OK' if p.returncode == 0 else 'FALSE-ALARM(exit %d)' % p.returncode
                if m['benign'] == 'noverdict' and p.returncode == 2 and 'VIOLATION' not in p.stdout:
                    status = 'SILENT-OK'      # a restructuring the structure-bound rules decline to judge: no verdict, and no alarm
            if m.get('novd'):
                # a defective change on which the rules that could judge it decline (restructured / replaced routine): recorded as such
                status = 'NO-VERDICT' if (p.returncode == 2 and 'VIOLATION' not in p.stdout) else ('CAUGHT' if fired else 'MISSED(exit %d)' % p.returncode)
            print('%-14s %-4s %s' % (status, m['prop'], m['name']))
            if status not in ('CAUGHT', 'SILENT-OK', 'NO-VERDICT'):
                ok = False
                print('\n'.join('      ' + l for l in p.stdout.splitlines()[-12:]))
    finally:
        shutil.rmtree(scratch, ignore_errors=True)
    return 0 if ok else 1

if __name__ == '__main__':
    sys.exit(main())
