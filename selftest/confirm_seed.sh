#!/bin/bash
# Confirms a seeded change produced by a sub-agent, in its scratch worktree $1 (patch applied there, deliverables in $1/_seed):
#  1. with the patch: the library builds and the pinned suite (tests/test) passes; the demo FAILS (non-zero exit)
#  2. without the patch: the demo PASSES (exit 0)
# usage: confirm_seed.sh <worktree> [extra compile flags for objects+demo, e.g. "-DDISABLE_ASM -O0"] [extra link flags]
set -u
WT=$1; XF=${2:--O1}; LF=${3:-}
cd "$WT" || exit 2
git apply --check _seed/patch.diff 2>/dev/null && { echo "patch not applied in worktree; applying"; git apply _seed/patch.diff; }
build_objs() { # $1 = outdir
  rm -rf "$1"; mkdir -p "$1"
  ls src/bls12_381/*.cpp src/wkdibe/*.cpp src/lqibe/*.cpp src/core/arch/x86_64/*.cpp | xargs -P16 -I{} sh -c 'clang++ -std=c++17 -I./include '"$XF"' -c {} -o '"$1"'/$(echo {} | tr / _).o' || return 1
  for s in src/core/arch/x86_64/*.s; do as $s -o "$1/$(echo $s | tr / _).o"; done
}
run_demo() { # $1 = objdir
  clang++ -std=c++17 -I./include $XF $LF _seed/demo.cpp "$1"/*.o -o "$1/demo" 2>"$1/demo_build.log" || { echo "demo build failed"; tail -5 "$1/demo_build.log"; return 99; }
  "$1/demo" > "$1/demo_out.txt" 2>&1; local rc=$?; tail -3 "$1/demo_out.txt"; return $rc
}
echo "== with patch: pinned suite"
( cd tests && make clean >/dev/null 2>&1; make -j16 test >/dev/null 2>&1 && ./test > /tmp/seedtest.$$ 2>&1; echo "suite exit=$? PASS lines=$(grep -c PASS /tmp/seedtest.$$) non-PASS result lines=$(grep -E '\.\.\.' /tmp/seedtest.$$ | grep -vc PASS)"; rm -f /tmp/seedtest.$$ )
echo "== with patch: demo"
build_objs _seed/cobj_patched && run_demo _seed/cobj_patched; echo "demo(patched) exit=$?"
git diff > /tmp/seedpatch.$$ ; git checkout -- src include
echo "== without patch: demo"
build_objs _seed/cobj_orig && run_demo _seed/cobj_orig; echo "demo(original) exit=$?"
git apply /tmp/seedpatch.$$; rm -f /tmp/seedpatch.$$
rm -rf _seed/cobj_patched _seed/cobj_orig tests/bin tests/test tests/pairing.a
