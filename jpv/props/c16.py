"""C16 - LQ-IBE decryption re-derives the encryption key (hash-input agreement)."""
from .. import schemes, scalar

EXPL = ('(R-SCHEME) every path segment (entry -> loop head, one loop iteration, loop exit -> return) of the scheme routines is interpreted in the discrete-log domain - group elements are formal Z_r-linear combinations of base symbols with polynomial coefficients, pairings expand bilinearly, cursors and indices are symbolic - and its effect table is compared with the table the construction prescribes for the segment\'s category (attribute present / hidden / slot free in the parent / flags); with the exit conditions this is an inductive argument valid for every number of slots and every attribute list: which generator, which exponent, which randomness reaches which component is decided for all values at once. Equality of the two pairing values (e(Q, r*sP) = e(s*Q, r*P)) is bilinearity (C01) and is NOT decided here. Decided: '
        '(R-PAIR) encrypt and decrypt fill the same members of the hash-input struct from the same sources through the same '
        'encoders (q <- encode(id.q), rp <- encode(ciphertext.rp), pairing <- big-endian pairing value), every member is '
        'written exactly once before the hash callback, which receives (symmetric, symmetric_length, &buffer, sizeof(buffer)) '
        'in both; (R-LAYOUT) the struct has no padding and alignment 1 in every configuration (else uninitialised stack bytes '
        'are hashed); roles: keygen sets sk.sq = msk.s * id.q, encrypt pairs id.q with r*sP and publishes r*P with the same r, '
        'decrypt pairs sk.sq with ciphertext.rp; (R-DISPATCH) identity derivation clears the cofactor with the generic '
        'multiplication.')


def run(ctx):
    ctx.explanation = EXPL
    ctx.level = 'other'
    ctx.assumptions = ['bilinearity of the pairing (C01) is not decided here']
    from .. import schemespec
    for cfg, prog in ctx.programs().items():
        schemes.rule_lqibe(ctx, cfg, prog)
        scalar.rule_dispatch(ctx, cfg, prog)
        ns = schemespec.rule_scheme(ctx, cfg, prog, which=['lqibe::setup', 'lqibe::keygen', 'lqibe::encrypt', 'lqibe::decrypt'])
        ctx.floor('R-SCHEME path segments[%s]' % cfg, ns, 4)
