"""C06 - scalar multiplication returns [k]P (partial claim: dispatch, extents, recoding carry, GLV constants)."""
import os
from .. import guards, scalar
from .. import buildmodel as bm

EXPL = ('(R-POLY/tables) the set-up code of the interleaved w-NAF multiplications is executed with concrete control and symbolic group values: in G2::multiply_frobenius digit stream j is recoded from c[j] and table j is filled from (sign(x) psi)^j (a) = [|x|^j] a on every path (an unfilled table only where its stream is empty); in G1::multiply_endomorphism both streams come from (c0, c1) and the table from a; WnafTable::fill_table gives table[k] = (2k+1) base for every instantiation. (R-WORDALG/c++) decompose_lambda is executed at word level: on every path (+-c0) + lambda (+-c1) - k is a multiple of r identically in k AND in the rounded quotient (the lattice vectors are in the kernel of (a,b) -> a + lambda b, so only the exactness of the recombination matters: products, the add-back of round(b1), the ordered subtractions and the signs), with floordiv_by_fr_p_value replaced by an arbitrary value after checking that it writes only its result; PowersOfX::decompose recombines to y modulo r on every path (64-bit-word configurations). (R-WORDALG/c++, recoding step) one iteration of WnafScalar::from_bigint from an arbitrary state satisfies c_old == u + 2 c_new exactly (byte-level reads and writes, the subtract / add-back with its lost top bit re-inserted after the shift, the comparison deciding the wrap), stores u at wnaf[i] with |u| <= 2^w - 1 and advances i by one; with c == scalar before the loop and c == 0 at its exit the digits recombine to the scalar for every scalar. (R-POLY/doubleadd) Projective::multiply_doubleadd_restrict is interpreted in the exponent domain (group element = [E] base, E an integer-linear form over the symbolic bits of the scalar; copy(zero) -> 0, multiply2 -> *2, add -> +) for highest_bit in {0, bits/2, bits-1}: the result is sum_i 2^i bit_i(k) base over exactly the bits 0..highest_bit, identically in the bits. Decided: '
        '(R-DISPATCH) on the resolved call graph of every instantiation, no function that handles a point not yet known '
        'to be in the order-r subgroup (subgroup test, cofactor clearing in sampling and identity derivation, hash-to-curve) '
        'can reach a multiplication that is only valid on the subgroup (GLV endomorphism, Frobenius base-|x|, their '
        'decompositions); (R-CARRY) in the w-NAF recoding of every instantiated width the add-back of a negative digit is '
        'followed by an overflow test on the accumulator that controls a write restoring the lost bit; (R-GUARD/G6) every '
        'digit read in the interleaved loops is behind `i < wnaf_size` of the same recoding; (R-BOUNDS) digit buffers hold '
        'bits+1 entries, tables 2^(w-1) entries, the Frobenius digit loop starts at the top possible digit; (R-CONST) the '
        'GLV lattice (r = 1 + v1_2*v2_1), the cube root of unity it defines, beta acting as that lambda on the generator, '
        'the reciprocal multiplier and its exactness bound, and the G2 Frobenius constant.')


def run(ctx):
    ctx.explanation = EXPL
    ctx.level = 'other'
    ctx.assumptions = ['the w-NAF recoding is decided as an inductive step (one iteration from an arbitrary state) plus the statements before the loop; the conclusion sum wnaf[j] 2^j == scalar is the telescoping argument stated in the rule, the number of iterations (at most bits+1) is covered by R-BOUNDS / R-CARRY only; the size of the GLV halves (a performance matter: both are recoded at 256 bits) is not decided; psi(P) = [x]P on G2 is assumed']
    for cfg, prog in ctx.programs().items():
        n = guards.rule_defout(ctx, cfg, prog, name_filter=lambda f: 'Fq12' not in f['qn'] and 'miller' not in f['qn'])
        ctx.floor('R-DEFOUT accumulation functions[%s]' % cfg, n, 4)
        from .. import cppword
        ng = cppword.rule_glv_decompose(ctx, cfg, prog)
        ng += cppword.rule_decompose(ctx, cfg, prog)
        nw_ = cppword.rule_wnaf_step(ctx, cfg, prog)
        ctx.floor('R-WORDALG/c++ recoding step instantiations[%s]' % cfg, nw_, 3)
        ctx.floor('R-WORDALG/c++ decomposition obligations[%s]' % cfg, ng, 1)
        scalar.rule_dispatch(ctx, cfg, prog)
        scalar.rule_carry(ctx, cfg, prog)
        scalar.rule_digit_guard(ctx, cfg, prog)
        scalar.rule_wnaf_witnesses(ctx, cfg, prog)
        scalar.rule_glv_constants(ctx, cfg, prog)
        from .. import tables
        nt = tables.rule_tables(ctx, cfg, prog)
        ctx.floor('R-POLY/tables obligations[%s]' % cfg, nt, 4)
        nd = tables.rule_digit_loops(ctx, cfg, prog)
        ctx.floor('R-POLY/digits accumulator updates[%s]' % cfg, nd, 20)
        from .. import daexp
        nda = daexp.rule_doubleadd(ctx, cfg, prog)
        if nda:
            ctx.floor('R-POLY/doubleadd obligations[%s]' % cfg, nda, 3)
        else:
            # a member template: present in the program only while something calls it (today: the subgroup test and the sampling
            # paths); with no instantiation there is no double-and-add code to decide in this configuration
            ctx.require(not any('multiply_doubleadd' in (f.get('qn') or '') and 'body' in f for f in prog.functions.values()),
                        'multiply_doubleadd* is instantiated but R-POLY/doubleadd found no routine to interpret')
            ctx.count('R-POLY/doubleadd: routine not instantiated[%s]' % cfg)
