"""C01 - pairing is the BLS12-381 optimal-ate pairing (partial claim: identity clause + generator constant)."""
from .. import guards, consts, formulas, fieldlayer

EXPL = ('Partial claim. The numerical value of the pairing, bilinearity and order r quantify over ~2^510 inputs and are '
        'NOT decided (no static argument in reach). Decided: (R-GUARD/G1) the clause "e(P,Q) = 1 when P or Q is the '
        'identity, wherever the pair sits in a product": in the multi-pair Miller loop every line evaluation / doubling / '
        'addition step is control-dependent on the non-identity edges of both members of the same pair (affine and '
        'prepared pairs, all three phases), and the accumulator starts from Fq12::one; (R-CONST, thorough) the exported '
        'generator pairing constant equals the reduced optimal-ate pairing (cubed, as the library\'s final exponent '
        'does) of the generator constants computed by an independent Python implementation derived from x only; '
        '(R-POLY/exp) "the library\'s final exponent (the reduced pairing cubed)": final_exponentiation is interpreted in the exponent '
        'domain (every Fq12 value numbered by its exponent of one symbolic generator; multiply -> +, square -> *2, inverse -> *-1, '
        'conjugate -> *q^6, frobenius(k) -> *q^k, the x-power chains run over the bits of the bls_x constant) and its total exponent '
        'equals 3*(q^12-1)/r modulo q^12-1, for distinct and for aliased result/argument - so every output has order dividing r and '
        'the map is the cube of the reduced pairing for ALL Miller-loop outputs, given that the tower operations are the field '
        'operations (C04).')


def run(ctx):
    ctx.explanation = EXPL
    ctx.level = 'other'
    ctx.assumptions = ['everything about the pairing value for non-identity inputs is outside this check']
    for cfg, prog in ctx.programs().items():
        fieldlayer.rule_field_layer(ctx, cfg, prog)
        guards.g1_miller_loop(ctx, cfg, prog)
        consts.rule_pairing_constants(ctx, cfg, prog)
        e = formulas.rule_exponents_gt(ctx, cfg, prog, which=('final',))
        ctx.floor('R-POLY/exp final exponentiation[%s]' % cfg, e, 2)
        ln = formulas.rule_miller_lines(ctx, cfg, prog)
        ctx.floor('R-POLY/line obligations[%s]' % cfg, ln, 6)
