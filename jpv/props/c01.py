"""C01 - pairing is the BLS12-381 optimal-ate pairing (partial claim: identity clause + generator constant)."""
from .. import guards, consts, formulas, fieldlayer

EXPL = ('(R-POLY/line) miller_doubling_step / miller_addition_step are interpreted over the coordinate ring (Fq2 as ring leaf): the running point is updated by the tangent / chord rule (affine images, cross-multiplied) and the coefficient triple (c : b : a) is proportional to the tangent / chord line through the untwisted points, (3X^3-2Y^2 : -3X^2Z^2 : 2YZ^3) resp. (N x2 - D y2 : -N : D); ell multiplies the accumulator by c + (b xP) v + (a yP) v w (compared at base-field level with the definitional tower product); the dropped Fq2 / w^3 factors die in the final exponentiation because (q^4-1) divides 3(q^12-1)/r. (R-FIELDLAYER) no code outside the decided field primitives writes a field representation. Partial claim. The numerical value of the pairing, bilinearity and order r quantify over ~2^510 inputs and are '
        'NOT decided (no static argument in reach). Decided: (R-GUARD/G1) the clause "e(P,Q) = 1 when P or Q is the '
        'identity, wherever the pair sits in a product": in the multi-pair Miller loop every line evaluation / doubling / '
        'addition step is control-dependent on the non-identity edges of both members of the same pair (affine and '
        'prepared pairs, all three phases), and the accumulator starts from Fq12::one; (R-CONST, thorough) the exported '
        'generator pairing constant equals the reduced optimal-ate pairing (cubed, as the library\'s final exponent '
        'does) of the generator constants computed by an independent Python implementation derived from x only; '
        '(R-POLY/exp) "the library\'s final exponent (the reduced pairing cubed)": final_exponentiation is interpreted in the exponent '
        'domain (every Fq12 value numbered by its exponent of one symbolic generator; multiply -> +, square -> *2, inverse -> *-1, '
        'conjugate -> *q^6, frobenius(k) -> *q^k, the x-power chains run over the bits of the bls_x constant) and its total exponent '
        'equals 3*(q^12-1)/r modulo q^12-1, for distinct and for aliased result/argument - so every output has order dividing r and '
        'the map is the cube of the reduced pairing for ALL Miller-loop outputs, given that the tower operations are the field '
        'operations (C04).'
        ' (R-CCL/schedule) the constant-controlled loops of miller_loop are run concretely, whatever their form; the trace of accumulator updates per pair is exactly the Miller schedule of |x| (blocks D E (A E)? per bit position below the top one, one squaring between blocks, none after the last, nothing else touching the accumulator, which is set to one once).')


def run(ctx):
    ctx.explanation = EXPL
    ctx.level = 'other'
    ctx.assumptions = ['that tangent/chord lines accumulated over the bits of |x|, conjugated and raised to 3(q^12-1)/r form the optimal-ate pairing is the textbook theorem (assumed); base-field exactness is C02/C03']
    for cfg, prog in ctx.programs().items():
        fieldlayer.rule_field_layer(ctx, cfg, prog)
        guards.g1_miller_loop(ctx, cfg, prog)
        consts.rule_pairing_constants(ctx, cfg, prog)
        e = formulas.rule_exponents_gt(ctx, cfg, prog, which=('final',))
        ctx.floor('R-POLY/exp final exponentiation[%s]' % cfg, e, 2)
        from .. import ccl
        nt = ccl.rule_ccl(ctx, cfg, prog, schedule=True)
        ctx.floor('R-CCL trace events[%s]' % cfg, nt, 250)
        ccl.rule_product_shape(ctx, cfg, prog)
        ln = formulas.rule_miller_lines(ctx, cfg, prog)
        ctx.floor('R-POLY/line obligations[%s]' % cfg, ln, 6)
