"""C13 - WKD-IBE signatures (partial claim: signer/verifier agreement of structure)."""
from .. import schemes

EXPL = ('(R-SCHEME) every path segment (entry -> loop head, one loop iteration, loop exit -> return) of the scheme routines is interpreted in the discrete-log domain - group elements are formal Z_r-linear combinations of base symbols with polynomial coefficients, pairings expand bilinearly, cursors and indices are symbolic - and its effect table is compared with the table the construction prescribes for the segment\'s category (attribute present / hidden / slot free in the parent / flags); with the exit conditions this is an inductive argument valid for every number of slots and every attribute list: which generator, which exponent, which randomness reaches which component is decided for all values at once. Partial claim. Whether verification accepts exactly the signed message and attribute list is the value of a pairing-'
        'product equation and is NOT decided. Decided are structural necessary conditions: (R-PAIR) signer and verifier bind '
        'the message through the same term hsig^message * prodexp, the signer starts from sk.bsig^message, and the verifier '
        'returns equal(e(a0, g) * e(-(bound term), a1), params.pairing) - a product of exactly two pairings with exactly one '
        'negation, compared with the public pairing value; (R-CURSOR) the signer\'s free-slot fill loop contributes b[i]^id '
        'exactly on an index match and advances its cursor; (R-WRAP, shared with C14) sign/verify are precompute + the '
        'precomputed forms.'
        ' (R-INBOUNDS) independently of the loop structure, a must-dataflow over the CFG shows that every element of an input list (attrs.attrs, sk.b, params.h) selected by a cursor is touched only where every path has tested that cursor against the list count since it last moved.')


def run(ctx):
    ctx.explanation = EXPL
    ctx.level = 'other'
    ctx.assumptions = ['soundness/unforgeability and acceptance for the right message are cryptographic value-level facts, not decided']
    from .. import schemespec
    for cfg, prog in ctx.programs().items():
        from .. import inbounds
        ni = inbounds.rule_inbounds(ctx, cfg, prog, only=['sign_precomputed', 'precompute'])
        ctx.floor('R-INBOUNDS cursor-selected accesses[%s]' % cfg, ni, 3)
        schemes.rule_signature_structure(ctx, cfg, prog)
        schemes.rule_delegation(ctx, cfg, prog)
        ns = schemespec.rule_scheme(ctx, cfg, prog, which=['sign_precomputed', 'verify_precomputed', 'precompute'])
        ctx.floor('R-SCHEME path segments[%s]' % cfg, ns, 10)
