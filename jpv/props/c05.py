"""C05 - G1/G2 point arithmetic is the group law (partial claim: exceptional-case guards)."""
from .. import guards, formulas

EXPL = ('(R-GUARD/G8) Projective::equal: no decision depends on the x/y coordinates of an operand that is not known to be non-identity (the identity has many representations (x,y,0)); Affine::equal has the truth table \'both infinite, or both finite with equal coordinates\'. (R-POLY) The general-case formulas ARE decided for all inputs at once by algebraic value numbering over the '
        'polynomial ring in the operands\' Jacobian coordinates: Projective::multiply2 equals the tangent rule and both '
        'Projective::add overloads (projective and mixed) equal the chord rule on the affine images (X/Z^2, Y/Z^3), as '
        'cross-multiplied polynomial identities, for G1 (coordinates in Fq) and G2 (coordinates in the ring Fq2, whose '
        'operations are proven under C04), with out distinct and out==a. Not decided: curve membership of results as a '
        'statement about values, equality\'s cross-multiplication, wNAF/table logic. Exceptional cases: decided '
        '(R-GUARD/G4, G5): the exceptional cases the property lists hold only because of guards, and those guards are '
        'necessary: in both Projective::add overloads, for G1 and G2, the general formula is reachable only when neither '
        'operand is the identity and the points are not equal (two cross-multiplied equality tests), the three special '
        'exits have the right effect (copy of a / copy-or-lift of b / doubling of a) and return; affine<->projective '
        'conversions special-case the identity before inverting z. Guards that are mere optimisations are deliberately '
        'not in the table.')


def run(ctx):
    ctx.explanation = EXPL
    ctx.level = 'other'
    ctx.assumptions = ['scalar recoding and curve membership of results as values are not decided']
    for cfg, prog in ctx.programs().items():
        guards.g4_projective_add(ctx, cfg, prog)
        guards.g5_conversions(ctx, cfg, prog)
        guards.g8_equality(ctx, cfg, prog)
        npred = formulas.rule_tower_predicates(ctx, cfg, prog)
        ctx.floor('R-PRED tower predicates[%s]' % cfg, npred, 6)
        nd = guards.rule_defout(ctx, cfg, prog, functions=guards.curve_result_methods(prog), rule='R-DEFOUT/curve',
                                what='%s is an out-of-place operation but there is a path to its end on which %s is never written (the caller keeps whatever the result object held before; `%s`)')
        ctx.floor('R-DEFOUT/curve out-of-place point operations[%s]' % cfg, nd, 12)
        m = formulas.rule_curve(ctx, cfg, prog)
        ctx.floor('R-POLY curve formulas[%s]' % cfg, m, 12)
