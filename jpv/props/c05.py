"""C05 - G1/G2 point arithmetic is the group law (partial claim: exceptional-case guards)."""
from .. import guards

EXPL = ('Partial claim. The addition/doubling formulas and curve membership are value-level and NOT decided. Decided '
        '(R-GUARD/G4, G5): the exceptional cases the property lists hold only because of guards, and those guards are '
        'necessary: in both Projective::add overloads, for G1 and G2, the general formula is reachable only when neither '
        'operand is the identity and the points are not equal (two cross-multiplied equality tests), the three special '
        'exits have the right effect (copy of a / copy-or-lift of b / doubling of a) and return; affine<->projective '
        'conversions special-case the identity before inverting z. Guards that are mere optimisations are deliberately '
        'not in the table.')


def run(ctx):
    ctx.explanation = EXPL
    ctx.level = 'other'
    ctx.assumptions = ['formula correctness is not decided']
    for cfg, prog in ctx.programs().items():
        guards.g4_projective_add(ctx, cfg, prog)
        guards.g5_conversions(ctx, cfg, prog)
