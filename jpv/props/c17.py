"""C17 - untrusted bytes and valid calls never cause out-of-bounds access / misaligned access.
Rules: R-ALIGN (every pointer cast, every configuration), R-BOUNDS (constant-extent arrays under
constant-bounded loops), R-FOOT/R-LEN (marshal footprints and length guards), R-ASM (thorough)."""
from .. import layout, ranges, marshal, asmcheck
from ..facts import walk, loc_str, strip, strip_tmpl

EXPL = ('Decides the structural mechanisms behind memory safety of the parsing and arithmetic code, in every analysis '
        'configuration (64/32-bit words, asm/portable, x86-64/AArch64/Cortex-M0+): (R-ALIGN) every pointer conversion '
        'in library code yields a pointer whose pointee alignment is guaranteed by the provenance of the source '
        '(byte buffers only to alignment-1 overlays; sub-object addresses by their constant offset); (R-BOUNDS) every '
        'subscript of a constant-extent array whose index is determined by compile-time constants and constant-bounded '
        'loops stays inside the extent, for every template instantiation; (R-LEN/R-FOOT) the length-discovery functions '
        'guard the unsigned subtraction and the division, setLength stores only valid lengths, and every marshal/'
        'unmarshal walks exactly the bytes its length formula reports; (R-ASM, thorough) the assembly routines touch '
        'only their argument footprints and their own frame. Does not decide general UB-freedom (a sanitizer matter).')


def bm_configs():
    from .. import buildmodel
    return buildmodel.configs()


def is_library_file(path):
    return path.startswith('src/') or path.startswith('include/')


ASSUMED = set()
_CALLERS = {}


def callers_of(prog, fn):
    idx = _CALLERS.get(id(prog))
    if idx is None:
        idx = {}
        for f in prog.functions.values():
            if 'body' not in f:
                continue
            for n in walk(f['body']):
                if n.get('k') == 'call' and n.get('f'):
                    idx.setdefault(n['f'], []).append((f, n))
        _CALLERS[id(prog)] = idx
    return idx.get(fn['id'], [])


def pow2_divisor(n, cap):
    if n == 0:
        return cap
    d = 1
    while n % (d * 2) == 0 and d * 2 <= cap:
        d *= 2
    return d


def provenance_align(prog, fn, e, depth=0):
    """Guaranteed alignment of the pointer value of expression e (conservative lower bound), with reason."""
    e = strip(e)
    if not isinstance(e, dict) or depth > 8:
        return 1, 'unknown'
    t = e.get('t') or {}
    k = e.get('k')
    if k == 'cast':
        inner_a, why = provenance_align(prog, fn, e['e'], depth + 1)
        # a cast does not improve provenance
        if e.get('ck') == 'ArrayToPointerDecay':
            return lvalue_align(prog, fn, e['e'], depth + 1)
        if e.get('ck') in ('DerivedToBase', 'UncheckedDerivedToBase'):
            off = e.get('baseoff', 0)
            return pow2_divisor(off, inner_a) if off else inner_a, why
        return inner_a, why
    if k == 'un' and e.get('op') == '&':
        return lvalue_align(prog, fn, e['e'], depth + 1)
    if k == 'this':
        pt = t.get('pointee') or {}
        return pt.get('align', 1), 'this'
    if k == 'ref':
        if e.get('rk') == 'param':
            pt = t.get('pointee') if t.get('k') == 'ptr' else None
            if t.get('k') == 'array':
                return (t.get('elem') or {}).get('align', 1), 'array param'
            if pt is None:
                return 1, 'param'
            if pt.get('k') == 'void' or pt.get('size') == 1:
                if fn.get('l') and '/arch/' in fn['l'][0] and fn.get('externC'):
                    # back-end leaf trampoline: its untyped parameters are typed by the C++ call sites
                    # (or by the architecture's assembly, which is an assumption recorded in the evidence)
                    idx = [p['name'] for p in fn['params']].index(e['name'])
                    sites = callers_of(prog, fn)
                    if not sites:
                        ASSUMED.add(fn['qn'])
                        return 1 << 20, 'called only from assembly (assumed aligned as the assembly passes typed objects)'
                    res = [provenance_align(prog, c, call['args'][idx], depth + 1) for (c, call) in sites]
                    return min(r[0] for r in res), 'argument at %d C++ call site(s): %s' % (len(res), res[0][1])
                return 1, 'byte-buffer parameter `%s`' % e['name']
            return pt.get('align', 1), 'typed parameter `%s`' % e['name']
        if e.get('rk') == 'local':
            # single initialiser / assignments: take the minimum over all of them
            vals = []
            for n in walk(fn['body']):
                if n.get('k') == 'decl':
                    for v in n['vars']:
                        if v.get('id') == e['id'] and v.get('init') is not None:
                            vals.append(v['init'])
                if n.get('k') == 'assign' and n.get('op') == '=':
                    l = strip(n['lhs'])
                    if l.get('k') == 'ref' and l.get('rk') == 'local' and l.get('id') == e['id']:
                        vals.append(n['rhs'])
            if not vals:
                return 1, 'uninitialised local'
            res = [provenance_align(prog, fn, v, depth + 1) for v in vals]
            a = min(r[0] for r in res)
            return a, 'local `%s` <- %s' % (e['name'], res[0][1])
        if e.get('rk') == 'global':
            if t.get('k') == 'array':
                return t.get('align', 1), 'global array'
            pt = t.get('pointee') or {}
            return pt.get('align', 1) if pt.get('k') != 'void' else 1, 'global pointer'
    if k == 'bin' and e.get('op') in ('+', '-'):
        # pointer arithmetic in units of the (typed) pointee keeps the pointee's alignment
        for side in ('lhs', 'rhs'):
            s = strip(e[side])
            st = s.get('t') or {}
            if st.get('k') == 'ptr':
                base_a, why = provenance_align(prog, fn, s, depth + 1)
                pt = st.get('pointee') or {}
                return min(base_a, pow2_divisor(pt.get('size', 1) or 1, 1 << 20)), why
    if k == 'call' or k == 'icall':
        pt = t.get('pointee') or {}
        return (pt.get('align', 1) if pt.get('k') != 'void' else 1), 'call result'
    if k == 'member' or k == 'index' or k == 'load':
        # value of a pointer-typed field: trust its declared type
        pt = t.get('pointee') or {}
        if pt.get('k') == 'void' or not pt:
            return 1, 'untyped pointer value'
        return pt.get('align', 1), 'pointer-typed field/element'
    if k == 'cond':
        a = provenance_align(prog, fn, e['then'], depth + 1)
        b = provenance_align(prog, fn, e['else'], depth + 1)
        return min(a[0], b[0]), a[1]
    pt = t.get('pointee') or {}
    return 1 if pt.get('k') == 'void' else pt.get('align', 1), 'typed value'


def lvalue_align(prog, fn, e, depth=0):
    """alignment guaranteed for the address of lvalue e"""
    e0 = e
    e = strip(e) if e.get('k') != 'load' else e
    k = e.get('k')
    t = e.get('t') or {}
    if k == 'member':
        off = e.get('off', 0)
        if e.get('arrow'):
            base_a, why = provenance_align(prog, fn, e['base'], depth + 1)
        else:
            base_a, why = lvalue_align(prog, fn, e['base'], depth + 1)
        return (pow2_divisor(off, base_a) if off else base_a), why + '.%s@%d' % (e['name'], off)
    if k == 'index':
        b = e['base']
        elem = t.get('size', 1) or 1
        base_a, why = provenance_align(prog, fn, b, depth + 1)
        idx = strip(e['idx'])
        if 'cv' in idx:
            off = int(idx['cv']) * elem
            return (pow2_divisor(off, base_a) if off else base_a), why + '[%s]' % idx['cv']
        return min(base_a, pow2_divisor(elem, 1 << 20)), why + '[i]'
    if k == 'un' and e.get('op') == '*':
        return provenance_align(prog, fn, e['e'], depth + 1)
    if k == 'ref':
        if e.get('rk') in ('local', 'global', 'staticlocal'):
            return t.get('align', 1), 'object `%s`' % e.get('name')
        if e.get('rk') == 'param':
            # reference parameter: aligned as its type says
            return t.get('align', 1) if t.get('k') != 'ref' else (t.get('pointee') or {}).get('align', 1), 'reference parameter `%s`' % e['name']
    if k == 'cast':
        return lvalue_align(prog, fn, e['e'], depth + 1)
    return t.get('align', 1), 'lvalue'


def rule_align(ctx, cfg, prog):
    n = 0
    owners = [(f, f['body']) for f in prog.functions.values() if 'body' in f and is_library_file(f['l'][0])]
    for g in prog.globals.values():
        if 'init' in g and is_library_file(g['l'][0]):
            owners.append((g, g['init']))
    for owner, root in owners:
        fnlike = owner if 'body' in owner else dict(body=root)
        for node, sp, dp in layout.pointer_casts(owner, root):
            da = dp.get('align')
            if dp.get('k') == 'void' or da is None:
                continue
            n += 1
            if da == 1:
                ctx.ob('R-ALIGN', True, '', '', '', cfg=cfg)
                continue
            have, why = provenance_align(prog, fnlike, node['e'])
            name = strip_tmpl(owner.get('qn') or owner.get('id'))
            ok = have >= da
            ctx.ob('R-ALIGN', ok, 'align|%s|%s' % (name, layout.unqual(dp['s'])), loc_str(node),
                   'cast to %s* (alignof %d) in %s from a pointer only guaranteed %d-byte aligned (%s)' % (
                       layout.unqual(dp['s']), da, owner.get('qn') or owner.get('id'), have, why), cfg=cfg,
                   sample=dict(config=cfg, function=owner.get('qn') or owner.get('id'), dst=layout.unqual(dp['s']),
                               dst_align=da, provenance=why, guaranteed=have, site=loc_str(node)))
    return n


def rule_overlay_align(ctx, cfg, prog):
    """Every record that is overlaid on a caller's byte buffer (destination of a cast whose provenance is a
    void*/uint8_t* parameter) has alignof == 1 and no padding; reported per record."""
    seen = {}
    for f in prog.functions.values():
        if 'body' not in f or not is_library_file(f['l'][0]):
            continue
        for node, sp, dp in layout.pointer_casts(f, f['body']):
            if dp.get('k') not in ('record', 'union'):
                continue
            have, why = provenance_align(prog, f, node['e'])
            if 'byte-buffer' in why and have == 1:
                seen.setdefault(dp['rec'], (node, dp))
    for rec, (node, dp) in sorted(seen.items()):
        pad = layout.padding(prog, dp)
        ok = dp.get('align') == 1 and not pad
        ctx.ob('R-ALIGN/overlay', ok, 'overlay|%s' % rec, loc_str(node),
               'byte-buffer overlay %s has alignof %s and %d padding byte(s) in %s' % (rec, dp.get('align'), len(pad), cfg),
               cfg=cfg, sample=dict(config=cfg, overlay=rec, size=dp.get('size'), align=dp.get('align')))
    return len(seen)


def rule_bounds(ctx, cfg, prog):
    decided = undecided = 0
    for f in prog.functions.values():
        if 'body' not in f or not is_library_file(f['l'][0]):
            continue
        for (node, extent, env, addr) in ranges.array_subscripts(f):
            r = ranges.eval_range(node['idx'], env)
            if r is None:
                undecided += 1
                continue
            decided += 1
            hi_ok = r[1] < extent or (addr and r[1] <= extent)
            ok = r[0] >= 0 and hi_ok
            base = strip(node['base'])
            while base.get('k') == 'cast':
                base = strip(base['e'])
            bname = base.get('name', '?')
            ctx.ob('R-BOUNDS', ok, 'bounds|%s|%s' % (f['qn'], bname), loc_str(node),
                   'in %s the index of `%s` (extent %d) ranges over [%d, %d] in configuration %s' % (
                       f['qn'], bname, extent, r[0], r[1], cfg), cfg=cfg,
                   sample=dict(config=cfg, function=f['qn'], array=bname, extent=extent, index_range=list(r)))
    ctx.count('subscripts_decided[%s]' % cfg, decided)
    ctx.count('subscripts_runtime_index_not_decided[%s]' % cfg, undecided)
    return decided


def run(ctx):
    ctx.explanation = EXPL
    ctx.level = 'other'
    ctx.assumptions = [
        'callers follow the documented set_length -> allocate l slots -> unmarshal protocol (the Go side of it is not analysable here)',
        'ARMv6-M assembly: footprints are decided on the disassembly of the sources after the divided-to-unified syntax rewrite (jpv/thumbconv.py, trusted)',
        'subscripts whose index depends on run-time data are counted but not decided (see subscripts_runtime_index_not_decided)']
    progs = ctx.programs()
    for cfg, prog in progs.items():
        n = rule_align(ctx, cfg, prog)
        ctx.floor('R-ALIGN casts[%s]' % cfg, n, 250)
        no = rule_overlay_align(ctx, cfg, prog)
        ctx.floor('R-ALIGN overlays[%s]' % cfg, no, 12)
        for a in sorted(ASSUMED):
            note = 'untyped parameters of %s: its only callers are the ARMv6-M assembly routines, whose arguments are located by the Thumb interpreter (see the notes: the value argument is 4 modulo 8 while the C++ type asks for 8; word-aligned for every access ARMv6-M can make)' % a
            if note not in ctx.assumptions:
                ctx.assumptions.append(note)
        nf = marshal.rule_foot_and_pair(ctx, cfg, prog)
        ctx.floor('R-FOOT footprint cases[%s]' % cfg, nf, 30)
        nsb = marshal.rule_subbuffer(ctx, cfg, prog)
        ctx.floor('R-SUBBUF sites[%s]' % cfg, nsb, 10)
        nl = marshal.rule_len(ctx, cfg, prog)
        ctx.floor('R-LEN functions[%s]' % cfg, nl, 4)
        import os
        na = asmcheck.rule_asm(ctx, cfg, prog, os.path.join(ctx.outdir, 'asm'))
        if bm_configs()[cfg]['arch'] in ('x86_64', 'aarch64') and bm_configs()[cfg]['asm']:
            ctx.floor('R-ASM routines[%s]' % cfg, na, 5)
        nb = rule_bounds(ctx, cfg, prog)
        ctx.floor('R-BOUNDS subscripts[%s]' % cfg, nb, 150)
