"""C19 - the C interface is a faithful view of the C++ implementation.
Rules: R-LAYOUT (C struct <-> C++ type, every configuration), R-WRAP W1-W5, R-XCONST."""
import re
from .. import layout, wrap, consts
from ..facts import walk, loc_str, strip

EXPL = ('Decides, on the type-checked program of every analysis configuration: (R-LAYOUT) every C struct that a '
        'wrapper or exported constant casts to a C++ type has the same size, alignment and flattened leaf layout '
        '(transitively through pointer members); (R-WRAP) each of the extern "C" wrappers is a linear cast-and-forward '
        'of its parameters to exactly one C++ operation per path, with no crossed, duplicated or dropped parameter, '
        'correct <compressed> polarity, the callee result returned, sibling wrappers agreeing and no two wrappers '
        'bound to the same operation; (R-XCONST) exported constants point at C++ constants with the right value-level '
        'meaning. Does not decide the correctness of the C++ operations themselves (other properties) nor the Go side.')


def is_c_header_record(prog, tname):
    r = prog.records.get(tname)
    return r is not None and r['l'] and r['l'][0].endswith('.h')


def rule_layout(ctx, cfg, prog):
    pairs = {}
    sites = 0
    srcs = []
    for f in wrap.wrappers(prog):
        srcs.append((f, f['body']))
    for g in prog.globals.values():
        if g.get('externC') and 'init' in g and g['l'][0].startswith('src/'):
            srcs.append((g, g['init']))
    for owner, root in srcs:
        for n, sp, dp in layout.pointer_casts(owner, root):
            a, b = sp, dp
            an, bn = layout.unqual(a['s']), layout.unqual(b['s'])
            ca, cb = is_c_header_record(prog, an), is_c_header_record(prog, bn)
            if ca == cb:
                continue
            sites += 1
            cside, xside = (a, b) if ca else (b, a)
            key = (layout.unqual(cside['s']), layout.unqual(xside['s']))
            pairs.setdefault(key, []).append((owner, n, cside, xside))
    ctx.count('layout_cast_sites[%s]' % cfg, sites)
    for (cn, xn), uses in sorted(pairs.items()):
        owner, n, cside, xside = uses[0]
        errs = layout.compare_layout(prog, cside, xside)
        ctx.ob('R-LAYOUT', not errs, 'layout|%s|%s' % (cn, xn), loc_str(n),
               'C struct %s is cast to %s but layouts differ in %s: %s' % (cn, xn, cfg, '; '.join(errs)),
               cfg=cfg, sample=dict(config=cfg, c=cn, cxx=xn, size=cside.get('size'), align=cside.get('align'),
                                    leaves=len(layout.flatten(prog, cside)), cast_sites=len(uses)))
    return len(pairs)


def slot_type_class(t):
    if not t:
        return '?'
    return t.get('k')


def template_polarity(fw_true, fw_false):
    """entities referenced under compressed==true / false must differ only by true/false template arguments."""
    def ent(fw):
        c = fw.callee
        s = (c['qn'] if c else fw.call.get('qn', '?'))
        th = fw.call.get('this')
        if th is not None:
            s += ' this:' + (th.get('t') or {}).get('s', '')
        return s
    a, b = ent(fw_true), ent(fw_false)
    return a, b


def rule_wrap(ctx, cfg, prog):
    ws = wrap.wrappers(prog)
    models = []
    for f in ws:
        m = wrap.WrapperModel(prog, f)
        models.append(m)
        name = f['name']
        site = loc_str(f)
        # W1 shape
        ctx.ob('R-WRAP/W1', not m.errors, 'W1|' + name, site if not m.errors else loc_str(m.errors[0][0]),
               'wrapper %s is not a pure cast-and-forward: %s' % (name, '; '.join(e[1] for e in m.errors)), cfg=cfg)
        if m.errors:
            continue
        ctx.require(m.forwards or m.returns, 'wrapper %s has neither a forward nor a return' % name)
        # W2 linearity per path
        for cond in m.paths():
            fws = [fw for fw in m.forwards if cond[:len(fw.cond)] == fw.cond]
            used = set()
            for fw in fws:
                seen = {}
                for (slot, idx, root, path, kind) in fw.bindings:
                    if kind == 'param':
                        used.add(root)
                        prev = seen.get((root, path))
                        if prev is not None:
                            ctx.ob('R-WRAP/W2', False, 'W2dup|%s|%s' % (name, root), loc_str(fw.call),
                                   'wrapper %s passes parameter %s to two different callee parameters (%s and %s) '
                                   'of one call' % (name, root, prev, slot), cfg=cfg)
                        seen[(root, path)] = slot
                    else:
                        # a literal / global / unbound value must not feed a pointer or reference slot
                        ct = None
                        if fw.callee and idx >= 0 and idx < len(fw.callee['params']):
                            ct = fw.callee['params'][idx]['t']
                        indirect = (idx == -1) or (ct and ct.get('k') in ('ptr', 'ref'))
                        ctx.ob('R-WRAP/W2', not indirect, 'W2lit|%s|%s' % (name, slot), loc_str(fw.call),
                               'wrapper %s passes %s (%s) to pointer/reference slot %s instead of a parameter' % (
                                   name, path, kind, slot), cfg=cfg)
            for c in cond:
                used.add(c[0])
            missing = [p for p in m.params if p not in used]
            ctx.ob('R-WRAP/W2', not missing, 'W2drop|%s|%s' % (name, ','.join(missing)), site,
                   'wrapper %s drops parameter(s) %s on path %s' % (name, missing, cond), cfg=cfg,
                   sample=dict(wrapper=name, path=[list(c) for c in cond],
                               forwards=[(fw.callee['qn'] if fw.callee else fw.call.get('qn')) for fw in fws]))
            # branch parameters are used only as conditions
            for fw in fws:
                for (slot, idx, root, path, kind) in fw.bindings:
                    if kind == 'param' and root in m.branch_params:
                        ctx.ob('R-WRAP/W2', False, 'W2cond|%s|%s' % (name, root), loc_str(fw.call),
                               'wrapper %s forwards its branch parameter %s as an argument' % (name, root), cfg=cfg)
        # result faithfully returned
        rett = f['ret']
        if rett and rett.get('k') != 'void':
            for cond in m.paths():
                rs = [r for r in m.returns if cond[:len(r[0])] == r[0]]
                ctx.ob('R-WRAP/W1', len(rs) == 1 and rs[0][1] in ('call', 'const'), 'W1ret|' + name, site,
                       'non-void wrapper %s does not return the forwarded result on path %s' % (name, cond), cfg=cfg)
        # W3 crossed names
        for fw in m.forwards:
            if not fw.callee:
                continue
            cnames = [p['name'] for p in fw.callee['params']]
            for (slot, idx, root, path, kind) in fw.bindings:
                if kind != 'param' or idx < 0:
                    continue
                if root in cnames and cnames.count(root) == 1 and slot != root:
                    # the wrapper's `root` is passed to callee parameter `slot`, though the callee has a
                    # parameter literally called `root`
                    other = [b for b in fw.bindings if b[0] == root]
                    ctx.ob('R-WRAP/W3', False, 'W3|%s|%s->%s' % (name, root, slot), loc_str(fw.call),
                           'wrapper %s passes its parameter `%s` as callee parameter `%s` of %s, while `%s` receives %s'
                           % (name, root, slot, fw.callee['qn'], root, other and other[0][2]), cfg=cfg)
                else:
                    ctx.ob('R-WRAP/W3', True, '', '', '', cfg=cfg)
        # polarity of `compressed`
        bys = {}
        for fw in m.forwards:
            for (p, val) in fw.cond:
                bys.setdefault(p, {}).setdefault(val, []).append(('fw', fw))
        for r in m.returns:
            if r[1] == 'const':
                for (p, val) in r[0]:
                    bys.setdefault(p, {}).setdefault(val, []).append(('const', r[3]))
        for p, arms in bys.items():
            t = arms.get(True, [])
            e = arms.get(False, [])
            ok = len(t) == len(e) and len(t) >= 1
            msg = ''
            if ok:
                for x, y in zip(t, e):
                    if x[0] != y[0]:
                        ok = False
                        msg = 'arms differ in kind'
                        break
                    if x[0] == 'fw':
                        a, b = template_polarity(x[1], y[1])
                    else:
                        a, b = x[1].get('g'), y[1].get('g')
                    ta = re.findall(r'\btrue\b|\bfalse\b', a)
                    tb = re.findall(r'\btrue\b|\bfalse\b', b)
                    sa = re.sub(r'\btrue\b|\bfalse\b', '@', a)
                    sb = re.sub(r'\btrue\b|\bfalse\b', '@', b)
                    diff = [(u, v) for u, v in zip(ta, tb) if u != v]
                    if sa != sb or len(ta) != len(tb) or not diff or any(d != ('true', 'false') for d in diff):
                        ok = False
                        msg = '`%s` true-arm uses %s, false-arm uses %s' % (p, a, b)
                        break
            else:
                msg = 'arms of `%s` have different numbers of forwards' % p
            ctx.ob('R-WRAP/polarity', ok, 'polarity|%s|%s' % (name, p), site,
                   'wrapper %s: %s (the true arm must instantiate <true>, the false arm <false>, and nothing else '
                   'may differ)' % (name, msg), cfg=cfg,
                   sample=dict(wrapper=name, param=p, true_arm=[(x[1].callee['qn'] if x[0] == 'fw' and x[1].callee
                                                                 else None) for x in t]))
    # W4 sibling agreement
    def signature(m):
        """(callee unqualified names, permutation of wrapper param positions per slot) for each path"""
        out = []
        for cond in sorted(m.paths()):
            fws = [fw for fw in m.forwards if cond[:len(fw.cond)] == fw.cond]
            sig = []
            for fw in fws:
                perm = tuple((idx, m.params.index(root) if root in m.params else None, path)
                             for (slot, idx, root, path, kind) in fw.bindings)
                sig.append((fw.callee['name'] if fw.callee else fw.call.get('name'), perm))
            out.append((tuple(c[1] for c in cond), tuple(sig)))
        return tuple(out)

    byname = {m.fn['name']: m for m in models if not m.errors}
    fam = 0
    # g1_X <-> g2_X, g1affine_X <-> g2affine_X
    for name, m in sorted(byname.items()):
        mm = re.match(r'(.*_)g1(affine)?_(\w+)$', name)
        if not mm:
            continue
        sib = '%sg2%s_%s' % (mm.group(1), mm.group(2) or '', mm.group(3))
        if sib not in byname:
            continue
        fam += 1
        ok = signature(m) == signature(byname[sib])
        ctx.ob('R-WRAP/W4', ok, 'W4|%s|%s' % (name, sib), loc_str(byname[sib].fn),
               'sibling wrappers %s and %s forward differently: %s vs %s' % (name, sib, signature(m),
                                                                            signature(byname[sib])), cfg=cfg,
               sample=dict(pair=[name, sib], signature=str(signature(m))[:200]))
    # <module>_<type>_<op> families: same op across types forwards to the same-named member with the same permutation
    ops = {}
    for name, m in sorted(byname.items()):
        mm = re.match(r'embedded_pairing_(wkdibe|lqibe)_(\w+?)_(marshal|unmarshal|get_marshalled_length|set_length|'
                      r'unmarshalled_length|marshalled_length)$', name)
        if mm:
            ops.setdefault(mm.group(3), []).append((name, m))
    for op, lst in sorted(ops.items()):
        # group by parameter count (fixed-size objects have no object parameter in get_marshalled_length)
        groups = {}
        for name, m in lst:
            groups.setdefault(len(m.params), []).append((name, m))
        for n, g in groups.items():
            ref_name, ref = g[0]
            for name, m in g[1:]:
                fam += 1
                sa, sb = signature(ref), signature(m)
                # compare callee names + permutation, ignoring member-variable-template constants
                ok = sa == sb
                ctx.ob('R-WRAP/W4', ok, 'W4|%s|%s' % (ref_name, name), loc_str(m.fn),
                       'family `%s`: %s and %s forward differently: %s vs %s' % (op, ref_name, name, sa, sb), cfg=cfg)
    ctx.count('sibling_pairs[%s]' % cfg, fam)
    # W5 injectivity
    seen = {}
    for m in models:
        if m.errors:
            continue
        for cond in m.paths():
            fws = [fw for fw in m.forwards if cond[:len(fw.cond)] == fw.cond]
            consts_ = [r[3].get('g') for r in m.returns if r[1] == 'const' and cond[:len(r[0])] == r[0]]
            key = (tuple((fw.callee['key'] if fw.callee else fw.call.get('f'),
                          tuple((idx, m.params.index(root) if root in m.params else None, path)
                                for (slot, idx, root, path, kind) in fw.bindings),
                          (fw.call.get('this') or {}).get('t', {}).get('s')) for fw in fws), tuple(consts_))
            if not key[0] and not key[1]:
                continue
            prev = seen.get(key)
            ok = prev is None or prev == m.fn['name']
            ctx.ob('R-WRAP/W5', ok, 'W5|%s|%s' % (prev, m.fn['name']), loc_str(m.fn),
                   'wrappers %s and %s are bound to the same operation with the same argument order (%s)' % (
                       prev, m.fn['name'], [k[0] for k in key[0]] or key[1]), cfg=cfg)
            seen.setdefault(key, m.fn['name'])
    return len(ws)


def run(ctx):
    ctx.explanation = EXPL
    ctx.level = 'other'
    ctx.assumptions = ['Go bindings (lang/go) are not analysed: no Go front end in the image',
                       'the C++ operations the wrappers forward to are correct (decided, where decidable, by the '
                       'other properties)']
    progs = ctx.programs()
    for cfg, prog in progs.items():
        npairs = rule_layout(ctx, cfg, prog)
        ctx.floor('R-LAYOUT pairs[%s]' % cfg, npairs, 20)
        nw = rule_wrap(ctx, cfg, prog)
        ctx.floor('R-WRAP wrappers[%s]' % cfg, nw, 100)
        consts.rule_xconst(ctx, cfg, prog)
