"""C20 - the core library is self-contained, stateless and re-entrant.
R-EFFECT: (symbols) undefined symbols of every object; (state) every memory write classified by the root of its
pointer on mem2reg'd -O0 LLVM IR; (escape) mutable globals are only ever read, on the type-checked AST;
(indirect) indirect calls only through callback parameters or the load-time dispatch table; (asm) assembly
objects contain only text, reference no external symbol and contain no trap/syscall instruction."""
import os
import re
from .. import ir as irmod
from .. import buildmodel as bm
from ..facts import walk, loc_str, strip

EXPL = ('Decides, for every object of every analysis configuration built with the Makefile\'s own flags (compiled, never '
        'linked or run): the undefined-symbol set is inside {C memory primitives, compiler arithmetic helpers, symbols '
        'defined by another object of the library}; on the mem2reg\'d IR of every function, every store/memcpy/memset/'
        'atomic destination is rooted in the function\'s own stack or in memory reachable from its arguments, except '
        'inside static-initialisation functions, which may write only the CPU-dispatch variables and const-qualified '
        'objects being initialised; on the AST, every use of a non-const global is a read, no function-local static or '
        'thread_local exists; indirect calls go only through callback parameters or the dispatch table. Re-entrancy '
        'argument: with no shared writable state after load, calls on distinct output objects commute, so every '
        'interleaving equals a sequential order (interleavings are discharged, not explored).')

MEM_PRIMS = {'memset', 'memcpy', 'memmove', 'memcmp', 'bcmp'}
HELPER_RE = re.compile(r'^(__(u?div|u?mod|mul|ashl|ashr|lshr|u?divmod)[sdt]i[34]|__aeabi_(uldivmod|ldivmod|lmul|llsl|llsr|lasr|'
                       r'uidiv|uidivmod|idiv|idivmod|memcpy[48]?|memset[48]?|memmove[48]?|memclr[48]?)|__clz[sd]i2|__ctz[sd]i2|__popcount[sd]i2)$')
# Not calls: personality-routine references the ARM EHABI unwind tables (.ARM.exidx) carry when a C++ compiler emits
# unwind information; part of the compiler run-time ABI (libgcc/compiler-rt), never executed unless an exception
# propagates, and the library throws none.
ABI_TABLE_REFS = re.compile(r'^__aeabi_unwind_cpp_pr[012]$')
DEF_TYPES = set('TtDdBbRrVvWwCcSs')
OK_ROOTS = {'stack', 'arg', 'loaded:stack', 'loaded:arg', 'null', 'undef'}
FORBIDDEN_INSN = re.compile(r'\b(syscall|sysenter|int\s+\$|int3|svc|hvc|smc|hlt|in[bwl]?\s|out[bwl]?\s|wrmsr|rdmsr|cli|sti)\b')


def is_init_fn(name, section):
    return name.startswith('__cxx_global_var_init') or name.startswith('_GLOBAL__sub_I_') or name.startswith('__cxx_global_array_dtor')


def rule_symbols(ctx, cfg, built):
    defined = set()
    assumed_asm = set()
    for u in built['cpp'] + built['asm']:
        for (t, s) in u.get('syms', []):
            if t in DEF_TYPES:
                defined.add(s)
    for u in built['asm']:
        if 'asm_error' in u:
            g, ext = irmod.asm_globals_from_source(os.path.join(bm.REPO, u['src']))
            assumed_asm |= g
            defined |= g
            u['assumed_defs'] = g
            u['assumed_ext'] = ext
    nobj = 0
    for u in built['cpp']:
        nobj += 1
        und = sorted(s for (t, s) in u['syms'] if t == 'U')
        # attribute a symbol to the IR functions that call it
        callers = {}
        for f in u['ir']['functions']:
            for c in f.get('calls', []):
                callers.setdefault(c['callee'], []).append(f['name'])
        bad = []
        for s in und:
            if s in defined or s in MEM_PRIMS or HELPER_RE.match(s) or ABI_TABLE_REFS.match(s):
                continue
            bad.append(s)
        ctx.ob('R-EFFECT/symbols', not bad, 'symbols|%s|%s' % (u['src'], ','.join(bad)), u['src'],
               'object of %s references external symbol(s) %s (referenced from: %s) in %s' % (
                   u['src'], bad, {b: callers.get(b, ['<codegen>'])[:3] for b in bad}, cfg), cfg=cfg,
               sample=dict(config=cfg, object=u['src'], undefined=len(und),
                           external=[s for s in und if s not in defined]))
    for u in built['asm']:
        nobj += 1
        if 'asm_error' in u:
            ext = sorted(s for s in u['assumed_ext'] if s not in defined)
            ctx.ob('R-EFFECT/asm', not ext, 'asmext|%s' % u['src'], u['src'],
                   'assembly source %s branches to symbol(s) not defined by the library: %s' % (u['src'], ext), cfg=cfg,
                   sample=dict(config=cfg, source=u['src'], not_assembled=True, exported=sorted(u['assumed_defs'])[:4]))
            continue
        und = sorted(s for (t, s) in u['syms'] if t == 'U' and s not in defined)
        ctx.ob('R-EFFECT/asm', not und, 'asmext|%s' % u['src'], u['src'],
               'assembly object %s references external symbol(s) %s' % (u['src'], und), cfg=cfg)
        # sections: only text may have contents
        badsec = []
        for line in u['sections'].splitlines():
            m = re.match(r'\s*\d+\s+(\S+)\s+([0-9a-f]+)\s+[0-9a-f]+\s*(\S*)', line)
            if m and int(m.group(2), 16) > 0 and m.group(3) in ('DATA', 'BSS'):
                badsec.append(m.group(1))
        ctx.ob('R-EFFECT/asm', not badsec, 'asmdata|%s' % u['src'], u['src'],
               'assembly object %s has non-empty data section(s) %s' % (u['src'], badsec), cfg=cfg)
        hits = [l.strip() for l in u['disasm'].splitlines() if FORBIDDEN_INSN.search(l.split('\t', 1)[-1] if '\t' in l else '')]
        ctx.ob('R-EFFECT/asm', not hits, 'asminsn|%s' % u['src'], u['src'],
               'assembly object %s contains privileged/trap/IO instruction(s): %s' % (u['src'], hits[:3]), cfg=cfg,
               sample=dict(config=cfg, object=u['src'], instructions=len(u['disasm'].splitlines())))
    return nobj, assumed_asm


def rule_state(ctx, cfg, built, prog):
    # E1 knowledge about globals, by linker symbol
    ast_by_sym = {}
    for g in prog.globals.values():
        if g.get('sym'):
            ast_by_sym[g['sym']] = g
    nfun = nwrites = 0
    listed = set()
    for u in built['cpp']:
        irm = u['ir']
        gdefs = {g['name']: g for g in irm['globals']}
        for g in irm['globals']:
            if g.get('thread_local'):
                ctx.ob('R-EFFECT/state', False, 'tls|' + g['name'], u['src'], 'thread-local variable %s in %s' % (g['name'], u['src']), cfg=cfg)
            if not g['declaration'] and not g['constant'] and not g['name'].startswith('llvm.'):
                listed.add(g['name'])
        for f in irm['functions']:
            if f['declaration']:
                continue
            nfun += 1
            init = is_init_fn(f['name'], f.get('section', ''))
            for w in f['writes']:
                nwrites += 1
                where = '%s:%s' % ((w.get('dbg') or {}).get('file', u['src']), (w.get('dbg') or {}).get('line', '?'))
                bad = []
                for r in w['roots']:
                    kind, name = r['kind'], r['name']
                    if kind in OK_ROOTS or kind.startswith('loaded:loaded:'):
                        if kind.startswith('loaded:loaded:'):
                            # normalise nested loads
                            inner = 'loaded:' + kind.split(':')[-1]
                            if inner in OK_ROOTS:
                                continue
                        else:
                            continue
                    if init and kind == 'global':
                        a = ast_by_sym.get(name)
                        src_file = (a or {}).get('l', ('',))[0]
                        if name.startswith('_ZGV'):
                            continue            # guard byte of a template static being initialised
                        if a is not None and a.get('const'):
                            continue            # load-time constant (const-qualified object, dynamic initialiser)
                        if a is not None and '/arch/' in src_file and src_file.startswith('src/core/arch/'):
                            continue            # CPU-dispatch table, written once at load time
                    bad.append('%s(%s)' % (kind, name))
                ctx.ob('R-EFFECT/state', not bad, 'write|%s|%s' % (f['name'], ','.join(sorted(set(bad)))), where,
                       'function %s writes memory rooted at %s (%s) - neither its own stack nor argument-reachable memory%s' % (
                           f['name'], bad, w['op'], ' (static initialiser may only write dispatch variables / const objects)' if init else ''),
                       cfg=cfg, sample=dict(config=cfg, function=f['name'], op=w['op'], roots=[r['kind'] for r in w['roots']]))
            for ic in f['icalls']:
                if ic.get('inline_asm'):
                    ctx.ob('R-EFFECT/indirect', False, 'inlineasm|' + f['name'], u['src'], 'inline assembly in %s' % f['name'], cfg=cfg)
                    continue
                bad = []
                for r in ic['roots']:
                    kind, name = r['kind'], r['name']
                    if kind == 'arg':
                        continue
                    if kind == 'loaded:global':
                        a = ast_by_sym.get(name)
                        if a is not None and a['l'][0].startswith('src/core/arch/'):
                            continue
                    bad.append('%s(%s)' % (kind, name))
                where = '%s:%s' % ((ic.get('dbg') or {}).get('file', u['src']), (ic.get('dbg') or {}).get('line', '?'))
                ctx.ob('R-EFFECT/indirect', not bad, 'icall|%s|%s' % (f['name'], ','.join(bad)), where,
                       'indirect call in %s through %s: only callback parameters and the dispatch table are allowed' % (f['name'], bad),
                       cfg=cfg, sample=dict(config=cfg, function=f['name'], through=[r['kind'] + ':' + r['name'] for r in ic['roots']]))
    ctx.count('ir_functions[%s]' % cfg, nfun)
    ctx.count('ir_writes_classified[%s]' % cfg, nwrites)
    ctx.notes.append('%s: writable globals that exist (listed, written only at load time or never): %s' % (cfg, sorted(listed)))
    return nwrites


def with_parents(root):
    """yield (node, parent chain list) over expression/statement trees"""
    stack = [(root, [])]
    from ..facts import CHILD_KEYS
    while stack:
        n, par = stack.pop()
        if isinstance(n, dict):
            yield n, par
            for k in CHILD_KEYS:
                v = n.get(k)
                if isinstance(v, dict):
                    stack.append((v, par + [(n, k)]))
                elif isinstance(v, list):
                    for i, x in enumerate(v):
                        if isinstance(x, dict):
                            stack.append((x, par + [(n, (k, i))]))


def use_is_read(prog, fn, node, par):
    """Is this reference to a mutable global a pure read?  Walk up through member/index/decay; accept a load,
    a const-bound argument, `this` of a const method; reject writes, non-const bindings, address escapes."""
    cur = node
    for (p, key) in reversed(par):
        k = p.get('k')
        if k == 'load':
            return True, 'read'
        if k in ('member', 'index') and key in ('base',):
            cur = p
            continue
        if k == 'index' and isinstance(key, str) and key == 'idx':
            return True, 'index value'
        if k == 'cast':
            if p.get('ck') in ('ArrayToPointerDecay', 'NoOp', 'DerivedToBase', 'UncheckedDerivedToBase', 'BitCast'):
                t = p.get('t') or {}
                pt = t.get('pointee') or {}
                if p.get('ck') == 'NoOp' and pt and pt.get('const'):
                    # qualification conversion to pointer-to-const
                    cur = p
                    continue
                cur = p
                continue
            cur = p
            continue
        if k == 'un' and p.get('op') == '&':
            cur = p
            continue
        if k == 'un' and p.get('op') in ('++', '--'):
            return False, 'incremented'
        if k == 'assign':
            if key == 'lhs':
                return False, 'assigned'
            return None, 'address stored'
        if k == 'call':
            callee = prog.callee(p, fn)
            if key == 'this':
                if callee is not None and callee.get('const_method'):
                    return True, 'this of const method'
                return False, 'object of non-const member call %s' % p.get('qn')
            if isinstance(key, tuple) and key[0] == 'args':
                i = key[1]
                if callee is not None and i < len(callee['params']):
                    pp = callee['params'][i]
                    if pp.get('indirect') and pp.get('pointee_const'):
                        return True, 'const argument'
                    if not pp.get('indirect'):
                        return True, 'by-value argument'
                    return False, 'bound to non-const parameter %s of %s' % (pp['name'], callee['qn'])
                if p.get('name') in ('memcmp',):
                    return True, 'memcmp'
                if p.get('name') in ('memcpy', 'memmove') and i == 1:
                    return True, 'copy source'
                return False, 'argument of unresolved call %s' % p.get('name')
        if k == 'icall':
            if key == 'fn':
                return True, 'called through'
            return False, 'argument of indirect call'
        if k in ('bin', 'cond', 'un', 'return', 'expr', 'decl', 'if', 'while', 'for', 'do', 'initlist', 'copyctor'):
            if k == 'copyctor':
                return True, 'copied from'
            return None, 'value context %s' % k
        return None, 'context %s' % k
    return None, 'top'


def rule_escape(ctx, cfg, prog):
    mutable = {}
    for gid, g in prog.globals.items():
        if not g['l'][0].startswith(('src/', 'include/')):
            continue
        t = g['t']
        if g.get('const') or t.get('k') == 'ref' or t.get('const'):
            continue
        if g.get('static_local'):
            continue
        mutable[gid] = g
    for gid, g in prog.globals.items():
        if g.get('static_local') and g['l'][0].startswith(('src/', 'include/')):
            t = g['t']
            ok = bool(t.get('const')) and not g.get('tls')
            ctx.ob('R-EFFECT/escape', ok, 'staticlocal|' + gid, loc_str(g),
                   'function-local static %s is mutable shared state (and needs a guard)' % gid, cfg=cfg)
        if g.get('tls'):
            ctx.ob('R-EFFECT/escape', False, 'tls|' + gid, loc_str(g), 'thread_local variable %s' % gid, cfg=cfg)
    ctx.count('mutable_globals[%s]' % cfg, len(mutable))
    uses = 0
    for f in prog.functions.values():
        if 'body' not in f or not f['l'][0].startswith(('src/', 'include/')):
            continue
        for n, par in with_parents(f['body']):
            if n.get('k') == 'ref' and n.get('rk') in ('global', 'staticlocal') and n.get('g') in mutable:
                uses += 1
                verdict, why = use_is_read(prog, f, n, par)
                ctx.ob('R-EFFECT/escape', verdict is True, 'escape|%s|%s' % (f['qn'], n['g']), loc_str(n),
                       'mutable global %s is not merely read in %s: %s' % (n['g'], f['qn'], why), cfg=cfg,
                       sample=dict(config=cfg, function=f['qn'], var=n['g'], use=why))
            if n.get('k') == 'decl':
                for v in n['vars']:
                    if v.get('static') and not (v['t'] or {}).get('const'):
                        ctx.ob('R-EFFECT/escape', False, 'staticlocal|%s|%s' % (f['qn'], v['name']), loc_str(n),
                               'function-local static `%s` in %s is mutable shared state' % (v['name'], f['qn']), cfg=cfg)
                    if v.get('tls'):
                        ctx.ob('R-EFFECT/escape', False, 'tls|%s|%s' % (f['qn'], v['name']), loc_str(n),
                               'thread_local `%s` in %s' % (v['name'], f['qn']), cfg=cfg)
    return uses


def rule_const_inputs(ctx, cfg, prog):
    """an object handed in through a pointer / reference to const is not state the routine may keep: no data member of a library
    record is `mutable`, and no library cast removes const from a pointee (the two ways to write into a const input)"""
    n = 0
    for name, rec in sorted(prog.records.items()):
        if not name.startswith('embedded_pairing::'):
            continue
        for fld in rec.get('fields') or []:
            n += 1
            ctx.ob('R-EFFECT/const', not fld.get('mutable'), 'mutable|%s|%s' % (name, fld['name']), name,
                   '%s::%s is declared mutable: a routine that receives the object as a const input can keep state in it between (and during) '
                   'calls; two evaluations that share the input then interfere' % (name, fld['name']), cfg=cfg)
    for f in prog.functions.values():
        if 'body' not in f or not f['l'][0].startswith(('src/', 'include/')):
            continue
        for x, par in with_parents(f['body']):
            if x.get('k') != 'cast' or x.get('ck') not in ('NoOp', 'BitCast', 'ConstCast', None):
                continue
            # a pointer that is only dereferenced and read is harmless: climb through *, [], ., casts up to the load
            only_read = False
            for (pn, key) in reversed(par):
                pk = pn.get('k')
                if pk == 'load':
                    only_read = True
                    break
                if pk in ('cast', 'member', 'paren') or (pk == 'un' and pn.get('op') == '*') or (pk == 'index' and key == 'base'):
                    continue
                break
            if only_read:
                continue
            dt, st_ = (x.get('t') or {}), ((x.get('e') or {}).get('t') or {})
            if dt.get('k') not in ('ptr', 'ref') or st_.get('k') not in ('ptr', 'ref'):
                continue
            dp, sp = dt.get('pointee') or {}, st_.get('pointee') or {}
            if sp.get('const') and not dp.get('const') and dp.get('k') != 'void' and (dp.get('size') or 0) > 0:
                n += 1
                ctx.ob('R-EFFECT/const', False, 'constcast|%s|%s' % (f['qn'][:90], loc_str(x)), loc_str(x),
                       '%s casts away const (%s -> %s): the result can be used to write into an input object' % (f['qn'], st_.get('s'), dt.get('s')), cfg=cfg)
    return n


def run(ctx):
    ctx.explanation = EXPL
    ctx.level = 'proof'
    ctx.trusted_base = ['clang 14 (front end, -O0 IR generation, code generation with the Makefile flags)', 'opt-14 mem2reg',
                        'llvm-nm-14 / llvm-objdump-14', 'jpir root classifier', 'jpfacts + jpv escape rule']
    ctx.assumptions = ['the caller-supplied randomness/hash callbacks are themselves re-entrant',
                       'ARMv6-M assembly: exported / branched-to symbols are read from the source directives; the bodies are interpreted by R-WORDALG (C02/C03) and touch only their arguments and their own frame',
                       'objects are built with clang (the Makefile default); arm-none-eabi-g++ code generation may reference different libgcc helpers']
    cfgs = ctx.configs()
    progs = ctx.programs(cfgs)
    irdir = os.path.join(ctx.outdir, 'ir')
    try:
        for cfg in cfgs:
            built = irmod.build(cfg, irdir)
            nobj, assumed = rule_symbols(ctx, cfg, built)
            ctx.floor('objects[%s]' % cfg, nobj, 17)
            nw = rule_state(ctx, cfg, built, progs[cfg])
            ctx.floor('IR writes classified[%s]' % cfg, nw, 200)
            nu = rule_escape(ctx, cfg, progs[cfg])
            nc = rule_const_inputs(ctx, cfg, progs[cfg])
            ctx.floor('R-EFFECT/const data members examined[%s]' % cfg, nc, 60)
            ctx.count('mutable_global_uses[%s]' % cfg, nu)
    finally:
        import shutil
        if not os.environ.get('JPV_KEEP_FACTS'):
            shutil.rmtree(irdir, ignore_errors=True)
