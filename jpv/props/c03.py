"""C03 - all back ends compute the same function (partial claim: sibling agreement of interface, forwarding, footprints)."""
import os
from .. import asmcheck
from .. import buildmodel as bm
from .. import pathrules as pr
from ..facts import walk, strip, loc_str, strip_tmpl

EXPL = ('(R-WORDALG/c++) the portable C++ routines are proven against the same specification polynomials in all five configurations (64-bit and 32-bit words), so portable and assembly back ends agree for all operands; (R-NOWRAP) no unobserved wrap in the portable layer. (R-WORDALG) every x86-64 baseline, x86-64 BMI2/ADX and AArch64 routine is proven, by word-level algebraic value numbering, to compute the same specification polynomial for all operands and admitted aliasing patterns (see C02), so these three back ends agree bit for bit including returned carries; genuine defect D10 (baseline x86-64 square dropped the doubling carry for operands with large top words) was found by this rule and repaired. Partial claim. Bit-equality of the assembly routines and the portable code over 2^768 inputs is a numerical '
        'equivalence and is NOT decided (it needs execution or a solver). Decided are necessary conditions of agreement '
        'between sibling implementations of one interface: (R-SIBLING/spec) every architecture specialisation of a BigInt/'
        'FpBase member has exactly the parameter types, const- and __restrict-qualifiers of the generic member it replaces '
        'and forwards `this` and its parameters, in order, to one assembly routine, returning its result; (R-SIBLING/asm, '
        'x86-64 and AArch64) each routine writes every byte of its output object on every path to every ret, reads every '
        'byte of each input object on some path and nothing outside, and sets the return register on every path when the '
        'C++ prototype returns the carry/borrow; (R-SIBLING/dispatch) each run-time dispatch pointer selects between two '
        'routines of identical prototype whose footprints agree. The ARMv6-M routines are decided too, on the disassembly of the sources after a mechanical divided-to-unified syntax rewrite (thumbconv.py, trusted).'
        ' (R-WORDALG, ARMv6-M) the Thumb routines compute the same specifications (32-bit words; fused routines up to the C++ reduce trampoline) and have the footprints of their C++ twins.')


def generic_of(prog_port, f):
    """the generic (portable) instantiation with the same qualified name"""
    cands = [g for g in prog_port.functions.values() if g['qn'] == f['qn'] and 'body' in g and '/arch/' not in g['l'][0]]
    return cands[0] if cands else None


def sig(f):
    return [p['t']['s'].replace(' &__restrict', ' &').replace('__restrict', '').strip() for p in f['params']], f['ret']['s'], bool(f.get('const_method'))


def restricts(f):
    return [bool(p.get('restrict')) for p in f['params']]


def obj_of(e):
    """canonical object an argument designates; a member at offset 0 (e.g. `a.words` decayed) is the object itself"""
    x = e
    while isinstance(x, dict) and x.get('k') in ('cast', 'load'):
        x = x['e']
    if isinstance(x, dict) and x.get('k') == 'un' and x.get('op') == '&':
        x = x['e']
    while isinstance(x, dict) and x.get('k') == 'cast':
        x = x['e']
    if isinstance(x, dict) and x.get('k') == 'member' and x.get('off') == 0:
        x = x['base']
    return pr.norm_obj(pr.canon(x)).lstrip('&')


def run(ctx):
    ctx.explanation = EXPL
    ctx.level = 'other'
    ctx.assumptions = ['value-level agreement is decided for the x86-64, AArch64 and ARMv6-M assembly and the portable C++ code (64- and 32-bit words)',
                       'ARMv6-M: the sources are in pre-UAL Thumb syntax, which clang cannot assemble; they are rewritten to unified syntax by jpv/thumbconv.py (flag-setting forms for low-register data processing, as GNU as defines divided syntax) and the disassembly of the result is interpreted; `mov lo, lo` is treated as leaving the flags unknown, which covers both encodings GNU as may choose; the fused routines are decided up to their call of the C++ reduce trampoline, whose callee FpBase<384>::reduce is decided by R-WORDALG/c++']
    cfgs = ctx.configs()
    ctx.add_extra_unit(os.path.join(bm.VERIF, 'fixtures', 'instantiate_all.cpp'))
    progs = ctx.programs(cfgs)
    pairs = [('x64-asm', 'x64-port'), ('m0-asm', 'm0-port'), ('a64-asm', 'x64-port')]
    pairs = [p for p in pairs if p[0] in cfgs and p[1] in cfgs]
    from .. import asmsem
    from .. import cppword
    from .. import nowrap
    for c in cfgs:
        nowrap.rule_nowrap(ctx, c, progs[c])
        wc = cppword.rule_wordalg_cpp(ctx, c, progs[c])
        ctx.floor('R-WORDALG/c++ routine x aliasing instances[%s]' % c, wc, 35)
        wa = asmsem.rule_wordalg(ctx, c, os.path.join(ctx.outdir, 'asm'))
        from .. import thumbsem
        wt = thumbsem.rule_wordalg_thumb(ctx, c, os.path.join(ctx.outdir, 'asm'), prog=progs[c])
        if c == 'm0-asm':
            ctx.floor('R-WORDALG routine x aliasing instances[%s]' % c, wt, 18)
        if c == 'x64-asm':
            ctx.floor('R-WORDALG routine x aliasing instances[%s]' % c, wa, 25)
    total_specs = 0
    for (ca, cp) in pairs:
        pa, pp = progs[ca], progs[cp]
        specs = [f for f in pa.functions.values() if 'body' in f and f.get('method') and f['l'][0].startswith('include/core/arch/')]
        ctx.floor('architecture specialisations[%s]' % ca, len(specs), 8)
        for f in sorted(specs, key=lambda f: f['qn']):
            total_specs += 1
            g = generic_of(pp, f)
            name = f['qn'].replace('embedded_pairing::core::', '')
            if g is None:
                ctx.ob('R-SIBLING/spec', False, 'spec|generic|' + name, loc_str(f),
                       '%s specialises a member that has no generic definition in the portable configuration' % f['qn'], cfg=ca)
                continue
            narrower = [p['name'] for p, rs, rg in zip(f['params'], restricts(f), restricts(g)) if rs and not rg]
            ctx.ob('R-SIBLING/spec', sig(f) == sig(g) and not narrower, 'spec|signature|' + name, loc_str(f),
                   '%s: the %s specialisation has signature %s, the generic member %s%s' % (
                       f['qn'], ca, sig(f), sig(g), ('; it marks %s __restrict although the generic member admits aliasing there' % narrower) if narrower else ''),
                   cfg=ca, sample=dict(config=ca, member=name, signature=str(sig(f))[:160]))
            # forwarding shape: one call, (this, &p0, &p1, ..., value params) in order, result returned
            cs = [c for c in pr.calls(f['body'])] + [x for x in walk(f['body']) if x.get('k') == 'icall']
            ok = len(cs) == 1
            why = 'body is not a single forwarding call'
            if ok:
                c = cs[0]
                args = [obj_of(a) for a in c.get('args', [])]
                want = ['this'] + ['P:' + p['name'] for p in f['params']]
                ok = args == want
                why = 'arguments %s, expected %s' % (args, want)
                if ok and f['ret'].get('k') != 'void':
                    rets = [x for x in walk(f['body']) if x.get('k') == 'return']
                    ok = len(rets) == 1 and rets[0].get('e') is not None and any(y is c for y in walk(rets[0]['e']))
                    why = 'the routine\'s result is not returned'
            ctx.ob('R-SIBLING/spec', ok, 'spec|forward|' + name, loc_str(f), '%s: %s' % (f['qn'], why), cfg=ca)
        # assembly side
        arch = bm.configs()[ca]['arch']
        if arch not in ('x86_64', 'aarch64', 'armv6_m'):
            continue
        tbl = asmcheck.build_tables(ca, os.path.join(ctx.outdir, 'asm'))
        leaves = asmcheck.extern_leaves(pa)
        retreg = {'x86_64': 'rax', 'aarch64': 'x0', 'armv6_m': 'r0'}[arch]
        facts = {}
        names = set(n for n in leaves if n in tbl)
        ctx.floor('assembly routines bound to C++ members[%s]' % ca, len(names), 8)
        for name in sorted(names):
            stub, ext, sites = leaves[name]
            R = asmcheck.routine(tbl, name)
            must, retw, reads = asmcheck.must_facts(R, 0, retreg)
            facts[name] = (len(must), {k: len(v) for k, v in reads.items()})
            short = name.replace('embedded_pairing_core_arch_', '')
            e0 = ext[0] if ext else None
            flow = [p_ for p_ in R.problems if 'conditional jump' in p_ or 'backward branch' in p_ or 'indirect' in p_]
            ctx.ob('R-SIBLING/asm', not flow, 'asm|deadarm|' + short, name, '%s: %s' % (name, '; '.join(flow[:2])), cfg=ca)
            ctx.ob('R-SIBLING/asm', e0 is not None and must == set(range(e0)), 'asm|mustwrite|' + short, name,
                   '%s writes %d of the %s bytes of its output object on every path (an unwritten byte keeps stale data: the result '
                   'would differ from the portable code)' % (name, len(must), e0), cfg=ca,
                   sample=dict(config=ca, routine=short, output_bytes=e0, must_write=len(must), reads={k: len(v) for k, v in reads.items()}))
            # inputs: const pointer parameters are read completely, nothing else
            cparams = stub.get('params') or []
            for k, e in enumerate(ext):
                if k == 0 or e is None:
                    continue
                is_const = cparams[k].get('pointee_const') if k < len(cparams) else True
                got = reads.get(k, set())
                if is_const:
                    ctx.ob('R-SIBLING/asm', got == set(range(e)), 'asm|reads|%s|%d' % (short, k), name,
                           '%s reads %d of the %d bytes of input argument %d (an unread byte cannot influence the result, unlike in the '
                           'portable code)' % (name, len(got), e, k), cfg=ca)
            # returned flag
            rett = stub.get('ret') or {}
            if rett and rett.get('k') not in (None, 'void'):
                ctx.ob('R-SIBLING/asm', retw, 'asm|retval|' + short, name,
                       '%s: the C++ side uses the returned carry/borrow but %s is not written on every path to ret' % (name, retreg), cfg=ca)
        # dispatch table
        for gid, gl in sorted(pa.globals.items()):
            if 'init' not in gl or (gl['t'] or {}).get('k') != 'fnptr' or not gl['l'][0].startswith('src/core/arch/'):
                continue
            tg = [x for x in walk(gl['init']) if x.get('k') == 'ref' and x.get('rk') == 'func']
            conds = [x for x in walk(gl['init']) if x.get('k') == 'cond']
            ok = len(tg) == 2 and len(conds) == 1
            why = 'initialiser is not `flag ? routine_a : routine_b`'
            if ok:
                a, b = tg[0]['name'], tg[1]['name']
                ok = a.replace('_bmi2_adx', '') == b.replace('_bmi2_adx', '') and a != b
                why = 'the alternatives %s / %s are not two versions of one routine' % (a, b)
                if ok:
                    ok = tg[0]['t']['s'] == tg[1]['t']['s']
                    why = 'the alternatives have different prototypes'
                if ok and a in tbl and b in tbl:
                    for nm in (a, b):
                        if nm not in facts:
                            R = asmcheck.routine(tbl, nm)
                            must, retw, reads = asmcheck.must_facts(R, 0, retreg)
                            facts[nm] = (len(must), {k: len(v) for k, v in reads.items()})
                    ok = facts[a] == facts[b]
                    why = 'footprints differ: %s vs %s' % (facts[a], facts[b])
            ctx.ob('R-SIBLING/dispatch', ok, 'dispatch|' + gl['name'], loc_str(gl), '%s: %s' % (gid, why), cfg=ca,
                   sample=dict(config=ca, pointer=gl['name'], alternatives=[x['name'] for x in tg]))
