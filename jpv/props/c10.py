"""C10 - hash-to-scalar/curve and sampling land in the right set (partial claim)."""
from .. import reject, scalar

EXPL = ('Partial claim. Determinism/platform-independence of hash-to-curve as a function and subgroup membership of results as '
        'values are NOT decided. Decided: (R-REJECT) Fq::random / Fr::random mask the unused top bits and exit only when the '
        'sample compares below the modulus (value q resp. r); hash_reduce masks, then subtracts the modulus exactly on the '
        '>= edge, and every caller (zp_from_hash, from_hash, scalar_hash_reduce) reduces the object it just read; '
        'sample_random_generator exits its inner loop only when a validated curve point exists and its outer loop only for a '
        'non-identity cofactor-cleared result; try_and_increment steps x by one and exits only on a validated point; '
        '(R-DISPATCH) cofactor clearing and the subgroup test cannot reach the order-r-only multiplications; (R-CONST) the '
        'cofactor constants equal the curve-family polynomials in x and h1*r = #E(Fq).')


def run(ctx):
    ctx.explanation = EXPL
    ctx.level = 'other'
    ctx.assumptions = ['Legendre/square-root arithmetic is not decided']
    for cfg, prog in ctx.programs().items():
        reject.rule_field_sampling(ctx, cfg, prog)
        from .. import consts
        consts.rule_sampling_masks(ctx, cfg, prog)
        n = reject.rule_hash_reduce(ctx, cfg, prog)
        ctx.floor('hash_reduce call sites[%s]' % cfg, n, 2)
        reject.rule_point_sampling(ctx, cfg, prog)
        reject.rule_powers_of_x(ctx, cfg, prog)
        scalar.rule_dispatch(ctx, cfg, prog)
        scalar.rule_cofactors(ctx, cfg, prog)
        # hash-to-curve takes its y from get_point_from_x: the non-residue rejection and the y / -y selection are the decoder's (C09)
        from . import c09
        from .. import pathrules as pr
        gps = pr.functions_named(prog, c09.NS + 'Affine::get_point_from_x')
        ctx.floor('get_point_from_x instantiations[%s]' % cfg, len(gps), 2)
        for f in gps:
            c09.check_get_point(ctx, cfg, prog, f)
