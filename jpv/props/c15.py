"""C15 - scheme objects survive marshalling; length accounting exact (structure, lengths, rejection)."""
from .. import marshal

EXPL = ('(R-LANES) byte-lane abstract interpretation (a value is a vector of byte lanes: zero, one named source byte, or mixed; shifts by multiples of 8, byte masks, or/plus, casts, memcpy in the target byte order, helper calls inlined) shows that the four wire bytes of a free-slot index carry exactly the four bytes of idx in big-endian order and that unmarshal assembles idx from exactly those bytes - for all 2^32 index values. Value round-trip equality is NOT decided. Decided for every marshal/unmarshal pair of WKD-IBE and LQ-IBE, both '
        'encodings, signatures on/off, several slot counts: (R-FOOT) buffer pointers are tracked as offsets affine in the '
        'slot count (overlay member offsets, `encoded + 1`, `&b[i]`, nested FreeSlot/field serialisers followed); the bytes '
        'marshal writes and unmarshal reads tile exactly [0, marshalledLength(l, signatures)) with no gap, overlap or '
        'over-run; (R-PAIR) each buffer range carries the same object field in both directions through matching codecs '
        '(encode/decode, write/read_big_endian, byte stores/loads); (R-LEN) length discovery: for all 256 first-byte '
        'values the fixed part assumed equals what unmarshal will consume, the unsigned subtraction is guarded, the '
        'quotient is taken only for exact multiples of the per-slot size, setLength never stores -1; (R-MUSTCHECK) every '
        'decode/unmarshal verdict is returned or tested with the failing edge returning false, and `checked` is forwarded.')


def run(ctx):
    ctx.explanation = EXPL
    ctx.level = 'other'
    ctx.assumptions = ['point encode/decode correctness is C09\'s; equality of values after a round trip is not decided']
    for cfg, prog in ctx.programs().items():
        from .. import lanes
        nl = lanes.rule_freeslot_index(ctx, cfg, prog) + lanes.rule_bigendian_io(ctx, cfg, prog)
        ctx.floor('R-LANES byte-order routines[%s]' % cfg, nl, 7)
        n = marshal.rule_foot_and_pair(ctx, cfg, prog)
        ctx.floor('footprint cases[%s]' % cfg, n, 30)
        marshal.rule_params_pairing(ctx, cfg, prog)
        m = marshal.rule_len(ctx, cfg, prog)
        ctx.floor('length-discovery functions[%s]' % cfg, m, 4)
        k = marshal.rule_mustcheck(ctx, cfg, prog)
        ctx.floor('decode/unmarshal call sites[%s]' % cfg, k, 40)
