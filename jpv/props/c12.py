"""C12 - keys open only matching ciphertexts; hidden slots cannot be filled (partial claim: hidden-slot paths)."""
from .. import cursor

EXPL = ('(R-SCHEME) every path segment (entry -> loop head, one loop iteration, loop exit -> return) of the scheme routines is interpreted in the discrete-log domain - group elements are formal Z_r-linear combinations of base symbols with polynomial coefficients, pairings expand bilinearly, cursors and indices are symbolic - and its effect table is compared with the table the construction prescribes for the segment\'s category (attribute present / hidden / slot free in the parent / flags); with the exit conditions this is an inductive argument valid for every number of slots and every attribute list: which generator, which exponent, which randomness reaches which component is decided for all values at once. Partial claim. Non-decryptability for mismatching patterns is a cryptographic statement and is NOT decided. '
        'Decided: (R-HIDDEN) on every loop-body path of the four key-derivation loops on which the matched attribute is '
        'marked omitFromKeys, nothing is added to a0/product and no delegation component b[j] is emitted - a hidden slot '
        'contributes neither to the key nor a way to fill it later - while every visible matched attribute does enter the '
        'key; (R-TOTAL) precompute folds h[idx]^id for every listed attribute (no entry skipped, no early exit), so a '
        'ciphertext binds every attribute of its list.'
        ' (R-INBOUNDS) independently of the loop structure, a must-dataflow over the CFG shows that every element of an input list (attrs.attrs, sk.b, params.h) selected by a cursor is touched only where every path has tested that cursor against the list count since it last moved.')


def run(ctx):
    ctx.explanation = EXPL
    ctx.level = 'other'
    ctx.assumptions = ['attribute lists are sorted by index (documented precondition)']
    from .. import schemespec
    for cfg, prog in ctx.programs().items():
        from .. import inbounds
        nh = inbounds.rule_hidden_flag(ctx, cfg, prog)
        na = inbounds.rule_hidden_all(ctx, cfg, prog)
        ctx.floor('R-HIDDEN/all delegation component writes in key derivation[%s]' % cfg, na, 4)
        ctx.floor('R-HIDDEN/flag identity uses in key derivation[%s]' % cfg, nh, 4)
        ni = inbounds.rule_inbounds(ctx, cfg, prog, only=['keygen', 'nondelegable_keygen', 'qualifykey', 'nondelegable_qualifykey', 'precompute'])
        ctx.floor('R-INBOUNDS cursor-selected accesses[%s]' % cfg, ni, 14)
        cursor.rule_hidden(ctx, cfg, prog)
        cursor.rule_total_precompute(ctx, cfg, prog)
        ns = schemespec.rule_scheme(ctx, cfg, prog, which=['keygen', 'nondelegable_keygen', 'qualifykey', 'nondelegable_qualifykey', 'precompute', 'encrypt_precomputed', 'decrypt'])
        ctx.floor('R-SCHEME path segments[%s]' % cfg, ns, 30)
