"""C18 - results do not depend on whether the output object aliases an input (R-ALIAS)."""
import os
from .. import alias, asmcheck
from .. import buildmodel as bm
from ..facts import loc_str, strip_tmpl

EXPL = ('Source-level decision, per configuration, for every function with a body in include/core, include/bls12_381, '
        'src/bls12_381 and the C interface, under every aliasing pattern its signature admits (output == one or all '
        'type-compatible inputs, neither marked __restrict): walking the instantiated body in execution order '
        '(constant-bounded loops unrolled exactly, run-time loops twice with the same-induction-variable rule, calls '
        'followed into callees under the induced pattern, memoised), no read rooted at the aliased input overlaps - at '
        'byte granularity, union members included - a location already written through the output. Every in-place call '
        'site anywhere in the library is additionally a query on its callee. Exhaustive over functions x patterns x '
        'configurations; it does not model optimiser exploitation of __restrict.')

LAYERS = ('include/core/', 'include/bls12_381/', 'src/bls12_381/')


def entry_functions(prog):
    out = []
    for f in prog.functions.values():
        if 'body' not in f:
            continue
        file = f['l'][0]
        if not file.startswith(('src/', 'include/')):
            continue
        out.append(f)
    return sorted(out, key=lambda f: (f['l'][0], f['l'][1], f['qn']))


def is_interface(f):
    file = f['l'][0]
    if not file.startswith(LAYERS):
        return False
    if f.get('linkage') == 'internal' and not f.get('method'):
        return False          # file-local helper: checked at its call sites
    if '/arch/' in file and not f.get('method'):
        return False          # trampolines called from assembly; the specialised members themselves are interfaces
    return True


def run(ctx):
    ctx.explanation = EXPL
    ctx.level = 'other'
    ctx.assumptions = ['assembly leaf routines are summarised by R-ASM (thorough tier) or assumed alias-safe when no '
                       'summary is available (listed in notes)',
                       'source-level semantics: optimiser exploitation of __restrict is not modelled']
    drv = os.path.join(bm.VERIF, 'fixtures', 'instantiate_all.cpp')
    if os.path.exists(drv):
        ctx.add_extra_unit(drv)
    progs = ctx.programs()
    for cfg, prog in progs.items():
        tbl = asmcheck.build_tables(cfg, os.path.join(ctx.outdir, 'asm'))
        an = alias.Analyzer(prog, asm_summary=asmcheck.make_alias_summary(tbl))
        nent = npat = 0
        for f in entry_functions(prog):
            pats = [frozenset()]
            if is_interface(f):
                pats += an.interface_patterns(f)
            nent += 1
            for p in pats:
                npat += 1
                try:
                    hz = an.safe(f, p)
                except ValueError as e:
                    raise bm.AnalysisBroken('R-ALIAS cannot model %s: %s' % (f['qn'], e))
                key = 'alias|%s|%s' % (strip_tmpl(f['qn']), alias.fmt_pattern(f, p))
                msg = ''
                site = loc_str(f)
                if hz:
                    h = hz[0]
                    msg = h.describe()
                    inner = h
                    while inner.chain:
                        inner = inner.chain[0]
                    if inner.read is not None:
                        site = inner.read.site
                ctx.ob('R-ALIAS', not hz, key, site, msg, cfg=cfg,
                       sample=dict(config=cfg, function=f['qn'], pattern=alias.fmt_pattern(f, p)) if p else None)
        if an.unresolved:
            raise bm.AnalysisBroken('R-ALIAS: %s' % '; '.join(sorted(set(an.unresolved))[:3]))
        ctx.count('entry_functions[%s]' % cfg, nent)
        ctx.count('patterns[%s]' % cfg, npat)
        ctx.count('callee_queries[%s]' % cfg, an.queries)
        ctx.floor('R-ALIAS entry functions[%s]' % cfg, nent, 400)
        if an.assumed_leaves:
            ctx.notes.append('%s: assembly leaves assumed alias-safe (no R-ASM summary in this tier): %s' % (cfg, sorted(an.assumed_leaves)))
        rn = sorted(set((a, b, c) for (a, b, c, bad) in an.restrict_notes if not bad))
        ctx.notes.append('%s: %d call sites pass an aliased object to a __restrict parameter without a source-level hazard '
                         '(formally UB, not demonstrable; not violations), e.g. %s' % (cfg, len(rn), rn[:3]))
