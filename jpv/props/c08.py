"""C08 - prepared and multi-pairing forms agree with the product of single pairings (structural agreement)."""
from .. import ccl, guards

EXPL = ('Numerical equality of pairing values is NOT decided. What makes prepared/multi-pair results equal to the product of '
        'single pairings is structural and depends only on compile-time constants, so it is decided exactly: (R-CCL) the loops '
        'of G2Prepared::prepare and of the multi-pair miller_loop are controlled only by bls_x and literals; their event traces '
        'are evaluated over the AST (one generic non-identity pair per array) and compared: prepare writes coefficients 0..n-1 '
        'with n == num_coeffs == extent of coeffs[]; the prepared branch reads exactly 0..n-1 in order; the doubling/addition '
        'kind sequence stored equals the one the affine branch performs; both branches perform the same number of line '
        'evaluations between consecutive accumulator squarings; per-pair state is reset once before the first step; the '
        'conjugation for negative x happens once at the end; pairing/pairing_product are miller_loop + one final '
        'exponentiation; (R-GUARD/G1) identity pairs contribute nothing wherever they sit in the list.')


def run(ctx):
    ctx.explanation = EXPL
    ctx.level = 'other'
    ctx.assumptions = ['the line-function arithmetic itself (C01/C04) is not decided']
    for cfg, prog in ctx.programs().items():
        n = ccl.rule_ccl(ctx, cfg, prog)
        ctx.floor('trace events[%s]' % cfg, n, 250)
        ccl.rule_product_shape(ctx, cfg, prog)
        # the C entry points of the pairing product are single forwards of all their arguments to the C++ routines decided above
        from .. import wrap
        from ..facts import loc_str
        nwp = 0
        for f in wrap.wrappers(prog):
            if f['name'] not in ('embedded_pairing_bls12_381_pairing', 'embedded_pairing_bls12_381_pairing_sum',
                                 'embedded_pairing_bls12_381_prepared_pairing', 'embedded_pairing_bls12_381_g2prepared_prepare'):
                continue
            nwp += 1
            m = wrap.WrapperModel(prog, f)
            callees = [(fw.callee or {}).get('name') for fw in m.forwards]
            used = set()
            for fw in m.forwards:
                for (slot, idx, root, path, kind) in fw.bindings:
                    if kind == 'param':
                        used.add(root)
            ok = not m.errors and len(m.forwards) == 1 and callees[0] in ('pairing', 'pairing_product', 'prepare') and all(p_ in used for p_ in m.params)
            ctx.ob('R-CCL', ok, 'ccl|cwrapper|%s' % f['name'], loc_str(f),
                   '%s must hand all of its pairs to ONE call of the C++ pairing product (found: %s%s): anything else (several Miller loops, a '
                   'subset of the pairs) is not the product of the individual pairings for every list length' % (
                       f['name'], callees, '; ' + '; '.join(e[1] for e in m.errors[:2]) if m.errors else ''), cfg=cfg,
                   sample=dict(config=cfg, wrapper=f['name'], forwards=callees))
        ctx.floor('C pairing entry points[%s]' % cfg, nwp, 3)
        guards.g1_miller_loop(ctx, cfg, prog)
