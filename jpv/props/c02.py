"""C02 - Fq/Fr arithmetic exact and canonical (partial claim: constants + zero special cases)."""
from .. import guards, consts, nowrap, fieldlayer, asmsem

EXPL = ('(R-WORDALG/c++) the same word-level algebra with the resolved AST as front end decides the PORTABLE layer in all five configurations (64- and 32-bit words): a BigInt is byte-addressed memory of word cells shared by its union views; unsigned arithmetic in a C type is exact arithmetic plus one wrap (carry / borrow atom); shifts and truncations split values into lo + 2^s hi atoms; loops are unrolled; the carry idiom `carry = (sum < addend)` / `(sum <= addend)` is DECIDED by evaluating the comparison for every value of the carry atoms it involves (newest-first expansion, interval arithmetic), not pattern-matched, and the two arms of `if (carry == 0)` are merged when they leave identical states; BigInt::compare is verified against its lexicographic meaning and summarised at its call sites by a three-way fork with a fact about the two big values, from which the FpBase correction branches are decided; Montgomery reduction is checked as 2^bits V + cancelled words = T + U p. (R-LANES) write/read_big_endian and reverse_endianness move byte lanes exactly as the byte reversal requires. (R-WORDALG) word-level algebraic value numbering of the x86-64 (baseline and BMI2/ADX) and AArch64 routines: every register/memory word is an integer polynomial over input words and fresh atoms tied by the instruction identities (x+y+c = v + 2^64 c\', x*y = lo + 2^64 hi); at every ret the stored words, expanded to normal form, equal the specification polynomial (a+b with returned carry, a-b with returned borrow, 2a, a*b, a*a, 2^384 V = T + U p with quotient words cancelling the low half); dropped or re-weighted carries are proven zero by an interval argument over the same identities; on each path of a compare-and-correct tail the branch facts (carry of the addition chain, borrow of a same-index subtraction chain, lexicographic same-index word comparisons) must DETERMINE whether the value reaches the modulus and the path must implement that case. (R-FIELDLAYER) the representation `val` of a field element is written only by 12 field primitives whose canonical-result obligation is decided, or by read-then-hash_reduce. Partial claim. Exactness of add/sub/mul/Montgomery reduction for all operands (including the 2^-64-probability '
        'carry tails) is value-level and NOT decided. Decided: (R-CONST) every constant the arithmetic depends on has '
        'the value its role requires, derived from x alone by independent big-integer arithmetic: moduli q and r '
        '(located as the template arguments of the field types), R = 2^bits mod p, R2 = R^2 mod p, the *used* word of '
        '-p^-1 for the configuration\'s word size, one/zero/negative_one, the Fq square-root exponent (q+1)/4, the '
        'Tonelli-Shanks constants of Fr (t, (t+1)/2, a primitive 2^s-th root of unity, s), the top-byte masks of '
        'sampling/hash reduction and the sufficiency of one conditional subtraction; (R-GUARD G2/G3/G7) the zero '
        'special cases the statement lists: inverse(0)=0 with the non-terminating Euclid loop on the non-zero edge, '
        'negate(0)=0 (p - a only for a != 0), Fr::square_root(0); (R-CANON) in the portable FpBase add/multiply2/subtract/reduce '
        'of every instantiated width the final `- p` / `+ p` correction is applied exactly for compare >= 0 or carry (resp. borrow): '
        'the truth table over compare in {-1,0,1} x flag in {0,1} is evaluated on the CFG (this is the branch uniform sampling never reaches); '
        '(R-NOWRAP) every unsigned addition in the multi-precision layer either provably cannot wrap (exact upper bound from the widths '
        'its operands were widened from, e.g. a*b + word + carry <= 2^128-1) or its carry-out is observed by comparing the stored sum with an '
        'addend; multi-word subtractions compare the result with the minuend (borrow observed).'
        ' (R-WORDALG, ARMv6-M) the Thumb routines are decided on the disassembly of the sources after the divided-to-unified syntax rewrite: exact add / subtract / double / product / square with 32-bit words and, for the fused routines, 2^384 V + Z == T + U p (mod 2^768) at the call of the C++ reduce trampoline.')


from ..facts import strip_tmpl, loc_str


def run(ctx):
    ctx.explanation = EXPL
    ctx.level = 'other'
    ctx.assumptions = ['the curve parameter x (with its sign) is the trusted root; preconditions of the assembly specifications (canonical operands, inv*p[0] = -1 mod 2^64 resp. 2^32, T < p*2^384) are stated, not derived; inversion is decided as partial correctness (loop invariant of the binary extended Euclid, every statement of the loop from an arbitrary state; termination is not decided); the Legendre symbol raises the value to exactly (p-1)/2 through the generic exponentiation and maps the power zero / one / other to 0 / 1 / -1; exponentiation and square root compose the decided primitives and are not decided as values; the ARMv6-M assembly is decided on the disassembly of its sources after the divided-to-unified syntax rewrite of jpv/thumbconv.py (trusted; `mov lo, lo` leaves the flags unknown), the fused routines up to their call of the C++ reduce trampoline']
    import os
    from .. import buildmodel as bm
    ctx.add_extra_unit(os.path.join(bm.VERIF, 'fixtures', 'instantiate_all.cpp'))
    for cfg, prog in ctx.programs().items():
        from .. import lanes
        from .. import bigpred
        nbp = bigpred.rule_is_zero(ctx, cfg, prog)
        ctx.count('R-PRED/bigint is_zero instantiations decided[%s]' % cfg, nbp)
        nl = lanes.rule_bigendian_io(ctx, cfg, prog)
        ctx.floor('R-LANES byte-order routines[%s]' % cfg, nl, 3)
        fl = fieldlayer.rule_field_layer(ctx, cfg, prog)
        ctx.floor('R-FIELDLAYER representation writes inside the field layer[%s]' % cfg, fl, 10)
        n = consts.rule_field_constants(ctx, cfg, prog)
        guards.g237_field_zero_cases(ctx, cfg, prog)
        guards.canon_tables(ctx, cfg, prog)
        ns = nowrap.rule_nowrap(ctx, cfg, prog)
        wa = asmsem.rule_wordalg(ctx, cfg, os.path.join(ctx.outdir, 'asm'))
        from .. import thumbsem
        wt = thumbsem.rule_wordalg_thumb(ctx, cfg, os.path.join(ctx.outdir, 'asm'), prog=prog)
        if cfg == 'm0-asm':
            ctx.floor('R-WORDALG routine x aliasing instances[%s]' % cfg, wt, 18)
        from .. import cppword
        wc = cppword.rule_wordalg_cpp(ctx, cfg, prog)
        ctx.floor('R-WORDALG/c++ routine x aliasing instances[%s]' % cfg, wc, 35)
        ni = cppword.rule_inverse_step(ctx, cfg, prog)
        ni += cppword.rule_legendre(ctx, cfg, prog)
        ctx.floor('R-WORDALG/c++ inversion instantiations[%s]' % cfg, ni, 1)
        if cfg == 'x64-asm':
            ctx.floor('R-WORDALG routine x aliasing instances[%s]' % cfg, wa, 25)
        ctx.floor('R-NOWRAP unsigned additions[%s]' % cfg, ns, 15)
        # the field operations may be used in place (their interfaces do not mark the operands non-aliasing): the result with the output
        # aliasing an input is the result with a separate output (the C18 analysis, on the field layer: fp.hpp, fp_utils.hpp, Fq, Fr)
        from .. import alias, asmcheck
        from . import c18
        tbl = asmcheck.build_tables(cfg, os.path.join(ctx.outdir, 'asm'))
        an = alias.Analyzer(prog, asm_summary=asmcheck.make_alias_summary(tbl))
        na = 0
        for f in c18.entry_functions(prog):
            if f['l'][0] not in fieldlayer.FIELD_FILES or not c18.is_interface(f):
                continue
            for p in an.interface_patterns(f):
                na += 1
                try:
                    hz = an.safe(f, p)
                except ValueError as e:
                    raise bm.AnalysisBroken('R-ALIAS cannot model %s: %s' % (f['qn'], e))
                ctx.ob('R-ALIAS', not hz, 'alias|%s|%s' % (strip_tmpl(f['qn']), alias.fmt_pattern(f, p)), loc_str(f),
                       hz[0].describe() if hz else '', cfg=cfg,
                       sample=dict(config=cfg, function=f['qn'][:100], pattern=alias.fmt_pattern(f, p)))
        ctx.floor('R-ALIAS field-layer in-place patterns[%s]' % cfg, na, 20)
