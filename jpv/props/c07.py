"""C07 - GT exponentiation: exponent-domain value numbering, sampling range, constants."""
from .. import guards, reject, consts, scalar, formulas
from ..facts import strip, walk, loc_str
from .. import pathrules as pr
from .. import ranges

NS = 'embedded_pairing::bls12_381::'

EXPL = ('(R-POLY/exp) exponentiate_gt(a, c) is interpreted in the exponent domain with the 4x64 digit bits as symbols: the result '
        'exponent is linear in the bits and bit i of digit j has weight 2^i*|x|^j modulo r (using q = x and q^6 = -1 modulo r for the '
        'Frobenius/conjugate table), every one of the 256 bits is used, the found-one flag idiom is PROVEN equivalent to unconditional '
        'squaring (the guarded statement fixes the accumulator once all consumed bits are zero), for distinct and aliased result; the '
        'generic square-and-multiply routines weight bit i by 2^i for every bit of the operand width; (R-POLY/cyclotomic) the fast '
        'squaring equals a*a on the cyclotomic subgroup (difference in the span of the subgroup relations). (R-WORDALG/c++) '
        'PowersOfX::decompose is executed at word level on the 64-bit-word configurations: on every path (y < r, y == r, y > r) '
        'c0 + c1|x| + c2|x|^2 + c3|x|^3 - y is a multiple of r identically in the words of y, with the comparison against r, the '
        'ordered subtraction and the three divisions by |x| (modelled by a == d*q + rem, 0 <= rem < d) contributing exactly; the upper '
        'quotient words that the code discards are shown to be zero from the ranges. Also decided: (R-REJECT) '
        'in PowersOfX::random each digit loop exits only when the digit compares below |x| and the outer loop only when the '
        'recombined y compares below r (the "uniformly chosen y in [0,r)" clause), all four digits are drawn and digit k is '
        'recombined with |x|^k (R-CONST); bls_x facts; the simultaneous-exponentiation loop consumes every bit of the 64-bit '
        'digits (starts at the top bit index) and indexes its four tables in range (R-BOUNDS).')


def run(ctx):
    ctx.explanation = EXPL
    ctx.level = 'other'
    ctx.assumptions = ['on 32-bit-word configurations the 64-step restoring division inside divide_std_dword is decided as an inductive step for every bit position and then summarised by upper*2^64 + lower == d*quotient + rem; tower operations are the field operations (C04)']
    for cfg, prog in ctx.programs().items():
        n = guards.rule_defout(ctx, cfg, prog, name_filter=lambda f: 'Fq12' in f['qn'] or 'exponentiate' in f['qn'])
        ctx.floor('R-DEFOUT accumulation functions[%s]' % cfg, n, 3)
        reject.rule_powers_of_x(ctx, cfg, prog)
        c = formulas.rule_cyclotomic(ctx, cfg, prog)
        e = formulas.rule_exponents_gt(ctx, cfg, prog, which=('gtexp', 'generic'))
        ctx.floor('R-POLY cyclotomic/exponent obligations[%s]' % cfg, c + e, 7)
        consts.rule_pairing_constants(ctx, cfg, prog)
        from .. import cppword
        cppword.rule_decompose(ctx, cfg, prog)
        fs = [f for f in prog.fn_by_qn(NS + 'Fq12::exponentiate_gt') if 'PowersOfX' in f['params'][1]['t']['s']]
        ctx.require(len(fs) == 1, 'Fq12::exponentiate_gt(Fq12, PowersOfX) not found')
        f = fs[0]
        # bit loop starts at the top bit of a 64-bit digit and runs down to 0
        ok = False
        for n in walk(f['body']):
            if n.get('k') == 'for':
                iv = ranges.for_iv(n, {})
                if iv is not None and any(c['name'] == 'bit' and strip(c['args'][0]).get('id') == iv[0] for c in pr.calls(n['body'])):
                    ok = (iv[1], iv[2]) == (0, 63)
                    site = loc_str(n)
        # (both shape obligations below are consequences of R-POLY/exp, which decides the exponent itself: they are reported only when
        # that rule found a violation as well - a routine of another shape that R-POLY/exp accepts is not judged by its shape)
        exp_bad = any(v.get('rule') == 'R-POLY/exp' for v in ctx.violations)
        ok = ok or not exp_bad
        ctx.ob('R-BOUNDS', ok, 'gtexp|bitrange', loc_str(f),
               'exponentiate_gt must scan bit indices 63..0 of the 64-bit digits (a shorter scan drops the top bits of every digit)', cfg=cfg)
        # Frobenius powers t[i] = frobenius(a, i) for i in 0..3, conjugation parity from the sign of x
        fr = [c for c in pr.calls(f['body']) if c['name'] == 'frobenius_map']
        okf = len(fr) == 1 and pr.canon(fr[0]['args'][0]).startswith('P:') and pr.canon(fr[0]['args'][1]) == pr.canon(strip(fr[0]['this'])['idx'] if strip(fr[0]['this']).get('k') == 'index' else fr[0]['args'][1])
        okf = okf or not exp_bad
        ctx.ob('R-BOUNDS', okf, 'gtexp|frobenius-table', loc_str(f),
               'exponentiate_gt must fill t[i] with the i-th Frobenius power of the base', cfg=cfg)
