"""C04 - extension tower (partial claim: tables and indices)."""
from .. import consts

EXPL = ('Partial claim. The multiplication/squaring/inversion formulas are value-level and NOT decided. Decided: '
        '(R-CONST) every entry of the Fq2/Fq6/Fq12 Frobenius coefficient tables equals the coefficient the defining '
        'polynomials require ((-1)^((q^i-1)/2), xi^((q^i-1)/3), xi^((2q^i-2)/3), xi^((q^i-1)/6) with xi = u+1), '
        'computed independently in Fq[u]/(u^2+1) and compared after Montgomery decoding; which table scales which '
        'coefficient is read from the calls; Fq2/Fq6/Fq12 one/zero/negative_one and the two Fq2 square-root exponents; '
        '(R-BOUNDS) every Frobenius power index stays inside its table for all unsigned powers.')


def run(ctx):
    ctx.explanation = EXPL
    ctx.level = 'other'
    ctx.assumptions = ['x is the trusted root; tower formulas are not decided']
    for cfg, prog in ctx.programs().items():
        n = consts.rule_tower_constants(ctx, cfg, prog)
        ctx.floor('tower constant relations[%s]' % cfg, n, 30)
