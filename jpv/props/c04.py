"""C04 - extension tower: formulas by algebraic value numbering, tables, indices."""
from .. import consts, formulas, fieldlayer

EXPL = ('(R-POLY) The formulas ARE decided, for all inputs at once, by algebraic value numbering: each routine of Fq2/Fq6/Fq12 '
        '(add, subtract, multiply2, negate, multiply, square, multiply_by_nonresidue, the sparse products by c1 / c01 / c014, '
        'conjugate, inverse, frobenius_map for every power 0..2*table length) is interpreted down to base-field calls over the '
        'polynomial ring F_q[inputs] (base-field operations = ring operations, whose exactness is C02\'s concern) and the normal '
        'form of every output coordinate is compared with the definitional arithmetic of Fq[u]/(u^2+1), Fq2[v]/(v^3-(u+1)), '
        'Fq6[w]/(w^2-v); inversions are checked as result*a == 1 given the relation of the single inner inversion; every '
        'admitted aliasing pattern (out==a, out==b, out==a==b) is run as well. (R-POLY/cyclotomic) the fast cyclotomic squaring equals a*a on the cyclotomic subgroup: its difference from a*a lies, '
        'component by component, in the F_q-linear span of the relations a*conj(a)=1 and a^(q^4)*a=a^(q^2) that define that subgroup '
        '(Gaussian elimination on coefficient vectors); (R-POLY/exp) map_to_cyclotomic raises to exactly (q^6-1)(q^2+1) and the generic '
        'square-and-multiply exponentiation gives bit i of the exponent weight 2^i for every bit of the operand width (exponent-domain '
        'value numbering: Fq12 values numbered by their exponent of one symbolic generator, multiply -> +, square -> *2, inverse -> *-1, '
        'conjugate -> *q^6, frobenius(k) -> *q^k). Not decided: Legendre/square-root/norm in Fq2, byte I/O. '
        'Also decided: '
        '(R-CONST) every entry of the Fq2/Fq6/Fq12 Frobenius coefficient tables equals the coefficient the defining '
        'polynomials require ((-1)^((q^i-1)/2), xi^((q^i-1)/3), xi^((2q^i-2)/3), xi^((q^i-1)/6) with xi = u+1), '
        'computed independently in Fq[u]/(u^2+1) and compared after Montgomery decoding; which table scales which '
        'coefficient is read from the calls; Fq2/Fq6/Fq12 one/zero/negative_one and the two Fq2 square-root exponents; '
        '(R-BOUNDS) every Frobenius power index stays inside its table for all unsigned powers.')


def run(ctx):
    ctx.explanation = EXPL
    ctx.level = 'other'
    ctx.assumptions = ['x is the trusted root; base-field operations are treated as exact ring operations (C02/C03 are about that layer)']
    for cfg, prog in ctx.programs().items():
        fl = fieldlayer.rule_field_layer(ctx, cfg, prog)
        ctx.floor('R-FIELDLAYER representation writes inside the field layer[%s]' % cfg, fl, 10)
        n = consts.rule_tower_constants(ctx, cfg, prog)
        ctx.floor('tower constant relations[%s]' % cfg, n, 30)
        m = formulas.rule_tower(ctx, cfg, prog)
        ctx.floor('R-POLY tower formulas[%s]' % cfg, m, 100)
        formulas.rule_fq2_sqrt(ctx, cfg, prog)
        npred = formulas.rule_tower_predicates(ctx, cfg, prog)
        ctx.floor('R-PRED tower predicates[%s]' % cfg, npred, 6)
        c = formulas.rule_cyclotomic(ctx, cfg, prog)
        e = formulas.rule_exponents_gt(ctx, cfg, prog, which=('cyclo', 'generic'))
        ctx.floor('R-POLY cyclotomic/exponent obligations[%s]' % cfg, c + e, 6)
