"""C11 - WKD-IBE keys from any delegation history are well-formed (partial claim: merge-cursor discipline)."""
from .. import cursor

EXPL = ('(R-SCHEME) every path segment (entry -> loop head, one loop iteration, loop exit -> return) of the scheme routines is interpreted in the discrete-log domain - group elements are formal Z_r-linear combinations of base symbols with polynomial coefficients, pairings expand bilinearly, cursors and indices are symbolic - and its effect table is compared with the table the construction prescribes for the segment\'s category (attribute present / hidden / slot free in the parent / flags); with the exit conditions this is an inductive argument valid for every number of slots and every attribute list: which generator, which exponent, which randomness reaches which component is decided for all values at once. Partial claim. Correct distribution of keys and the scheme\'s pairing equations are cryptographic value-level facts '
        'and are NOT decided. Decided (R-CURSOR): the bookkeeping that walks the slot index i, the attribute cursor k, the '
        'parent free-slot cursor x and the output cursor j in lock-step, in keygen, qualifykey, nondelegable_keygen and '
        'nondelegable_qualifykey. All acyclic paths of each loop body are enumerated and abstracted by the outcomes of the '
        'cursor tests; on every path: a match that the path does not refute advances its cursor (else the cursor lags for '
        'ever and later attributes / parent slots are ignored), a consumed attribute never also emits a free slot, at most '
        'one slot is written per iteration and only together with j++, and the key length is set to j after the loop. '
        'The enumeration is exhaustive over interleavings of hidden/fixed/free slots because it does not depend on values.'
        ' (R-INBOUNDS) independently of the loop structure, a must-dataflow over the CFG shows that every element of an input list (attrs.attrs, sk.b, params.h) selected by a cursor is touched only where every path has tested that cursor against the list count since it last moved.')


def run(ctx):
    ctx.explanation = EXPL
    ctx.level = 'other'
    ctx.assumptions = ['attribute lists and parent free-slot lists are sorted by index (documented precondition)']
    from .. import schemespec
    for cfg, prog in ctx.programs().items():
        from .. import inbounds
        nh = inbounds.rule_hidden_flag(ctx, cfg, prog)
        na = inbounds.rule_hidden_all(ctx, cfg, prog)
        ctx.floor('R-HIDDEN/all delegation component writes in key derivation[%s]' % cfg, na, 4)
        ctx.floor('R-HIDDEN/flag identity uses in key derivation[%s]' % cfg, nh, 4)
        ni = inbounds.rule_inbounds(ctx, cfg, prog, only=['keygen', 'nondelegable_keygen', 'qualifykey', 'nondelegable_qualifykey', 'resamplekey', 'precompute'])
        ctx.floor('R-INBOUNDS cursor-selected accesses[%s]' % cfg, ni, 15)
        cursor.rule_cursor(ctx, cfg, prog)
        ns = schemespec.rule_scheme(ctx, cfg, prog, which=['setup', 'keygen', 'nondelegable_keygen', 'qualifykey', 'nondelegable_qualifykey', 'resamplekey', 'decrypt', 'decrypt_master', 'encrypt_precomputed', 'precompute'])
        ctx.floor('R-SCHEME path segments[%s]' % cfg, ns, 40)
