"""C14 - incremental/precomputed paths equal recomputation (partial claim: delegation + merge progress)."""
from .. import schemes

EXPL = ('Partial claim. Equality of the resulting group elements is NOT decided, nor adjust_nondelegable\'s skip loops (their '
        'intended treatment of hidden entries cannot be recovered from code or documentation). Decided: (R-WRAP) encrypt, sign '
        'and verify are exactly precompute(tmp, params, attrs) followed by the _precomputed form receiving tmp and every other '
        'parameter unchanged, with the verdict returned - the direct and precomputed forms are interchangeable by construction; '
        '(R-CURSOR) the two-cursor merge of adjust_precomputed advances both cursors on equal indices and exactly the smaller '
        'side otherwise on every path, and both remainders are drained; (R-CONST) identity differences are reduced modulo r: '
        'the borrow of (to - from) is repaired by adding the group order (value r), and r - from uses r as minuend.')


def run(ctx):
    ctx.explanation = EXPL
    ctx.level = 'other'
    ctx.assumptions = ['attribute lists sorted by index (documented precondition)']
    from .. import schemespec
    for cfg, prog in ctx.programs().items():
        schemes.rule_delegation(ctx, cfg, prog)
        schemes.rule_merge_progress(ctx, cfg, prog)
        schemes.rule_mod_r_subtraction(ctx, cfg, prog)
        ns = schemespec.rule_scheme(ctx, cfg, prog, which=['precompute', 'adjust_precomputed', 'adjust_nondelegable', 'resamplekey', 'encrypt_precomputed', 'sign_precomputed', 'verify_precomputed'])
        ctx.floor('R-SCHEME path segments[%s]' % cfg, ns, 40)
