"""C14 - incremental/precomputed paths equal recomputation (partial claim: delegation + merge progress)."""
from .. import schemes

EXPL = ('(R-SCHEME) every path segment (entry -> loop head, one loop iteration, loop exit -> return) of the scheme routines is interpreted in the discrete-log domain - group elements are formal Z_r-linear combinations of base symbols with polynomial coefficients, pairings expand bilinearly, cursors and indices are symbolic - and its effect table is compared with the table the construction prescribes for the segment\'s category (attribute present / hidden / slot free in the parent / flags); with the exit conditions this is an inductive argument valid for every number of slots and every attribute list: which generator, which exponent, which randomness reaches which component is decided for all values at once. Partial claim. Equality of the resulting group elements is NOT decided, nor adjust_nondelegable\'s skip loops (their '
        'intended treatment of hidden entries cannot be recovered from code or documentation). Decided: (R-WRAP) encrypt, sign '
        'and verify are exactly precompute(tmp, params, attrs) followed by the _precomputed form receiving tmp and every other '
        'parameter unchanged, with the verdict returned - the direct and precomputed forms are interchangeable by construction; '
        '(R-CURSOR) the two-cursor merge of adjust_precomputed advances both cursors on equal indices and exactly the smaller '
        'side otherwise on every path, and both remainders are drained; (R-CONST) identity differences are reduced modulo r: '
        'the borrow of (to - from) is repaired by adding the group order (value r), and r - from uses r as minuend.'
        ' (R-INBOUNDS) independently of the loop structure, a must-dataflow over the CFG shows that every element of an input list (attrs.attrs, sk.b, params.h) selected by a cursor is touched only where every path has tested that cursor against the list count since it last moved.')


def run(ctx):
    ctx.explanation = EXPL
    ctx.level = 'other'
    ctx.assumptions = ['attribute lists sorted by index (documented precondition)']
    from .. import schemespec
    for cfg, prog in ctx.programs().items():
        from .. import inbounds
        ni = inbounds.rule_inbounds(ctx, cfg, prog, only=['precompute', 'adjust_precomputed', 'adjust_nondelegable', 'resamplekey', 'sign_precomputed'])
        ctx.floor('R-INBOUNDS cursor-selected accesses[%s]' % cfg, ni, 12)
        schemes.rule_delegation(ctx, cfg, prog)
        schemes.rule_merge_progress(ctx, cfg, prog)
        schemes.rule_mod_r_subtraction(ctx, cfg, prog)
        ns = schemespec.rule_scheme(ctx, cfg, prog, which=['precompute', 'adjust_precomputed', 'adjust_nondelegable', 'resamplekey', 'encrypt_precomputed', 'sign_precomputed', 'verify_precomputed'])
        ctx.floor('R-SCHEME path segments[%s]' % cfg, ns, 40)
