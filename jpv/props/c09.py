"""C09 - encodings: validating decode accepts only canonical encodings (R-MUSTPASS on the accepting paths)."""
from ..facts import walk, strip, loc_str, strip_tmpl
from .. import pathrules as pr
from ..cfg import CFG
from .. import consts, bls
from .. import buildmodel as bm

NS = 'embedded_pairing::bls12_381::'

EXPL = ('(R-PAIR/sign) the compressed encoder decides the sign flag by the same predicate - resolved comparison callee, operand roles (y, -y), operator and constant - that get_point_from_x uses to select the root; (R-LANES) coordinate byte I/O reverses bytes exactly. Round-trip equality of values is NOT decided. Decided (R-MUSTPASS): for each of the four instantiations of '
        'Encoding<Affine,compressed>::decode, every control-flow path with checked == true that ends in an accepting '
        'return passes, with the rejecting edge leading to `return false`: the compression-form test; on the identity '
        'branch the flag-residue test and the all-zero padding loop over the whole buffer; on the finite branch a '
        'canonicality test of the coordinates (re-encoding of the parsed point compared with the source bytes, or a '
        'comparison of the raw coordinate with the field modulus), curve membership (get_point_from_x with the checked '
        'parameter forwarded / is_on_curve and the greater-flag test), and the subgroup test. The obligations are '
        'followed into get_point_from_x (non-residue test on checked paths) and the subgroup test (scalar == r, '
        'generic multiplication, verdict is_zero). Unchecked decoding performs the same state changes as an accepting '
        'checked path. (R-PAIR) the three flag constants are disjoint, lie in the bits read_big_endian masks, and '
        'encode and decode use the same ones.')


def refs_global(ast, suffix):
    return any(x.get('k') == 'ref' and x.get('rk') == 'global' and (x.get('g') or '').endswith(suffix) for x in walk(ast))


def has_call(ast, name):
    return [c for c in pr.calls(ast) if c.get('name') == name]


def is_return_false(node):
    a = node.ast
    if a is None or a.get('k') != 'return' or a.get('e') is None:
        return False
    e = strip(a['e'])
    return e.get('k') == 'lit' and e.get('bool') is False or ('cv' in e and int(e['cv']) == 0 and e.get('k') == 'lit')


def enumerate_paths(g, assume):
    """paths entry->exit; `assume` maps a param name to the boolean value it is fixed to (infeasible edges pruned)."""
    raw = g.paths(g.entry.id, set(), allow_back_edges=1)
    out = []
    for p in raw:
        ok = True
        for (nid, lab) in p:
            n = g.nodes[nid]
            if n.kind == 'cond':
                e = strip(n.ast)
                if e.get('k') == 'ref' and e.get('rk') == 'param' and e['name'] in assume:
                    if lab is not None and lab != assume[e['name']]:
                        ok = False
                        break
        if ok:
            out.append(p)
    return out


def reject_tests(g, path):
    """cond nodes on the path whose *other* edge leads straight to `return false`"""
    out = []
    for (nid, lab) in path:
        n = g.nodes[nid]
        if n.kind != 'cond' or lab is None:
            continue
        for (y, l2) in n.succ:
            if l2 == lab:
                continue
            # follow through further conds of the same short-circuit? require direct return false
            cur = y
            hops = 0
            while g.nodes[cur].kind == 'join' and hops < 3:
                cur = g.nodes[cur].succ[0][0]
                hops += 1
            if is_return_false(g.nodes[cur]):
                out.append((n, lab))
    return out


def path_calls(g, path):
    out = []
    for (nid, lab) in path:
        n = g.nodes[nid]
        if n.ast is not None and n.kind in ('stmt', 'cond'):
            for c in pr.calls(n.ast):
                out.append((c, n))
    return out


def final_return(g, path):
    for (nid, lab) in reversed(path):
        n = g.nodes[nid]
        if n.kind == 'stmt' and n.ast.get('k') == 'return':
            return n
    return None


def raw_coordinate_compare(prog, fn, call, slots=2):
    """Does this reject-test call hand the encoding's bytes to a function that compares every raw coordinate with q?
    Returns (True, '') / (False, reason) / None when the call is not of that kind.  The comparison only establishes
    canonicality if it sees the *raw* bytes: bits that are masked off before the comparison (the flag positions of the
    coordinate slots after the first) must be tested separately, otherwise 2^3 encodings per slot decode to one point."""
    if not any(pr.norm_obj(pr.canon(a)).startswith('this.data') for a in call.get('args', [])):
        return None
    callee = prog.callee(call, fn)
    if callee is None or 'body' not in callee:
        return None
    cmps = []
    for c in pr.calls(callee['body']):
        if c.get('name') == 'compare' and len(c.get('args', [])) == 2:
            for x in walk(c['args'][1]):
                if x.get('k') == 'ref' and x.get('rk') == 'global':
                    g = prog.globals.get(x['g'])
                    if g is not None and 'value' in g and consts.as_int(consts.decode(g['value'])) == bls.Q:
                        cmps.append(c)
    if not cmps:
        return None
    # the compared object is filled by a plain byte copy (BigInt::read_big_endian), not by the reducing Fq reader
    obj = pr.canon(cmps[0]['args'][0])
    fills = [c for c in pr.calls(callee['body']) if c.get('name') == 'read_big_endian' and pr.canon(c['this']) == obj]
    if not fills or 'BigInt<' not in (prog.callee(fills[0], callee) or {}).get('qn', ''):
        return (False, 'the value compared with q is not the raw big-endian coordinate')
    # every coordinate slot must be read: the offsets handed to read_big_endian over the helper's loop cover 0, 48, ..., 48 (slots - 1)
    size_arg = None
    for p_, a_ in zip(callee.get('params', []), call.get('args', [])):
        if (p_.get('t') or {}).get('k') == 'int' and 'cv' in strip(a_):
            size_arg = (p_['id'], int(strip(a_)['cv']))
    offs = None
    for lp in [x for x in walk(callee['body']) if x.get('k') == 'for']:
        if not any(y is fills[0] for y in walk(lp.get('body') or {})):
            continue
        init, cnd, inc = lp.get('init'), strip(lp.get('c') or {}), strip(lp.get('inc') or {})
        if not (init and init.get('k') == 'decl' and init['vars'] and 'cv' in strip(init['vars'][0].get('init') or {})):
            break
        iv = init['vars'][0]['id']
        start = int(strip(init['vars'][0]['init'])['cv'])
        step = None
        if inc.get('k') == 'un' and inc.get('op') == '++' and strip(inc['e']).get('id') == iv:
            step = 1
        elif inc.get('k') == 'assign' and inc.get('op') == '+=' and strip(inc['lhs']).get('id') == iv and 'cv' in strip(inc['rhs']):
            step = int(strip(inc['rhs'])['cv'])
        bound = None
        if cnd.get('k') == 'bin' and cnd.get('op') in ('!=', '<'):
            r_ = strip(cnd['rhs'])
            while isinstance(r_, dict) and r_.get('k') in ('cast', 'load'):
                r_ = strip(r_['e'])
            if 'cv' in r_:
                bound = int(r_['cv'])
            elif r_.get('k') == 'ref' and size_arg and r_.get('id') == size_arg[0]:
                bound = size_arg[1]
        # the byte offset of the read in terms of the induction variable: &data[i] or &data[i * 48]
        arg0 = strip(fills[0]['args'][0]) if fills[0].get('args') else {}
        scale = None
        for x in walk(arg0):
            if x.get('k') == 'index':
                ix = strip(x['idx'])
                while isinstance(ix, dict) and ix.get('k') in ('cast', 'load'):
                    ix = strip(ix['e'])
                if ix.get('k') == 'ref' and ix.get('id') == iv:
                    scale = 1
                elif ix.get('k') == 'bin' and ix.get('op') == '*':
                    l_, r2 = strip(ix['lhs']), strip(ix['rhs'])
                    for (u_, v_) in ((l_, r2), (r2, l_)):
                        while isinstance(u_, dict) and u_.get('k') in ('cast', 'load'):
                            u_ = strip(u_['e'])
                        if isinstance(u_, dict) and u_.get('k') == 'ref' and u_.get('id') == iv and 'cv' in v_:
                            scale = int(v_['cv'])
        if step and bound is not None and scale and step > 0:
            offs = set(scale * i_ for i_ in range(start, bound, step))
        break
    if offs is None:
        raise bm.AnalysisBroken('%s: cannot establish which coordinate slots %s compares with q (loop not of the form `for (i = c; i != n; i += k) read(&data[i])`)'
                                % (fn['qn'], callee['qn']))
    missing = [48 * s_ for s_ in range(slots) if 48 * s_ not in offs]
    if missing:
        return (False, 'the helper reads the coordinates at byte offsets %s only: the %d-byte slot(s) at offset(s) %s are never compared with q nor '
                       'checked for stray bits' % (sorted(offs), 48, missing))
    g = CFG(callee)
    rej = False
    for nd in g.cond_nodes():
        if any(x is cmps[0] for x in walk(nd.ast)):
            for (y, lab) in nd.succ:
                if is_return_false(g.nodes[y]):
                    rej = True
    if not rej:
        return (False, 'a coordinate >= q does not make the helper return false')
    masks = [x for x in walk(callee['body']) if x.get('k') == 'assign' and x.get('op') == '&=' and 'cv' in strip(x['rhs']) and
             (int(strip(x['rhs'])['cv']) & 0xFF) != 0xFF and pr.canon(x['lhs']).startswith(obj)]
    if masks:
        loops = [lp for (h, lp) in g.loops]
        in_loop = any(any(y is m for y in walk(lp['body'])) for lp in loops for m in masks)
        # a separate test of the masked-off bits of the later slots would make this sound again
        straytest = any(nd for nd in g.cond_nodes() if any(y.get('k') == 'bin' and y.get('op') == '&' and 'cv' in strip(y['rhs']) and
                                                           (int(strip(y['rhs'])['cv']) & 0xE0) == 0xE0 for y in walk(nd.ast)))
        if in_loop and not straytest and slots > 1:
            return (False, 'the helper clears the top three bits of *every* coordinate slot before comparing (%s): stray bits in the '
                           'flag positions of the slots after the first are never rejected' % loc_str(masks[0]))
    return (True, '')


def data_size(prog, f):
    rec = prog.records.get(f.get('parent'))
    for fld in (rec or {}).get('fields', []):
        if fld['name'] == 'data':
            return fld['t'].get('n')
    return None


def check_decode(ctx, cfg, prog, f):
    g = CFG(f)
    tag = f['qn'].split('Encoding<')[-1].split('>::')[0].replace(NS, '')
    compressed = tag.endswith('true')
    site = loc_str(f)
    checked = enumerate_paths(g, {'checked': True})
    unchecked = enumerate_paths(g, {'checked': False})
    ctx.require(checked and unchecked, 'decode: no paths enumerated for %s' % f['qn'])
    acc = []
    for p in checked:
        r = final_return(g, p)
        if r is not None and not is_return_false(r):
            acc.append(p)
    ctx.require(len(acc) >= 2, 'decode %s: expected an identity and a finite accepting path' % tag)
    nob = 0
    # what the accepting identity path knows about the buffer, by symbolic execution (loop form / helpers / locals do not matter)
    from jpv import decodesem
    sem = None
    try:
        okk, smsgs, npaths = decodesem.check_identity(prog, f, bm.configs()[cfg]['words'], data_size(prog, f))
        if npaths:
            sem = smsgs
            ctx.count('identity_paths_executed', npaths)
    except decodesem.Unsupported as ex:
        ctx.notes.append('%s %s: identity path not executable (%s); the shape rule decides' % (cfg, tag, ex)) if len(ctx.notes) < 12 else None
    for p in acc:
        rts = reject_tests(g, p)
        calls = path_calls(g, p)
        ret = final_return(g, p)
        infinity_branch = any(n.kind == 'cond' and refs_global(n.ast, 'encoding_flags_infinity') and lab is True and
                              not any(x.get('k') == 'un' and x.get('op') == '~' for x in walk(n.ast))
                              for (nid, lab) in p for n in [g.nodes[nid]])
        desc = 'identity' if infinity_branch else 'finite'
        pid = '%s|%s|%d' % (tag, desc, nob)

        def ob(name, ok, msg):
            ctx.ob('R-MUSTPASS', ok, 'mustpass|%s|%s|%s' % (tag, desc, name), loc_str(ret.ast) if ret else site,
                   'Encoding<%s>::decode: an accepting validating path (%s point) %s' % (tag, desc, msg), cfg=cfg,
                   sample=dict(config=cfg, instantiation=tag, path_kind=desc, obligation=name,
                               reject_tests=[loc_str(n.ast) for (n, l) in rts]))
        nob += 1
        # O1 form
        ob('form', any(has_call(n.ast, 'is_encoding_compressed') for (n, l) in rts),
           'does not pass the compression-form test (is_encoding_compressed(first byte) != compressed => reject)')
        if infinity_branch and sem is not None:
            for nm, text in (('flag-residue', 'does not reject stray flag bits in the first byte of an identity encoding'),
                             ('padding', 'does not check that every remaining byte of an identity encoding is zero')):
                mine = [x.split('|', 1)[1] for x in sem if x.startswith(nm + '|')]
                ob(nm, not mine, text + (': ' + '; '.join(mine) if mine else ''))
            other = [x for x in sem if '|' not in x]
            ob('decided', not other, '; '.join(other))
            continue
        if infinity_branch:
            ob('flag-residue', any(any(x.get('k') == 'un' and x.get('op') == '~' for x in walk(n.ast)) and
                                   refs_global(n.ast, 'encoding_flags_infinity') for (n, l) in rts),
               'does not reject stray flag bits in the first byte of an identity encoding')
            # padding loop: a reject test reading data[i] inside a loop whose bound is the buffer size
            size = None
            rec = prog.records.get(f.get('parent'))
            if rec:
                for fld in rec['fields']:
                    if fld['name'] == 'data':
                        size = fld['t'].get('n')
            okpad = False
            path_nodes = set(nid for (nid, _) in p)
            for (h, lp) in g.loops:
                if h not in path_nodes or lp.get('k') != 'for':
                    continue
                cnd = strip(lp.get('c')) if lp.get('c') else None
                bound = int(strip(cnd['rhs'])['cv']) if cnd and cnd.get('k') == 'bin' and 'cv' in strip(cnd['rhs']) else None
                init = lp.get('init')
                start = None
                ivid = None
                if init and init.get('k') == 'decl' and init['vars'] and init['vars'][0].get('init') is not None and 'cv' in strip(init['vars'][0]['init']):
                    start = int(strip(init['vars'][0]['init'])['cv'])
                    ivid = init['vars'][0].get('id')
                inc = strip(lp.get('inc')) if lp.get('inc') else {}
                unit = inc.get('k') == 'un' and inc.get('op') == '++' and strip(inc['e']).get('id') == ivid
                # body: `if (data[iv] != 0) return false;` and no break
                body_nodes = [x for x in walk(lp['body'])]
                has_break = any(x.get('k') == 'break' for x in body_nodes)
                rej = False
                for x in body_nodes:
                    if x.get('k') == 'if':
                        c2 = strip(x['c'])
                        reads_iv = any(y.get('k') == 'index' and strip(y['idx']).get('id') == ivid and
                                       pr.norm_obj(pr.canon(y['base'])).startswith('this.data') for y in walk(c2))
                        rets_false = any(y.get('k') == 'return' and strip(y.get('e') or {}).get('bool') is False for y in walk(x['then']))
                        nonzero = c2.get('k') == 'bin' and c2.get('op') == '!=' and 'cv' in strip(c2['rhs']) and int(strip(c2['rhs'])['cv']) == 0
                        if reads_iv and rets_false and nonzero:
                            rej = True
                if bound == size and start is not None and start <= 1 and unit and cnd.get('op') in ('!=', '<') and rej and not has_break \
                        and not __import__('jpv.ranges', fromlist=['x']).writes_to(lp['body'], ivid):
                    okpad = True
            if not okpad:
                raise bm.AnalysisBroken('decode %s: the identity branch is neither executable nor of the known loop shape; no verdict on the padding bytes' % tag)
            ob('padding', okpad, 'does not check that every remaining byte of an identity encoding is zero (loop from byte <=1 to sizeof(data))')
            continue
        # finite branch
        # canonicality
        canon_ok = False
        how = ''
        enc_locals = {}
        for (c, n) in calls:
            if c.get('name') == 'encode' and c.get('this') is not None and pr.canon(c['this']).startswith('L') and \
               c.get('args') and pr.norm_obj(pr.canon(c['args'][0])) == 'P:' + f['params'][0]['name']:
                enc_locals[pr.canon(c['this'])] = n
        verdict_asts = [ret.ast] + [n.ast for (n, l) in rts]
        for va in verdict_asts:
            for c in has_call(va, 'memcmp'):
                objs = [pr.norm_obj(pr.canon(a)) for a in c['args'][:2]]
                ln = strip(c['args'][2]).get('cv') if len(c['args']) > 2 else None
                loc_side = [o for o in objs if any(o.startswith(k + '.data') for k in enc_locals)]
                this_side = [o for o in objs if o.startswith('this.data')]
                if loc_side and this_side and ln is not None:
                    sz = None
                    rec = prog.records.get(f.get('parent'))
                    for fld in (rec or {}).get('fields', []):
                        if fld['name'] == 'data':
                            sz = fld['t'].get('n')
                    if int(ln) == sz:
                        canon_ok = True
                        how = 're-encode and compare all %s bytes' % ln
        why_not = ''
        if not canon_ok:
            for (n, l) in rts:
                for c in pr.calls(n.ast):
                    r = raw_coordinate_compare(prog, f, c, slots=(data_size(prog, f) or 96) // 48)
                    if r is None:
                        continue
                    if r[0]:
                        canon_ok = True
                        how = 'raw coordinates compared with q'
                    else:
                        why_not = ' (' + r[1] + ')'
        ob('canonical', canon_ok, 'has no complete canonicality test: a coordinate >= q (e.g. x + q < 2^381) or stray flag bits in a '
           'later coordinate would be accepted and decode to the same point' + why_not)
        # curve membership
        if compressed:
            gp = [c for (n, l) in rts for c in has_call(n.ast, 'get_point_from_x')]
            okc = bool(gp) and all(len(c['args']) >= 3 and pr.canon(c['args'][2]) == 'P:checked' for c in gp)
            ob('on-curve', okc, 'does not recover y through get_point_from_x(x, greater, checked) with the checked parameter '
               'forwarded and failure rejected')
        else:
            ob('on-curve', any(has_call(n.ast, 'is_on_curve') for (n, l) in rts), 'does not reject points off the curve (is_on_curve)')
            ob('greater-flag', any(strip(n.ast).get('k') == 'ref' and strip(n.ast).get('rk') == 'local' for (n, l) in rts) or
               any(refs_global(n.ast, 'encoding_flags_greater') for (n, l) in rts) or canon_ok and 'bytes' in how,
               'does not reject the greater flag on an uncompressed encoding')
        sub = [c for va in verdict_asts for c in has_call(va, 'is_in_correct_subgroup_assuming_on_curve')]
        ob('subgroup', bool(sub), 'does not test membership in the order-r subgroup')
    # unchecked == checked minus tests
    def sig(p):
        out = []
        gname = 'P:' + f['params'][0]['name']
        for (c, n) in path_calls(g, p):
            callee = prog.callee(c, f)
            th = pr.norm_obj(pr.canon(c['this'])) if c.get('this') is not None else ''
            if th.startswith(gname) and not (callee or {}).get('const_method'):
                out.append((c['name'], th))
        for (nid, lab) in p:
            n = g.nodes[nid]
            if n.kind == 'stmt':
                for x in walk(n.ast):
                    if x.get('k') == 'assign' and pr.norm_obj(pr.canon(x['lhs'])).startswith(gname):
                        out.append(('=', pr.norm_obj(pr.canon(x['lhs']))))
        return tuple(out)

    acc_sigs = set(sig(p) for p in acc)
    for p in unchecked:
        r = final_return(g, p)
        if r is None or is_return_false(r):
            ctx.ob('R-MUSTPASS', not compressed or True, 'unchecked-reject|' + tag, site, '', cfg=cfg)
            continue
        s = sig(p)
        ctx.ob('R-MUSTPASS', s in acc_sigs, 'unchecked-same|%s|%s' % (tag, len(s)), loc_str(r.ast),
               'Encoding<%s>::decode: the non-validating path performs state changes %s that no accepting validating path performs %s'
               % (tag, s, sorted(acc_sigs)), cfg=cfg)
    return nob


def check_get_point(ctx, cfg, prog, f):
    g = CFG(f)
    tag = f['qn'].split('Affine<')[-1][:40]
    ok_all = True
    n = 0
    for p in enumerate_paths(g, {'checked': True}):
        r = final_return(g, p)
        if r is None or is_return_false(r):
            continue
        n += 1
        rts = reject_tests(g, p)
        ok = any(has_call(nn.ast, 'legendre') for (nn, l) in rts)
        ok_all = ok_all and ok
    ctx.ob('R-MUSTPASS', ok_all and n >= 1, 'getpoint|' + tag, loc_str(f),
           '%s: a checked path returns true without the non-residue test (legendre() == -1 => reject): an x with no matching y '
           'would be accepted' % f['qn'], cfg=cfg, sample=dict(config=cfg, function=f['qn'][:100], accepting_checked_paths=n))
    # the root is selected by the predicate `y is the larger of (y, -y)`: truth table of the code's predicate against the definition
    from .. import signpred
    fld = 'Fq2' if ('Affine<' + NS + 'Fq2,' in f['qn']) else 'Fq'
    expr = None
    for x in walk(f['body']):
        if x.get('k') == 'if':
            c = strip(x['c'])
            if c.get('k') == 'bin' and c.get('op') in ('!=', '=='):
                sides = [strip(c['lhs']), strip(c['rhs'])]
                names = [pr.norm_obj(pr.canon(s_)) for s_ in sides]
                if 'P:greater' in names:
                    expr = sides[1 - names.index('P:greater')]
    if expr is None:
        raise bm.AnalysisBroken('%s: the comparison of `greater` with the sign of y was not found' % f['qn'])
    try:
        got = signpred.truth_table(prog, f, expr, fld, lambda env, y: env.__setitem__('this', signpred.Point(y)),
                                   prelude=[s_ for s_ in walk(f['body']) if isinstance(s_, dict) and s_.get('k') in ('decl', 'expr') and ('vars' in s_ or 'e' in s_)])
    except signpred.Unsupported as e:
        raise bm.AnalysisBroken('%s: the predicate that selects the root cannot be evaluated (%s): no verdict' % (f['qn'], e))
    want = signpred.expected_table(fld)
    bad = sorted(k for k in want if got.get(k) != want[k])
    ctx.ob('R-MUSTPASS', not bad, 'getpoint-sign|' + tag, loc_str(f),
           '%s: the predicate that selects between y and -y is not `y is the larger of the two` for %s (classes of %s: Z zero, S smaller than its '
           'negation, L larger): got %s, the definition gives %s' % (f['qn'], bad[:3], '(c0, c1)' if fld == 'Fq2' else 'y',
                                                                  [sorted(got[k]) for k in bad[:3]], [sorted(want[k]) for k in bad[:3]]), cfg=cfg,
           sample=dict(config=cfg, function=f['qn'][:100], abstract_inputs=len(want)))


def check_subgroup(ctx, cfg, prog, f):
    tag = f['qn'].split('Affine<')[-1][:40]
    muls = [c for c in pr.calls(f['body']) if c.get('name', '').startswith('multiply')]
    ok = False
    why = 'no scalar multiplication found'
    for c in muls:
        vals = []
        for a in c.get('args', []):
            for x in walk(a):
                if x.get('k') == 'ref' and x.get('rk') == 'global':
                    gg = prog.globals.get(x['g'])
                    if gg is not None and 'value' in gg:
                        v = consts.decode(gg['value'])
                        if isinstance(v, tuple) and v[0] == 'lvalue':
                            tgt = prog.globals.get(v[1])
                            if tgt is not None and 'value' in tgt:
                                v = consts.decode(tgt['value'])
                        vals.append(consts.as_int(v))
        if bls.R_ORDER in vals:
            ok = c['name'] in ('multiply_doubleadd_restrict', 'multiply_doubleadd', 'multiply_wnaf')
            why = 'scalar r is multiplied through %s' % c['name']
    rets = [n for n in walk(f['body']) if n.get('k') == 'return']
    verdict = any(has_call(r, 'is_zero') for r in rets)
    ctx.ob('R-MUSTPASS', ok and verdict, 'subgroup|' + tag, loc_str(f),
           '%s must multiply by the group order r with a generic (non order-r-specific) routine and return is_zero() of the '
           'product (%s)' % (f['qn'], why), cfg=cfg, sample=dict(config=cfg, function=f['qn'][:100], how=why))


def check_flags(ctx, cfg, prog):
    vals = {}
    for nm in ('encoding_flags_compressed', 'encoding_flags_infinity', 'encoding_flags_greater'):
        g = prog.globals.get(NS + nm)
        ctx.require(g is not None and 'value' in g, 'flag constant %s not found' % nm)
        vals[nm] = consts.decode(g['value'])
    v = list(vals.values())
    disjoint = (v[0] & v[1]) == 0 and (v[0] & v[2]) == 0 and (v[1] & v[2]) == 0 and all(x != 0 for x in v)
    inmask = all((x & 0x1F) == 0 and x < 256 for x in v)
    ctx.ob('R-PAIR', disjoint and inmask, 'flags|disjoint', 'include/bls12_381/curve.hpp',
           'encoding flag constants %s must be pairwise disjoint, non-zero, and inside the three top bits that read_big_endian masks' % vals, cfg=cfg)
    for fn in ('encode', 'decode'):
        fs = [f for f in prog.functions.values() if 'body' in f and strip_tmpl(f['qn']) == NS + 'Encoding::' + fn]
        for f in fs:
            used = set()
            for x in walk(f['body']):
                if x.get('k') == 'ref' and x.get('rk') == 'global' and 'encoding_flags_' in (x.get('g') or ''):
                    used.add(x['g'].split('::')[-1])
                if x.get('k') == 'call' and x.get('name') == 'is_encoding_compressed':
                    used.add('encoding_flags_compressed')
            tag = f['qn'].split('Encoding<')[-1].split('>::')[0].replace(NS, '')
            need = set(vals) if (fn == 'decode' or tag.endswith('true')) else set(vals) - {'encoding_flags_greater', 'encoding_flags_compressed'}
            ctx.ob('R-PAIR', need <= used, 'flags|%s|%s' % (fn, tag), loc_str(f),
                   'Encoding<%s>::%s uses flag constants %s, expected %s' % (tag, fn, sorted(used), sorted(need)), cfg=cfg)


def _sign_predicate(prog, f, flag_user):
    """descriptor of the expression that decides the sign ('greater') of y: (resolved comparison callee, role of each argument, operator,
    constant); roles: 'Y' = the point's y coordinate, 'NEG(Y)' = a local written by negate(Y).  flag_user(node) tells whether a statement
    consumes the decision (sets the wire flag / selects the root)."""
    negs = {}
    for x in walk(f['body']):
        if x.get('k') == 'call' and x.get('name') == 'negate' and x.get('this') is not None and x.get('args'):
            t = strip(x['this'])
            while t.get('k') == 'cast':
                t = strip(t['e'])
            if t.get('k') == 'ref' and t.get('rk') == 'local':
                negs[t['id']] = pr.norm_obj(pr.canon(x['args'][0]))

    def role(a):
        a = strip(a)
        while a.get('k') == 'cast':
            a = strip(a['e'])
        c = pr.norm_obj(pr.canon(a))
        if c.endswith('.y') or c in ('this.y', 'this->y'):
            return 'Y'
        if a.get('k') == 'ref' and a.get('rk') == 'local' and a.get('id') in negs:
            src = negs[a['id']]
            return 'NEG(Y)' if (src.endswith('.y') or src in ('this.y', 'this->y')) else 'NEG(%s)' % src
        return c

    def describe(e):
        e = strip(e)
        if e.get('k') == 'bin' and e.get('op') in ('==', '!=', '<', '>', '<=', '>='):
            for (a, b) in ((e['lhs'], e['rhs']), (e['rhs'], e['lhs'])):
                a_, b_ = strip(a), strip(b)
                if a_.get('k') == 'call' and 'cv' in b_:
                    cal = prog.callee(a_, f)
                    return (strip_tmpl((cal or {}).get('qn') or a_.get('name') or '?').split('<')[0], tuple(role(x) for x in a_.get('args', [])), e['op'], int(b_['cv']))
        if e.get('k') == 'call':
            cal = prog.callee(e, f)
            return ('call', strip_tmpl((cal or {}).get('qn') or e.get('name') or '?'), tuple(role(x) for x in e.get('args', [])) + ((role(e['this']),) if e.get('this') is not None else ()))
        if e.get('k') == 'ref' and e.get('rk') == 'local':
            for x in walk(f['body']):
                if x.get('k') == 'decl':
                    for v in x['vars']:
                        if v.get('id') == e.get('id') and v.get('init') is not None:
                            return describe(v['init'])
        return ('expr', loc_str(e))
    return flag_user(describe)


def check_sign_agreement(ctx, cfg, prog):
    """the compressed encoder sets the 'greater' flag by the same predicate the decoder uses to select the root"""
    encs = [f for f in prog.functions.values() if 'body' in f and strip_tmpl(f['qn']) == NS + 'Encoding::encode' and ', true>' in f['qn']]
    decs = [f for f in prog.functions.values() if 'body' in f and strip_tmpl(f['qn']) == NS + 'Affine::get_point_from_x']
    ctx.floor('compressed encoders[%s]' % cfg, len(encs), 2)
    ctx.floor('get_point_from_x instantiations[%s]' % cfg, len(decs), 2)

    def enc_pred(f):
        def user(describe):
            for x in walk(f['body']):
                if x.get('k') == 'if':
                    sets = [y for y in walk(x['then']) if y.get('k') == 'assign' and any(z.get('k') == 'ref' and 'encoding_flags_greater' in (z.get('g') or '') for z in walk(y['rhs']))]
                    if sets:
                        return describe(x['c'])
            return None
        return _sign_predicate(prog, f, user)

    def dec_pred(f):
        def user(describe):
            # the comparison of the `greater` parameter with a boolean decides which root is kept
            for x in walk(f['body']):
                if x.get('k') == 'if':
                    c = strip(x['c'])
                    if c.get('k') == 'bin' and c.get('op') in ('!=', '=='):
                        sides = [strip(c['lhs']), strip(c['rhs'])]
                        names = [pr.norm_obj(pr.canon(s_)) for s_ in sides]
                        if 'P:greater' in names:
                            other = sides[1 - names.index('P:greater')]
                            return describe(other)
            return None
        return _sign_predicate(prog, f, user)
    for e in encs:
        fld = 'Fq2' if ('G2Affine' in e['qn'] or 'Affine<' + NS + 'Fq2,' in e['qn']) else 'Fq'
        d = [g for g in decs if ('Affine<' + NS + 'Fq2,' in g['qn']) == (fld == 'Fq2')]
        pe = enc_pred(e)
        pd = dec_pred(d[0]) if d else None
        ok = pe is not None and pe == pd and pe[0] != 'expr'
        # the two sides may be written differently; what has to agree is the predicate: truth table of the encoder's condition against the
        # definition `y is the larger of (y, -y)` (the decoder's table is checked in check_get_point)
        from .. import signpred
        cond = None
        for x in walk(e['body']):
            if x.get('k') == 'if':
                sets = [y for y in walk(x['then']) if y.get('k') == 'assign' and any(z.get('k') == 'ref' and 'encoding_flags_greater' in (z.get('g') or '') for z in walk(y['rhs']))]
                if sets:
                    cond = x['c']
        if cond is None:
            # `data[0] |= c ? (.. | greater) : ..`: the flag is set by a conditional expression
            def mentions(z_):
                return any(isinstance(w_, dict) and w_.get('k') == 'ref' and 'encoding_flags_greater' in (w_.get('g') or '') for w_ in walk(z_))
            for x in walk(e['body']):
                if x.get('k') == 'assign':
                    for y in walk(x['rhs']):
                        if isinstance(y, dict) and y.get('k') == 'cond':
                            t_, e_ = mentions(y['then']), mentions(y['else'])
                            if t_ and not e_:
                                cond = y['c']
                            elif e_ and not t_:
                                cond = {'k': 'un', 'op': '!', 'e': y['c'], 't': {'k': 'bool'}, 'l': y.get('l')}
        if cond is None:
            raise bm.AnalysisBroken('%s: the statement that sets the sign flag was not found' % e['qn'])
        gid = e['params'][0]['id']
        try:
            got = signpred.truth_table(prog, e, cond, fld, lambda env, y: env.__setitem__(gid, signpred.Point(y)),
                                       prelude=[s_ for s_ in walk(e['body']) if isinstance(s_, dict) and s_.get('k') in ('decl', 'expr') and ('vars' in s_ or 'e' in s_)])
        except signpred.Unsupported as ex:
            got = None
        if got is not None:
            want = signpred.expected_table(fld)
            badk = sorted(k for k in want if got.get(k) != want[k])
            ok = not badk
            pe = pe if ok else ('truth table differs from the definition at %s: got %s' % (badk[:3], [sorted(got[k]) for k in badk[:3]]))
        # otherwise (the encoder's predicate is outside what the abstract evaluation understands, e.g. limb-level shortcuts) the older,
        # stricter sibling rule decides: both sides must be written as the same predicate
        ctx.ob('R-PAIR', ok, 'sign|%s' % fld, loc_str(e),
               'the compressed %s encoder decides the sign flag with %s while the decoder (get_point_from_x) selects the root with %s: unless both are the '
               'same predicate on (y, -y) an encoding can decode to the negated point' % (fld, pe, pd), cfg=cfg,
               sample=dict(config=cfg, field=fld, predicate=str(pe)))


def run(ctx):
    ctx.explanation = EXPL
    ctx.level = 'other'
    ctx.assumptions = ['encode/decode inverse-ness on values is not decided', 'is_on_curve / legendre / square_root arithmetic is not decided']
    for cfg, prog in ctx.programs().items():
        from .. import lanes
        nl = lanes.rule_bigendian_io(ctx, cfg, prog)
        ctx.floor('R-LANES byte-order routines[%s]' % cfg, nl, 3)
        check_sign_agreement(ctx, cfg, prog)
        decs = [f for f in prog.functions.values() if 'body' in f and strip_tmpl(f['qn']) == NS + 'Encoding::decode']
        ctx.floor('Encoding::decode instantiations[%s]' % cfg, len(decs), 4)
        n = 0
        for f in sorted(decs, key=lambda f: f['qn']):
            n += check_decode(ctx, cfg, prog, f)
        ctx.floor('accepting validating paths[%s]' % cfg, n, 8)
        gps = pr.functions_named(prog, NS + 'Affine::get_point_from_x')
        ctx.ob('R-MUSTPASS', len(gps) >= 2, 'getpoint|instantiated', 'include/bls12_381/curve.hpp',
               'get_point_from_x is not instantiated for both curves: validating decode no longer reaches it', cfg=cfg)
        for f in gps:
            check_get_point(ctx, cfg, prog, f)
        sgs = pr.functions_named(prog, NS + 'Affine::is_in_correct_subgroup_assuming_on_curve')
        ctx.ob('R-MUSTPASS', len(sgs) >= 2, 'subgroup|instantiated', 'include/bls12_381/curve.hpp',
               'the subgroup test is not instantiated for both curves: validating decode no longer reaches it', cfg=cfg)
        for f in sgs:
            check_subgroup(ctx, cfg, prog, f)
        check_flags(ctx, cfg, prog)
