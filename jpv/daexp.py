"""R-POLY/doubleadd: the plain double-and-add multiplication in the exponent domain.

Projective<F>::multiply_doubleadd_restrict is interpreted with the group element as the leaf (value = [E] base, E an integer-linear
form over the symbolic bits of the scalar): copy(zero) -> 0, multiply2 -> *2, add -> +.  The loop bounds are concrete
(highest_bit is given), the scalar's bits are symbolic, so the result must be  sum_i 2^i bit_i  over exactly the bits
0..highest_bit - for every scalar, not the ones a test samples.  Nothing is executed on field values; the group law itself
(add / multiply2 computing the sum / the double) is R-POLY's business under C05."""
from . import gvn, expdom
from . import buildmodel as bm
from .facts import strip_tmpl, loc_str, strip

NS = 'embedded_pairing::bls12_381::'


class GroupMachine(expdom.ExpMachine):
    def global_leaf(self, gid, path):
        g = self.prog.globals.get(gid)
        if g is not None and gid.endswith('::zero') and 'Projective' in (g['t'].get('rec') or g['t'].get('s') or ''):
            # the identity (its encoding is pinned by the constants rule of C05)
            return expdom.Lin(0)
        raise gvn.Unsupported('global %s in the double-and-add exponent domain' % gid)

    def leaf_op(self, e, fr, name, th, args, callee):
        def rd(a):
            x = a
            while isinstance(x, dict) and x.get('k') == 'cast':
                x = x['e']
            if isinstance(x, dict) and x.get('k') == 'un' and x.get('op') == '*':
                lv = self.pointer(x['e'], fr)
            else:
                lv = self.lvalue(x, fr)
            return self.read_leaf(lv[0], lv[1], a)
        dst = self.pointer(th, fr) if e.get('arrow') else self.lvalue(th, fr)
        if name == 'add' and len(args) == 2:
            v = rd(args[0]) + rd(args[1])
        elif name == 'multiply2' and len(args) == 1:
            v = rd(args[0]).scale(2)
        elif name == 'negate' and len(args) == 1:
            v = rd(args[0]).scale(-1)
        elif name in ('copy', 'from_affine') and len(args) == 1:
            v = rd(args[0])
        else:
            raise gvn.Unsupported('group operation %s has no exponent semantics (%s)' % (name, loc_str(e)))
        self.store[dst] = v
        return None


def rule_doubleadd(ctx, cfg, prog, rule='R-POLY/doubleadd'):
    fs = [f for f in prog.functions.values() if 'body' in f and f.get('method')
          and strip_tmpl(f['qn']) == NS + 'Projective::multiply_doubleadd_restrict']
    n = 0
    for f in sorted(fs, key=lambda g: g['qn']):
        import re
        m = re.search(r'BigInt<(\d+)>', f['params'][1]['t'].get('s', ''))
        if not m or len(f['params']) != 3:
            raise bm.AnalysisBroken('%s: unexpected signature of %s' % (rule, f['qn']))
        bits = int(m.group(1))
        base_rec = (f['params'][0]['t'].get('pointee') or {}).get('rec')
        for hb in sorted({bits - 1, bits // 2, 0}):
            gvn.EXTRA_LEAVES.clear()
            gvn.EXTRA_LEAVES.update({f.get('parent'), base_rec})
            bad = []
            try:
                M = GroupMachine(prog)
                M.obj_names = {}
                base = (M.new_element('g'), ())
                k = M.new_obj()
                M.obj_names[k] = 'k'
                out = (M.new_obj(), ())
                M.run_fn(f, out, [base, (k, ()), None], {2: hb})
                E = M.read_leaf(out[0], out[1])
            except expdom.NotEquivalent as ex:
                bad.append(str(ex))
                E = expdom.Lin(0)
            except gvn.Unsupported as ex:
                raise bm.AnalysisBroken('%s cannot model %s: %s' % (rule, f['qn'][:120], ex))
            finally:
                gvn.EXTRA_LEAVES.clear()
            want = {'bit:k#%d*g' % i: 1 << i for i in range(hb + 1)}
            if E.c:
                bad.append('constant term')
            for kk in sorted(set(want) | set(E.t)):
                if want.get(kk) != E.t.get(kk):
                    bad.append('%s has weight %s, expected %s' % (kk, E.t.get(kk), want.get(kk)))
            n += 1
            ctx.ob(rule, not bad, 'doubleadd|%s|%s|hb=%d' % ((f.get('parent') or '')[-12:], (base_rec or '')[len(NS):len(NS) + 14], hb), loc_str(f),
                   '%s(base, k, %d) is not sum_i 2^i bit_i(k) base over bits 0..%d: %s' % (strip_tmpl(f['qn']), hb, hb, '; '.join(bad[:3])), cfg=cfg,
                   sample=dict(config=cfg, routine=f['qn'][:110], highest_bit=hb, bit_weights_checked=len(want)))
    return n
