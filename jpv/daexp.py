"""R-POLY/doubleadd: the plain double-and-add multiplication in the exponent domain.

Projective<F>::multiply_doubleadd_restrict is interpreted with the group element as the leaf (value = [E] base, E an integer-linear
form over the symbolic bits of the scalar): copy(zero) -> 0, multiply2 -> *2, add -> +.  The loop bounds are concrete
(highest_bit is given), the scalar's bits are symbolic, so the result must be  sum_i 2^i bit_i  over exactly the bits
0..highest_bit - for every scalar, not the ones a test samples.  Nothing is executed on field values; the group law itself
(add / multiply2 computing the sum / the double) is R-POLY's business under C05."""
from . import gvn, expdom
from . import buildmodel as bm
from .facts import strip_tmpl, loc_str, strip

NS = 'embedded_pairing::bls12_381::'


class NeedChoice(Exception):
    """a test `word == 0` on a scalar word whose zero-ness this path has not fixed yet"""
    def __init__(self, idx):
        self.idx = idx


class GroupMachine(expdom.ExpMachine):
    """Besides bit(i), the scalar may be read a word at a time: `k.words[w]` is a symbolic word, `(word >> i) & 1` with concrete i
    is bit w*wordbits + i, and `word == 0` / `word != 0` is decided by the path's assumption about that word (zero_words; the rule
    enumerates both outcomes).  A word assumed zero reads as the integer 0."""
    zero_words = None
    scalar_oid = None
    word_bits = 0

    def _word(self, x, fr):
        if not (isinstance(x, dict) and x.get('k') == 'index'):
            return None
        try:
            lv = self.lvalue(x, fr)
        except gvn.Unsupported:
            return None
        if lv[0] != self.scalar_oid or len(lv[1]) != 2 or lv[1][0] != 'words':
            return None
        size = (x.get('t') or {}).get('size')
        if not size:
            raise gvn.Unsupported('scalar word of unknown width at %s' % loc_str(x))
        idx = int(lv[1][1][1:-1])
        self.word_bits = 8 * size
        if self.zero_words.get(idx) is True:
            return 0
        return ('word', idx, 8 * size)

    def int_value(self, e, fr):
        x = e
        while isinstance(x, dict) and x.get('k') in ('load', 'paren'):
            x = x['e']
        w = self._word(x, fr)
        if w is not None:
            return w
        if isinstance(x, dict) and x.get('k') == 'cast':
            v = self.int_value(x['e'], fr)
            if isinstance(v, tuple):
                t = x.get('t') or {}
                if v[0] == 'word' and t.get('k') == 'int' and 8 * (t.get('size') or 0) >= v[2]:
                    return v
                if v[0] == 'bit' and t.get('k') in ('int', 'bool'):
                    return v
                raise gvn.Unsupported('conversion of scalar data at %s' % loc_str(x))
        if isinstance(x, dict) and x.get('k') == 'bin' and x.get('op') in ('==', '!=', '>>', '&'):
            a, b = self.int_value(x['lhs'], fr), self.int_value(x['rhs'], fr)
            op = x['op']
            if isinstance(a, int) and isinstance(b, tuple) and op != '>>':
                a, b = b, a
            if isinstance(a, tuple) and a[0] in ('word', 'shr', 'bit') and isinstance(b, int) and not isinstance(b, bool):
                if a[0] == 'word' and op in ('==', '!=') and b == 0:
                    if a[1] not in self.zero_words:
                        raise NeedChoice(a[1])
                    return int(op == '!=')          # a word assumed zero reads as 0 and never reaches here
                if a[0] == 'word' and op == '>>' and 0 <= b < a[2]:
                    return ('shr', a[1], a[2], b)
                if a[0] == 'word' and op == '&' and b == 1:
                    return ('bit', 'k#%d' % (a[1] * a[2]))
                if a[0] == 'shr' and op == '&' and b == 1:
                    return ('bit', 'k#%d' % (a[1] * a[2] + a[3]))
                if a[0] == 'bit' and ((op == '!=' and b == 0) or (op == '==' and b == 1)):
                    return a
                raise gvn.Unsupported('operation %s on scalar data at %s' % (op, loc_str(x)))
            if isinstance(a, tuple) or isinstance(b, tuple):
                raise gvn.Unsupported('operation %s on scalar data at %s' % (op, loc_str(x)))
        v = gvn.Machine.int_value(self, e, fr)
        return v

    def cond_value(self, c, fr):
        v = super().cond_value(c, fr)
        if v is None:
            e = strip(c)
            if isinstance(e, dict) and e.get('k') in ('bin', 'cast', 'ref', 'load', 'paren'):
                w = self.int_value(c, fr)
                if isinstance(w, tuple):
                    if w[0] in ('bit', 'flag'):
                        return w
                    raise gvn.Unsupported('condition on scalar data at %s is not a single bit' % loc_str(c))
        return v

    def global_leaf(self, gid, path):
        g = self.prog.globals.get(gid)
        if g is not None and gid.endswith('::zero') and 'Projective' in (g['t'].get('rec') or g['t'].get('s') or ''):
            # the identity (its encoding is pinned by the constants rule of C05)
            return expdom.Lin(0)
        raise gvn.Unsupported('global %s in the double-and-add exponent domain' % gid)

    def leaf_op(self, e, fr, name, th, args, callee):
        def rd(a):
            x = a
            while isinstance(x, dict) and x.get('k') == 'cast':
                x = x['e']
            if isinstance(x, dict) and x.get('k') == 'un' and x.get('op') == '*':
                lv = self.pointer(x['e'], fr)
            else:
                lv = self.lvalue(x, fr)
            return self.read_leaf(lv[0], lv[1], a)
        dst = self.pointer(th, fr) if e.get('arrow') else self.lvalue(th, fr)
        if name == 'add' and len(args) == 2:
            v = rd(args[0]) + rd(args[1])
        elif name == 'multiply2' and len(args) == 1:
            v = rd(args[0]).scale(2)
        elif name == 'negate' and len(args) == 1:
            v = rd(args[0]).scale(-1)
        elif name in ('copy', 'from_affine') and len(args) == 1:
            v = rd(args[0])
        else:
            raise gvn.Unsupported('group operation %s has no exponent semantics (%s)' % (name, loc_str(e)))
        self.store[dst] = v
        return None


def rule_doubleadd(ctx, cfg, prog, rule='R-POLY/doubleadd'):
    fs = [f for f in prog.functions.values() if 'body' in f and f.get('method')
          and strip_tmpl(f['qn']) == NS + 'Projective::multiply_doubleadd_restrict']
    n = 0
    for f in sorted(fs, key=lambda g: g['qn']):
        import re
        m = re.search(r'BigInt<(\d+)>', f['params'][1]['t'].get('s', ''))
        if not m or len(f['params']) != 3:
            raise bm.AnalysisBroken('%s: unexpected signature of %s' % (rule, f['qn']))
        bits = int(m.group(1))
        base_rec = (f['params'][0]['t'].get('pointee') or {}).get('rec')
        for hb in sorted({bits - 1, bits // 2, 0}):
            gvn.EXTRA_LEAVES.clear()
            gvn.EXTRA_LEAVES.update({f.get('parent'), base_rec})
            bad = []
            paths = 0
            work = [{}]
            try:
                while work and not bad:
                    zw = work.pop()
                    paths += 1
                    if paths > 4096:
                        raise gvn.Unsupported('more than 4096 zero-word cases')
                    try:
                        M = GroupMachine(prog)
                        M.obj_names = {}
                        M.zero_words = zw
                        base = (M.new_element('g'), ())
                        k = M.new_obj()
                        M.obj_names[k] = 'k'
                        M.scalar_oid = k
                        out = (M.new_obj(), ())
                        M.run_fn(f, out, [base, (k, ()), None], {2: hb})
                        E = M.read_leaf(out[0], out[1])
                    except NeedChoice as nc:
                        paths -= 1
                        work.append({**zw, nc.idx: True})
                        work.append({**zw, nc.idx: False})
                        continue
                    except expdom.NotEquivalent as ex:
                        bad.append(str(ex))
                        continue
                    # on this path the words assumed zero contribute nothing; a linear form that agrees with the expected one on
                    # every assignment where an assumed-non-zero word is non-zero agrees identically, so identity is demanded
                    wbits = {i for i in range(hb + 1)}
                    zeroed = {w_ for w_, z in zw.items() if z}
                    want = {}
                    for i in range(hb + 1):
                        if zeroed and any(M.word_bits and i // M.word_bits == w_ for w_ in zeroed):
                            continue
                        want['bit:k#%d*g' % i] = 1 << i
                    case = ('' if not zw else ' with word(s) %s zero%s' % (sorted(zeroed), ', %s non-zero' % sorted(set(zw) - zeroed) if set(zw) - zeroed else ''))
                    if E.c:
                        bad.append('constant term' + case)
                    for kk in sorted(set(want) | set(E.t)):
                        if want.get(kk) != E.t.get(kk):
                            bad.append('%s has weight %s, expected %s%s' % (kk, E.t.get(kk), want.get(kk), case))
            except gvn.Unsupported as ex:
                raise bm.AnalysisBroken('%s cannot model %s: %s' % (rule, f['qn'][:120], ex))
            finally:
                gvn.EXTRA_LEAVES.clear()
            want = {'bit:k#%d*g' % i: 1 << i for i in range(hb + 1)}
            n += 1
            ctx.ob(rule, not bad, 'doubleadd|%s|%s|hb=%d' % ((f.get('parent') or '')[-12:], (base_rec or '')[len(NS):len(NS) + 14], hb), loc_str(f),
                   '%s(base, k, %d) is not sum_i 2^i bit_i(k) base over bits 0..%d: %s' % (strip_tmpl(f['qn']), hb, hb, '; '.join(bad[:3])), cfg=cfg,
                   sample=dict(config=cfg, routine=f['qn'][:110], highest_bit=hb, bit_weights_checked=len(want), zero_word_cases=paths))
    return n
