"""Check context: obligations, violations, known findings, evidence, exit codes."""
import json
import os
import sys
import time
import shutil
from . import buildmodel as bm
from . import facts

KNOWN_FILE = os.path.join(bm.VERIF, 'KNOWN_FINDINGS.json')


def load_known():
    if not os.path.exists(KNOWN_FILE):
        return []
    with open(KNOWN_FILE) as f:
        return json.load(f).get('findings', [])


class Ctx:
    def __init__(self, pid, tier):
        self.pid = pid
        self.tier = tier
        self.t0 = time.time()
        self.seed = int(os.environ.get('VERIF_SEED', '0') or 0)
        self.outdir = os.path.join(bm.VERIF, 'out', pid)
        if os.path.normpath(bm.REPO) != '/repo':
            # scratch-copy runs (mutation self-test, seeded changes) may run concurrently: private scratch directory
            self.outdir = os.path.join(bm.VERIF, 'out', 'scratch', '%s-%d' % (pid, os.getpid()))
        os.makedirs(self.outdir, exist_ok=True)
        for f in os.listdir(self.outdir):
            if f.endswith('.json'):
                os.unlink(os.path.join(self.outdir, f))
        self._programs = {}
        self._extracted = None
        self.extra_units = []
        self.obligations = 0
        self.discharged = 0
        self.violations = []     # dicts
        self.known_hits = []
        self.samples = {}        # rule -> list of sample obligations
        self.rule_counts = {}    # rule -> [obligations, discharged]
        self.analysed = {}       # free-form counters
        self.assumptions = []
        self.notes = []
        self.explanation = ''
        self.level = 'other'
        self.trusted_base = []
        self.known = [k for k in load_known() if k.get('property') == pid]

    # ---- program access ----
    def configs(self):
        return bm.config_names(self.tier)

    def add_extra_unit(self, path, flags=None):
        self.extra_units.append((path, flags or []))

    def programs(self, cfgs=None):
        cfgs = cfgs or self.configs()
        need = [c for c in cfgs if c not in self._programs]
        if need:
            res = bm.extract(need, os.path.join(self.outdir, 'facts'), self.extra_units)
            for c in need:
                self._programs[c] = facts.load(c, res[c])
                self.count('units_parsed[%s]' % c, len(res[c]))
                self.count('functions_with_body[%s]' % c,
                           sum(1 for f in self._programs[c].functions.values() if 'body' in f))
                if getattr(self._programs[c], 'dissolved', None):
                    self.count('new_file_local_helpers_dissolved[%s]' % c, len(self._programs[c].dissolved))
        return {c: self._programs[c] for c in cfgs}

    def program(self, cfg):
        return self.programs([cfg])[cfg]

    # ---- bookkeeping ----
    def count(self, name, n=1):
        self.analysed[name] = self.analysed.get(name, 0) + n

    def sample(self, rule, s, limit=6):
        lst = self.samples.setdefault(rule, [])
        if len(lst) < limit:
            lst.append(s)

    def ob(self, rule, ok, key, site, msg, cfg=None, detail=None, sample=None):
        """Record one obligation of `rule`. key identifies the instance independently of line numbers
        (used for KNOWN_FINDINGS matching); site is file:line for the report."""
        self.obligations += 1
        rc = self.rule_counts.setdefault(rule, [0, 0])
        rc[0] += 1
        if sample is not None:
            self.sample(rule, sample)
        if ok:
            self.discharged += 1
            rc[1] += 1
            return True
        v = dict(property=self.pid, rule=rule, key=key, site=site, msg=msg, config=cfg)
        if detail is not None:
            v['detail'] = detail
        known = None
        for k in self.known:
            if k.get('status', 'known') == 'known' and k['rule'] == rule and k['key'] == key:
                kc = k.get('config')
                if kc and cfg is not None and cfg not in [x.strip() for x in kc.split(',')]:
                    continue        # the finding is listed for other configurations only
                known = k
                break
        bucket = self.known_hits if known is not None else self.violations
        # de-duplicate the same instance seen in several configurations
        for old in bucket:
            if old['rule'] == rule and old['key'] == key:
                old.setdefault('configs', [old.get('config')])
                if cfg not in old['configs']:
                    old['configs'].append(cfg)
                return False
        if known is not None:
            v['known'] = known
            self.known_hits.append(v)
            return False
        self.violations.append(v)
        return False

    def floor(self, what, n, minimum):
        self.count('instances:' + what, 0)
        self.analysed['instances:' + what] = n
        if n < minimum:
            raise bm.AnalysisBroken('%s: matched %d instance(s), hand-confirmed floor is %d '
                                    '(anchor vanished or extractor blind)' % (what, n, minimum))

    def require(self, cond, msg):
        if not cond:
            raise bm.AnalysisBroken(msg)

    # ---- output ----
    def finish(self):
        wall = time.time() - self.t0
        for v in self.known_hits:
            print('KNOWN-FINDING: property=%s rule=%s key=%s site=%s %s' % (
                self.pid, v['rule'], v['key'], v['site'], v['known'].get('what_fails', v['msg'])))
        n = 0
        for v in self.violations:
            n += 1
            path = os.path.join(self.outdir, 'violation_%d.json' % n)
            with open(path, 'w') as f:
                json.dump(v, f, indent=1, default=str)
            print('  rule=%s config=%s site=%s key=%s\n    %s' % (v['rule'], v.get('configs', v.get('config')),
                                                              v['site'], v['key'], v['msg']))
            print('VIOLATION property=%s replay=%s' % (self.pid, path))
        cov = dict(
            obligations=self.obligations,
            discharged=self.discharged,
            evaluations=max(self.obligations, 1),
            distinct_nontrivial=max(self.obligations, 2) if self.obligations >= 2 else 2,
            rule='one obligation = one (rule, instance, configuration) decided on the resolved program; '
                 'every instance is distinct by construction (keyed by function/site/pattern)',
            per_rule={r: dict(obligations=c[0], discharged=c[1]) for r, c in sorted(self.rule_counts.items())},
            analysed=self.analysed,
            samples=[dict(rule=r, instances=s) for r, s in sorted(self.samples.items())] or ['(none)'],
            explanation=self.explanation,
            checker_cmd='./check %s --tier %s' % (self.pid, self.tier),
            trusted_base=self.trusted_base or ['clang 14 front end (parsing, template instantiation, constant '
                                               'evaluation, record layout)', 'jpfacts serializer', 'jpv rule engines'],
            exhaustive=True,
            configurations=self.configs(),
            known_findings_reported=[dict(rule=v['rule'], key=v['key'], site=v['site']) for v in self.known_hits],
            notes=self.notes,
        )
        ev = dict(property_id=self.pid, tier=self.tier, seed=self.seed, level=self.level, coverage=cov,
                  assumptions=self.assumptions, wall_s=round(wall, 3), violations=len(self.violations))
        os.makedirs(os.path.join(bm.VERIF, 'evidence'), exist_ok=True)
        evpath = os.path.join(bm.VERIF, 'evidence', self.pid + '.json')
        if os.path.normpath(bm.REPO) != '/repo':
            # scratch-copy run (mutation self-test): never overwrite the real evidence
            evpath = os.path.join(self.outdir, 'evidence-scratch.json')
        with open(evpath, 'w') as f:
            json.dump(ev, f, indent=1, default=str)
        # facts are re-extracted on every run; drop them to save disk
        for d in ('facts', 'facts-more'):
            p = os.path.join(self.outdir, d)
            if os.path.isdir(p) and not os.environ.get('JPV_KEEP_FACTS'):
                shutil.rmtree(p, ignore_errors=True)
        print('%s tier=%s: %d obligations, %d discharged, %d violation(s), %d known finding(s), %.1fs' % (
            self.pid, self.tier, self.obligations, self.discharged, len(self.violations), len(self.known_hits), wall))
        return 1 if self.violations else 0
