"""Independent BLS12-381 arithmetic (Python big ints).  Shares no code with the library: used only as the
oracle for relations between compile-time constants (R-CONST / R-XCONST).  Trusted root: the curve
parameter x (sign included); everything else is derived from it."""

X = -0xd201000000010000
R_ORDER = X ** 4 - X ** 2 + 1
Q = ((X - 1) ** 2 * R_ORDER) // 3 + X
assert ((X - 1) ** 2 * R_ORDER) % 3 == 0


def inv(a, m):
    return pow(a, -1, m)


# ---- Fq2 = Fq[u]/(u^2+1) ----
def f2(a, b=0):
    return (a % Q, b % Q)


def f2_add(a, b):
    return ((a[0] + b[0]) % Q, (a[1] + b[1]) % Q)


def f2_sub(a, b):
    return ((a[0] - b[0]) % Q, (a[1] - b[1]) % Q)


def f2_neg(a):
    return ((-a[0]) % Q, (-a[1]) % Q)


def f2_mul(a, b):
    return ((a[0] * b[0] - a[1] * b[1]) % Q, (a[0] * b[1] + a[1] * b[0]) % Q)


def f2_sqr(a):
    return f2_mul(a, a)


def f2_inv(a):
    n = inv((a[0] * a[0] + a[1] * a[1]) % Q, Q)
    return ((a[0] * n) % Q, (-a[1] * n) % Q)


def f2_pow(a, e):
    r = (1, 0)
    b = a
    while e:
        if e & 1:
            r = f2_mul(r, b)
        b = f2_sqr(b)
        e >>= 1
    return r


F2_ZERO = (0, 0)
F2_ONE = (1, 0)
XI = (1, 1)   # u + 1, the sextic non-residue


# ---- generic polynomial-extension towers: Fq6 = Fq2[v]/(v^3 - xi), Fq12 = Fq6[w]/(w^2 - v) ----
def f6_add(a, b):
    return tuple(f2_add(x, y) for x, y in zip(a, b))


def f6_sub(a, b):
    return tuple(f2_sub(x, y) for x, y in zip(a, b))


def f6_neg(a):
    return tuple(f2_neg(x) for x in a)


def f6_mul(a, b):
    # schoolbook, reduce v^3 = xi
    t = [F2_ZERO] * 5
    for i in range(3):
        for j in range(3):
            t[i + j] = f2_add(t[i + j], f2_mul(a[i], b[j]))
    c0 = f2_add(t[0], f2_mul(t[3], XI))
    c1 = f2_add(t[1], f2_mul(t[4], XI))
    return (c0, c1, t[2])


def f6_mul_by_v(a):
    return (f2_mul(a[2], XI), a[0], a[1])


F6_ZERO = (F2_ZERO, F2_ZERO, F2_ZERO)
F6_ONE = (F2_ONE, F2_ZERO, F2_ZERO)


def f6_inv(a):
    c0, c1, c2 = a
    t0 = f2_sub(f2_sqr(c0), f2_mul(XI, f2_mul(c1, c2)))
    t1 = f2_sub(f2_mul(XI, f2_sqr(c2)), f2_mul(c0, c1))
    t2 = f2_sub(f2_sqr(c1), f2_mul(c0, c2))
    d = f2_add(f2_mul(c0, t0), f2_mul(XI, f2_add(f2_mul(c2, t1), f2_mul(c1, t2))))
    di = f2_inv(d)
    return (f2_mul(t0, di), f2_mul(t1, di), f2_mul(t2, di))


def f12_mul(a, b):
    a0, a1 = a
    b0, b1 = b
    t0 = f6_mul(a0, b0)
    t1 = f6_mul(a1, b1)
    c0 = f6_add(t0, f6_mul_by_v(t1))
    c1 = f6_add(f6_mul(a0, b1), f6_mul(a1, b0))
    return (c0, c1)


def f12_sqr(a):
    return f12_mul(a, a)


F12_ONE = (F6_ONE, F6_ZERO)


def f12_conj(a):
    return (a[0], f6_neg(a[1]))


def f12_inv(a):
    a0, a1 = a
    d = f6_sub(f6_mul(a0, a0), f6_mul_by_v(f6_mul(a1, a1)))
    di = f6_inv(d)
    return (f6_mul(a0, di), f6_neg(f6_mul(a1, di)))


def f12_pow(a, e):
    if e < 0:
        a = f12_inv(a)
        e = -e
    r = F12_ONE
    b = a
    while e:
        if e & 1:
            r = f12_mul(r, b)
        b = f12_sqr(b)
        e >>= 1
    return r


# ---- curves (affine, None = infinity) ----
class Curve:
    def __init__(self, add, sub, mul, inv_, neg, b, zero, one):
        self.add, self.sub, self.mul, self.inv, self.neg, self.b, self.zero, self.one = add, sub, mul, inv_, neg, b, zero, one

    def on_curve(self, P):
        if P is None:
            return True
        x, y = P
        return self.mul(y, y) == self.add(self.mul(self.mul(x, x), x), self.b)

    def padd(self, P, Qp):
        if P is None:
            return Qp
        if Qp is None:
            return P
        x1, y1 = P
        x2, y2 = Qp
        if x1 == x2:
            if y1 == y2 and y1 != self.zero:
                three = self.add(self.add(self.one, self.one), self.one)
                two = self.add(self.one, self.one)
                lam = self.mul(self.mul(three, self.mul(x1, x1)), self.inv(self.mul(two, y1)))
            else:
                return None
        else:
            lam = self.mul(self.sub(y2, y1), self.inv(self.sub(x2, x1)))
        x3 = self.sub(self.sub(self.mul(lam, lam), x1), x2)
        y3 = self.sub(self.mul(lam, self.sub(x1, x3)), y1)
        return (x3, y3)

    def pmul(self, P, k):
        Rr = None
        B = P
        while k:
            if k & 1:
                Rr = self.padd(Rr, B)
            B = self.padd(B, B)
            k >>= 1
        return Rr


E1 = Curve(lambda a, b: (a + b) % Q, lambda a, b: (a - b) % Q, lambda a, b: (a * b) % Q, lambda a: inv(a, Q),
           lambda a: (-a) % Q, 4, 0, 1)
E2 = Curve(f2_add, f2_sub, f2_mul, f2_inv, f2_neg, f2_mul((4, 0), XI), F2_ZERO, F2_ONE)

G1_COFACTOR = (X - 1) ** 2 // 3
# BLS12 G2 cofactor (polynomial in x): (x^8 - 4x^7 + 5x^6 - 4x^4 + 6x^3 - 4x^2 - 4x + 13) / 9
G2_COFACTOR = (X ** 8 - 4 * X ** 7 + 5 * X ** 6 - 4 * X ** 4 + 6 * X ** 3 - 4 * X ** 2 - 4 * X + 13) // 9
assert (X ** 8 - 4 * X ** 7 + 5 * X ** 6 - 4 * X ** 4 + 6 * X ** 3 - 4 * X ** 2 - 4 * X + 13) % 9 == 0


# ---- optimal ate pairing, textbook form (used only to validate the exported generator pairing constant) ----
def _untwist(Qp):
    """map a point of E'(Fq2) to E(Fq12) with w^2 = v, v^3 = xi: (x/w^2, y/w^3)."""
    x, y = Qp
    # elements of Fq12 as (c0, c1) over Fq6; w^-2 = v^-1 = v^2/xi ; w^-3 = w^-2 * w^-1, w^-1 = w/v = w * v^2/xi
    xi_inv = f2_inv(XI)
    # x * v^2 / xi  -> Fq6 element (0,0,x/xi) ; as Fq12: (that, 0)
    X12 = ((F2_ZERO, F2_ZERO, f2_mul(x, xi_inv)), F6_ZERO)
    # y * w^-3 = y * w * v^-2 = y * w * v / xi   -> c1 = (0, y/xi, 0)
    Y12 = (F6_ZERO, (F2_ZERO, f2_mul(y, xi_inv), F2_ZERO))
    return (X12, Y12)


def _f12_from_fq(a):
    return (((a % Q, 0), F2_ZERO, F2_ZERO), F6_ZERO)


def _f12_add(a, b):
    return (f6_add(a[0], b[0]), f6_add(a[1], b[1]))


def _f12_sub(a, b):
    return (f6_sub(a[0], b[0]), f6_sub(a[1], b[1]))


def _line(T, P2, P):
    """line through T and P2 (points over Fq12) evaluated at P (over Fq12); returns (value, T+P2)."""
    (x1, y1), (x2, y2) = T, P2
    xp, yp = P
    if x1 == x2 and y1 == y2:
        three = _f12_from_fq(3)
        two = _f12_from_fq(2)
        lam = f12_mul(f12_mul(three, f12_mul(x1, x1)), f12_inv(f12_mul(two, y1)))
    else:
        lam = f12_mul(_f12_sub(y2, y1), f12_inv(_f12_sub(x2, x1)))
    x3 = _f12_sub(_f12_sub(f12_mul(lam, lam), x1), x2)
    y3 = _f12_sub(f12_mul(lam, _f12_sub(x1, x3)), y1)
    val = _f12_sub(_f12_sub(yp, y1), f12_mul(lam, _f12_sub(xp, x1)))
    return val, (x3, y3)


def miller_ate(P, Qp):
    """f_{|x|,Q}(P), conjugated for negative x (Q in E'(Fq2) untwisted into Fq12)."""
    Q12 = _untwist(Qp)
    P12 = (_f12_from_fq(P[0]), _f12_from_fq(P[1]))
    T = Q12
    f = F12_ONE
    n = abs(X)
    for i in range(n.bit_length() - 2, -1, -1):
        l, T = _line(T, T, P12)
        f = f12_mul(f12_sqr(f), l)
        if (n >> i) & 1:
            l, T = _line(T, Q12, P12)
            f = f12_mul(f, l)
    if X < 0:
        f = f12_conj(f)
    return f


def pairing_reduced(P, Qp):
    f = miller_ate(P, Qp)
    return f12_pow(f, (Q ** 12 - 1) // R_ORDER)
