"""Helpers shared by the CFG path rules (R-GUARD, R-REJECT, R-MUSTPASS, R-MUSTCHECK, R-CURSOR, R-HIDDEN)."""
from .facts import walk, strip, loc_str, strip_tmpl
from .cfg import CFG


def local_binds(f):
    """{local id: canonical string of its initialiser} for the reference locals and the const-qualified scalar locals of f whose
    initialiser is side-effect free (declaration order, earlier bindings expanded): names for repeated sub-expressions"""
    binds = {}
    for x in walk(f['body']):
        if isinstance(x, dict) and x.get('k') == 'decl':
            for v in x.get('vars', []):
                t = v.get('t') or {}
                ini = v.get('init')
                if ini is None or v.get('id') is None:
                    continue
                if not (t.get('k') == 'ref' or (t.get('const') and t.get('k') in ('int', 'bool', 'enum'))):
                    continue
                if any(isinstance(y, dict) and (y.get('k') in ('call', 'assign', 'lcall') or (y.get('k') == 'un' and y.get('op') in ('++', '--')))
                       for y in walk(ini)):
                    continue
                binds[v['id']] = canon(ini, binds)
    return binds


def canon(e, binds=None):
    """Canonical string for the object an expression designates (loads/casts/parentheses stripped).
    binds: {local id: canon string} for reference/pointer locals to expand."""
    e = strip(e)
    if not isinstance(e, dict):
        return '?'
    k = e.get('k')
    if k == 'ref':
        rk = e.get('rk')
        if rk == 'local':
            if binds and e['id'] in binds:
                return binds[e['id']]
            return 'L%d' % e['id']
        if rk == 'param':
            return 'P:%s' % e['name']
        if rk in ('global', 'staticlocal'):
            return 'G:%s' % e.get('g')
        if rk == 'func':
            return 'F:%s' % e.get('qn')
        return 'R:%s' % e.get('name')
    if k == 'this':
        return 'this'
    if k == 'member':
        b = canon(e['base'], binds)
        return b + ('->' if e.get('arrow') else '.') + e['name']
    if k == 'index':
        return canon(e['base'], binds) + '[' + canon(e['idx'], binds) + ']'
    if k == 'un':
        if e['op'] == '*':
            return '*' + canon(e['e'], binds)
        if e['op'] == '&':
            return '&' + canon(e['e'], binds)
        return e['op'] + canon(e['e'], binds)
    if k == 'cast':
        return canon(e['e'], binds)
    if k == 'lit' or 'cv' in e:
        return '#' + str(e.get('cv'))
    if k == 'bin':
        return '(' + canon(e['lhs'], binds) + e['op'] + canon(e['rhs'], binds) + ')'
    if k == 'call':
        th = canon(e['this'], binds) + '.' if e.get('this') is not None else ''
        return th + (e.get('name') or '?') + '(' + ','.join(canon(a, binds) for a in e.get('args', [])) + ')'
    if k == 'sizeof':
        return '#' + str(e.get('cv'))
    return k or '?'


def norm_obj(s):
    """object identity modulo '->' vs '(*x).' spelling"""
    return s.replace('->', '.').replace('*', '')


def calls(node_ast):
    return [x for x in walk(node_ast) if x.get('k') == 'call']


def callee_name(c):
    return c.get('name')


def is_zero_test(cond_ast):
    """If the atomic condition tests emptiness/zero-ness of an object return its canonical name, else None.
    Recognised by effect: a call to a member named is_zero (resolved), or a read of a member named infinity."""
    e = strip(cond_ast)
    if e.get('k') == 'call' and e.get('name') == 'is_zero' and e.get('this') is not None:
        return norm_obj(canon(e['this']))
    if e.get('k') == 'member' and e.get('name') == 'infinity':
        return norm_obj(canon(e['base']))
    return None


def functions_named(prog, qn_no_tmpl):
    """all instantiated functions (with body) whose qualified name, template arguments removed, equals qn_no_tmpl"""
    return [f for f in prog.functions.values() if 'body' in f and strip_tmpl(f['qn']) == qn_no_tmpl]


def build(fn):
    return CFG(fn)


def arg_objects(call):
    out = []
    if call.get('this') is not None:
        out.append(norm_obj(canon(call['this'])))
    for a in call.get('args', []):
        out.append(norm_obj(canon(a)))
    return out


def root_local(objname):
    """leading 'L<id>' / 'P:name' / 'this' of a canonical object name"""
    s = objname.lstrip('&')
    for sep in ('.', '['):
        i = s.find(sep)
        if i >= 0:
            s = s[:i]
    return s
