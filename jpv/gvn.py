"""R-POLY: algebraic global value numbering of straight-line field formulas.

The value domain is the polynomial ring F_q[inputs] (jpv/poly.py): every base-field object in memory is numbered by the
polynomial its value is in terms of the symbolic inputs; base-field operations are the ring operations (their exactness is
C02's concern), an inversion is a fresh symbol with a recorded relation.  Higher-level routines are not summarised by
hand: their resolved bodies are interpreted down to the base-field calls, with reference parameters bound to the caller's
objects, so in-place updates and aliasing are modelled at leaf granularity.  Nothing is executed; the result is a
normal form that is compared with the normal form of the definitional arithmetic (all inputs at once)."""
from .facts import walk, strip, loc_str, strip_tmpl
from . import pathrules as pr
from .poly import Poly, ZERO, ONE
from . import consts, bls
from . import buildmodel as bm

LEAF_PREFIXES = ('embedded_pairing::bls12_381::Fq', 'embedded_pairing::bls12_381::Fr', 'embedded_pairing::core::Fp<',
                 'embedded_pairing::core::FpBase<')


class Unsupported(Exception):
    pass


EXTRA_LEAVES = set()      # record names additionally treated as ring leaves (e.g. Fq2 while checking the curve formulas)


def is_leaf_rec(name):
    if name is None:
        return False
    if name in EXTRA_LEAVES:
        return True
    if name in ('embedded_pairing::bls12_381::Fq', 'embedded_pairing::bls12_381::Fr'):
        return True
    return name.startswith('embedded_pairing::core::Fp<') or name.startswith('embedded_pairing::core::FpBase<')


def leaf_paths(prog, t, prefix=()):
    """paths to the base-field leaves (and scalar leaves) of a type"""
    k = t.get('k')
    if k in ('record', 'union'):
        if is_leaf_rec(t.get('rec')):
            return [(prefix, 'fq')]
        rec = prog.records.get(t['rec'])
        if rec is None:
            return [(prefix, 'opaque')]
        if rec['union']:
            return [(prefix, 'bigint')]
        out = []
        for b in rec['bases']:
            out += leaf_paths(prog, b['t'], prefix)
        for f in rec['fields']:
            out += leaf_paths(prog, f['t'], prefix + (f['name'],))
        return out
    if k == 'array':
        out = []
        for i in range(t.get('n', 0)):
            out += leaf_paths(prog, t['elem'], prefix + ('[%d]' % i,))
        return out
    return [(prefix, 'scalar')]


class Frame:
    def __init__(self, fn, this=None):
        self.fn = fn
        self.this = this
        self.vars = {}      # local/param id -> (objid, path)
        self.ints = {}      # local/param id -> int
        self.ret = None


_BINOPS = {'+': lambda a, b: a + b, '-': lambda a, b: a - b, '*': lambda a, b: a * b, '%': lambda a, b: _cmod(a, b),
           '/': lambda a, b: _cdiv(a, b), '&': lambda a, b: a & b, '|': lambda a, b: a | b, '^': lambda a, b: a ^ b,
           '<': lambda a, b: int(a < b), '<=': lambda a, b: int(a <= b), '>': lambda a, b: int(a > b), '>=': lambda a, b: int(a >= b),
           '==': lambda a, b: int(a == b), '!=': lambda a, b: int(a != b), '<<': lambda a, b: a << b, '>>': lambda a, b: a >> b}


def _cdiv(a, b):
    # C division truncates towards zero
    if not b:
        return None
    q = abs(a) // abs(b)
    return q if (a >= 0) == (b >= 0) else -q


def _cmod(a, b):
    if not b:
        return None
    return a - b * _cdiv(a, b)


class Machine:
    def __init__(self, prog, cond_oracle=None):
        self.prog = prog
        self.store = {}
        self.nobj = 0
        self.relations = []     # (fresh symbols list, kind, argument leaves) for inversions
        self.cond_oracle = cond_oracle or (lambda call, frame, m: False)
        self.depth = 0
        self.steps = 0
        self.trace = []

    # ---- objects ----
    def new_obj(self):
        self.nobj += 1
        return ('o', self.nobj)

    def new_symbolic(self, t, name):
        """object of type t whose base-field leaves are fresh symbols name.<path>"""
        oid = self.new_obj()
        for (p, kind) in leaf_paths(self.prog, t):
            if kind == 'fq':
                self.store[(oid, p)] = Poly.var(name + ''.join('.' + x for x in p))
            elif kind == 'scalar':
                self.store[(oid, p)] = 0
        return oid

    def read_leaf(self, oid, path, node=None):
        if oid[0] == 'G':
            return self.global_leaf(oid[1], path)
        v = self.store.get((oid, path))
        if v is None:
            raise Unsupported('read of an unwritten base-field object %s%s at %s' % (oid, path, loc_str(node) if node else '?'))
        return v

    def global_leaf(self, gid, path):
        g = self.prog.globals.get(gid)
        if g is None or 'value' not in g:
            if g is not None and 'init' in g:
                # reference / alias global: follow initializer
                for x in walk(g['init']):
                    if x.get('k') == 'ref' and x.get('rk') == 'global' and x['g'] != gid:
                        return self.global_leaf(x['g'], path)
            raise Unsupported('constant %s has no compile-time value' % gid)
        v = consts.decode(g['value'])
        if isinstance(v, tuple) and v[0] == 'lvalue':
            return self.global_leaf(v[1], path)
        for p in path:
            if p.startswith('['):
                if not isinstance(v, (list, tuple)) or int(p[1:-1]) >= len(v):
                    raise Unsupported('constant %s is indexed at %s beyond its extent' % (gid, p))
                v = v[int(p[1:-1])]
            elif isinstance(v, dict):
                if p not in v:
                    raise Unsupported('constant %s has no member %s' % (gid, p))
                v = v[p]
        v = consts.as_int(v)
        if not isinstance(v, int):
            raise Unsupported('constant %s%s is not a base-field value' % (gid, path))
        rec = self.leaf_rec_of_global(gid, path)
        if rec and 'Fr' in rec:
            return Poly.const(consts.mont_decode(v, bls.R_ORDER, 256))
        return Poly.const(consts.mont_decode(v, bls.Q, 384))

    def leaf_rec_of_global(self, gid, path):
        g = self.prog.globals.get(gid)
        return (g or {}).get('t', {}).get('s', '')

    def leaves_under(self, oid, prefix, t=None):
        if oid[0] == 'G':
            g = self.prog.globals[oid[1]]
            tt = t or g['t']
            return [(p, kind) for (p, kind) in leaf_paths(self.prog, tt)]
        out = []
        n = len(prefix)
        for (o, p), v in self.store.items():
            if o == oid and p[:n] == prefix:
                out.append((p[n:], 'fq' if isinstance(v, Poly) else 'scalar'))
        return out

    def copy_obj(self, dst, src, t, node=None):
        (do, dp), (so, sp) = dst, src
        vals = []
        for (p, kind) in leaf_paths(self.prog, t):
            if kind in ('fq',):
                vals.append((p, self.read_leaf(so, sp + p, node)))
            elif kind == 'scalar':
                v = self.store.get((so, sp + p)) if so[0] != 'G' else self.global_scalar(so[1], sp + p)
                vals.append((p, v))
        for (p, v) in vals:
            self.store[(do, dp + p)] = v

    def global_scalar(self, gid, path):
        g = self.prog.globals.get(gid)
        if g is None or 'value' not in g:
            return None
        v = consts.decode(g['value'])
        for p in path:
            if isinstance(v, dict) and p in v:
                v = v[p]
            elif p.startswith('[') and isinstance(v, list):
                v = v[int(p[1:-1])]
        return v if isinstance(v, int) else None

    # ---- expression evaluation ----
    def lvalue(self, e, fr):
        if not isinstance(e, dict):
            raise Unsupported('lvalue')
        k = e.get('k')
        t = e.get('t') or {}
        if k == 'ref':
            rk = e.get('rk')
            if rk in ('local', 'param'):
                v = fr.vars.get(e['id'])
                if v is None:
                    raise Unsupported('unbound variable %s at %s' % (e.get('name'), loc_str(e)))
                return v
            if rk == 'global':
                return (('G', e['g']), ())
            raise Unsupported('reference kind %s' % rk)
        if k == 'this':
            return fr.this
        if k == 'member':
            if e.get('arrow'):
                b = self.pointer(e['base'], fr)
            else:
                b = self.lvalue(e['base'], fr)
            bt = (e['base'].get('t') or {})
            if e.get('arrow'):
                bt = bt.get('pointee') or {}
            if is_leaf_rec(bt.get('rec')) or is_leaf_rec(e.get('rec')):
                return b          # members of a base-field element (val) are the leaf itself
            return (b[0], b[1] + (e['name'],))
        if k == 'index':
            b = self.pointer(e['base'], fr)
            i = self.int_value(e['idx'], fr)
            if i is None:
                raise Unsupported('run-time subscript at %s' % loc_str(e))
            return (b[0], b[1] + ('[%d]' % i,))
        if k == 'un' and e.get('op') == '*':
            return self.pointer(e['e'], fr)
        if k == 'cast':
            return self.lvalue(e['e'], fr)
        raise Unsupported('lvalue kind %s at %s' % (k, loc_str(e)))

    def pointer(self, e, fr):
        k = e.get('k')
        if k == 'this':
            return fr.this
        if k == 'un' and e.get('op') == '&':
            return self.lvalue(e['e'], fr)
        if k == 'cast':
            if e.get('ck') == 'ArrayToPointerDecay':
                return self.lvalue(e['e'], fr)
            return self.pointer(e['e'], fr)
        if k == 'load':
            inner = e['e']
            if inner.get('k') == 'ref' and inner.get('rk') in ('local', 'param'):
                v = fr.vars.get(inner['id'])
                if v is None:
                    raise Unsupported('unbound pointer %s' % inner.get('name'))
                return v
            lv = self.lvalue(inner, fr)
            v = self.store.get(lv)
            if isinstance(v, tuple) and v and v[0] == 'ptr':
                return (v[1], v[2])
            raise Unsupported('pointer loaded from memory at %s' % loc_str(e))
        raise Unsupported('pointer expression %s at %s' % (k, loc_str(e)))

    def int_value(self, e, fr):
        while isinstance(e, dict) and e.get('k') == 'load':
            e = e['e']
        if not isinstance(e, dict):
            return None
        if 'cv' in e and not (e.get('k') == 'ref' and e.get('rk') in ('local', 'param')):
            return int(e['cv'])
        k = e.get('k')
        if k == 'ref' and e.get('rk') in ('local', 'param'):
            return fr.ints.get(e['id'])
        if k == 'cast':
            v = self.int_value(e['e'], fr)
            t = e.get('t') or {}
            if isinstance(v, int) and not isinstance(v, bool) and t.get('k') in ('int', 'enum') and t.get('size'):
                bits = 8 * t['size']
                v &= (1 << bits) - 1
                if t.get('signed') and v >= (1 << (bits - 1)):
                    v -= 1 << bits
            elif isinstance(v, int) and t.get('k') == 'bool':
                v = 1 if v else 0
            return v
        if k == 'un':
            v = self.int_value(e['e'], fr)
            if v is None:
                return None
            return {'!': int(not v), '-': -v}.get(e['op'])
        if k == 'bin':
            a, b = self.int_value(e['lhs'], fr), self.int_value(e['rhs'], fr)
            if e['op'] == '&&':
                return 0 if (a == 0 or b == 0) else (1 if (a is not None and b is not None) else None)
            if e['op'] == '||':
                return 1 if (a or b) else (0 if (a is not None and b is not None) else None)
            if a is None or b is None:
                return None
            fn = _BINOPS.get(e['op'])
            try:
                return fn(a, b) if fn is not None else None
            except Exception:
                return None
        if k == 'cond':
            c = self.int_value(e['c'], fr)
            if c is None:
                return None
            return self.int_value(e['then'] if c else e['else'], fr)
        if k == 'call':
            return self.call(e, fr, want_value=True)
        return None

    # ---- statements ----
    def run_fn(self, fn, this, args_lv, int_args=None):
        fr = Frame(fn, this)
        for i, p in enumerate(fn['params']):
            if i in (int_args or {}):
                fr.ints[p['id']] = int_args[i]
            elif i < len(args_lv) and args_lv[i] is not None:
                fr.vars[p['id']] = args_lv[i]
        self.depth += 1
        if self.depth > 40:
            raise Unsupported('call depth')
        try:
            self.stmt(fn['body'], fr)
        except _Return:
            pass
        self.depth -= 1
        return fr.ret

    def stmt(self, s, fr):
        if s is None:
            return
        self.steps += 1
        if self.steps > 400000:
            raise Unsupported('too many steps')
        k = s.get('k')
        if k == 'compound':
            for c in s['body']:
                self.stmt(c, fr)
        elif k == 'decl':
            for v in s['vars']:
                t = v.get('t') or {}
                init = v.get('init')
                if 'id' not in v:
                    raise Unsupported('function-local static %s at %s (state that outlives the call is outside this interpreter; see C20)' % (v.get('name'), loc_str(v)))
                if t.get('k') in ('record', 'union', 'array'):
                    oid = self.new_obj()
                    fr.vars[v['id']] = (oid, ())
                    if init is not None and init.get('k') == 'copyctor':
                        self.copy_obj((oid, ()), self.lvalue(init['e'], fr), t, init)
                    elif init is not None and init.get('k') == 'initlist':
                        self.init_list((oid, ()), t, init, fr)
                    elif init is not None and init.get('k') not in ('defaultinit',):
                        raise Unsupported('initialiser %s at %s' % (init.get('k'), loc_str(s)))
                elif t.get('k') == 'ref':
                    fr.vars[v['id']] = self.lvalue(init, fr)
                elif t.get('k') == 'ptr':
                    fr.vars[v['id']] = self.pointer(init, fr)
                else:
                    if init is not None:
                        fr.ints[v['id']] = self.int_value(init, fr)
        elif k == 'expr':
            self.expr(s['e'], fr)
        elif k == 'return':
            if s.get('e') is not None:
                fr.ret = self.int_value(s['e'], fr)
            raise _Return()
        elif k == 'constexpr_if':
            self.stmt(s.get('taken'), fr)
        elif k == 'if':
            c = self.int_value(s['c'], fr)
            if c is None:
                raise Unsupported('condition at %s is not decided by the analysis assumptions' % loc_str(s))
            self.stmt(s['then'] if c else s.get('else'), fr)
        elif k == 'for':
            self.stmt(s.get('init'), fr)
            n = 0
            while True:
                c = self.int_value(s['c'], fr) if s.get('c') is not None else 1
                if c is None:
                    raise Unsupported('loop condition at %s' % loc_str(s))
                if not c:
                    break
                n += 1
                if n > 5000:
                    raise Unsupported('loop bound at %s' % loc_str(s))
                try:
                    self.stmt(s['body'], fr)
                except _Break:
                    break
                except _Continue:
                    pass
                if s.get('inc') is not None:
                    self.expr(s['inc'], fr)
        elif k in ('while', 'do'):
            n = 0
            first = (k == 'do')
            while True:
                if not first:
                    c = self.int_value(s['c'], fr) if s.get('c') is not None else 1
                    if c is None:
                        raise Unsupported('loop condition at %s' % loc_str(s))
                    if not c:
                        break
                first = False
                n += 1
                if n > 5000:
                    raise Unsupported('loop bound at %s' % loc_str(s))
                try:
                    self.stmt(s['body'], fr)
                except _Break:
                    break
                except _Continue:
                    pass
        elif k == 'switch':
            c = self.int_value(s['c'], fr)
            if c is None:
                raise Unsupported('switch on run-time data at %s' % loc_str(s))
            body = s.get('body') or {}
            stmts = body.get('body', []) if body.get('k') == 'compound' else [body]
            active = False
            try:
                for st in stmts:
                    while st is not None and st.get('k') in ('case', 'default'):
                        if st.get('k') == 'default' or self.int_value(st['v'], fr) == c:
                            active = True
                        st = st.get('sub')
                    if active and st is not None:
                        self.stmt(st, fr)
            except _Break:
                pass
        elif k == 'break':
            raise _Break()
        elif k == 'continue':
            raise _Continue()
        elif k == 'null':
            return
        else:
            raise Unsupported('statement %s at %s' % (k, loc_str(s)))

    def init_list(self, dst, t, init, fr):
        if t.get('k') == 'array' and (t.get('elem') or {}).get('k') == 'ptr':
            # a table of pointers: each element designates an object
            for i, it in enumerate(init.get('inits', [])):
                p = self.pointer(it, fr)
                self.store[(dst[0], dst[1] + ('[%d]' % i,))] = ('ptr', p[0], p[1])
            return
        rec = self.prog.records.get(t.get('rec')) if t.get('k') in ('record', 'union') else None
        if rec is None or is_leaf_rec(t.get('rec')):
            raise Unsupported('initialiser list for %s' % t.get('s'))
        items = list(init.get('inits', []))
        slots = [(b['t'], ()) for b in rec['bases']] + [(f['t'], (f['name'],)) for f in rec['fields']]
        for (ft, p), it in zip(slots, items):
            if ft.get('k') in ('record', 'union'):
                if it.get('k') == 'copyctor':
                    self.copy_obj((dst[0], dst[1] + p), self.lvalue(it['e'], fr), ft, it)
                elif it.get('k') == 'initlist':
                    self.init_list((dst[0], dst[1] + p), ft, it, fr)
                else:
                    self.copy_obj((dst[0], dst[1] + p), self.lvalue(it, fr), ft, it)
            else:
                self.store[(dst[0], dst[1] + p)] = self.int_value(it, fr)

    def expr(self, e, fr):
        e = strip(e) if e.get('k') in ('cast', 'load') else e
        k = e.get('k')
        if k == 'call':
            self.call(e, fr)
        elif k == 'assign':
            lt = (e['lhs'].get('t') or {})
            if e.get('recordcopy') or lt.get('k') in ('record', 'union'):
                self.copy_obj(self.lvalue(e['lhs'], fr), self.lvalue(strip(e['rhs']), fr), lt, e)
                return
            l = strip(e['lhs'])
            if l.get('k') == 'ref' and l.get('rk') in ('local', 'param') and lt.get('k') in ('int', 'bool', 'enum'):
                v = self.int_value(e['rhs'], fr)
                if e['op'] == '=':
                    fr.ints[l['id']] = v
                else:
                    cur = fr.ints.get(l['id'])
                    fr.ints[l['id']] = None if (cur is None or v is None) else {'+=': cur + v, '-=': cur - v}.get(e['op'])
                return
            if lt.get('k') in ('int', 'bool', 'enum'):
                self.store[self.lvalue(e['lhs'], fr)] = self.int_value(e['rhs'], fr)
                return
            if lt.get('k') == 'ptr':
                tgt = self.lvalue(e['lhs'], fr) if l.get('k') != 'ref' else None
                p = self.pointer(e['rhs'], fr)
                if l.get('k') == 'ref':
                    fr.vars[l['id']] = p
                else:
                    self.store[tgt] = ('ptr', p[0], p[1])
                return
            raise Unsupported('assignment at %s' % loc_str(e))
        elif k == 'un' and e.get('op') in ('++', '--'):
            l = strip(e['e'])
            if l.get('k') == 'ref' and fr.ints.get(l.get('id')) is not None:
                fr.ints[l['id']] += 1 if e['op'] == '++' else -1
            else:
                raise Unsupported('increment at %s' % loc_str(e))
        else:
            self.int_value(e, fr)

    # ---- calls ----
    def call(self, e, fr, want_value=False):
        callee = self.prog.callee(e, fr.fn)
        name = e.get('name')
        args = e.get('args', [])
        th = e.get('this')
        tht = None
        if th is not None:
            tht = (th.get('t') or {})
            if e.get('arrow'):
                tht = tht.get('pointee') or {}
        cqn = (callee or {}).get('qn', '') or e.get('qn', '')
        parent = (callee or {}).get('parent')
        leaf_ctx = is_leaf_rec(parent) or (tht is not None and is_leaf_rec(tht.get('rec')))
        # predicates
        if name in ('is_zero', 'equal', 'is_one', 'is_normalized') or (name == 'compare' and not leaf_ctx):
            return 1 if self.cond_oracle(e, fr, self) else 0
        if leaf_ctx:
            return self.leaf_op(e, fr, name, th, args, callee)
        if name == 'inverse' and th is not None and self.depth >= 1 and tht.get('rec', '').split('::')[-1] in ('Fq2', 'Fq6', 'Fq12'):
            # a nested inversion one level down the tower is summarised: fresh symbols J with the relation J * arg == 1
            dst = self.pointer(th, fr) if e.get('arrow') else self.lvalue(th, fr)
            src = self.lvalue(strip(args[0]), fr)
            arg_leaves = {pth: self.read_leaf(src[0], src[1] + pth, e) for (pth, kind) in leaf_paths(self.prog, tht) if kind == 'fq'}
            sym = 'inv%d' % (len(self.relations) + 1)
            for (pth, kind) in leaf_paths(self.prog, tht):
                if kind == 'fq':
                    self.store[(dst[0], dst[1] + pth)] = Poly.var(sym + ''.join('.' + x for x in pth))
            self.relations.append((sym, arg_leaves, tht['rec'].split('::')[-1]))
            return None
        if name == 'fp_inverse' or (name == 'inverse' and leaf_ctx):
            return self.leaf_op(e, fr, 'inverse', None, args, callee)
        if name in ('memcpy', 'memmove') and (callee is None or 'body' not in callee):
            n = self.int_value(args[2], fr)
            dst, src = self.pointer(args[0], fr), self.pointer(args[1], fr)
            # whole-object copies only
            t = None
            for a in (args[0], args[1]):
                x = a
                while isinstance(x, dict) and x.get('k') == 'cast':
                    x = x['e']
                tt = ((x.get('t') or {}).get('pointee') or {})
                if tt.get('size') == n:
                    t = tt
            if t is None:
                raise Unsupported('partial memcpy at %s' % loc_str(e))
            self.copy_obj(dst, src, t, e)
            return None
        if name == 'memset' and (callee is None or 'body' not in callee):
            dst = self.pointer(args[0], fr)
            x = args[0]
            while isinstance(x, dict) and x.get('k') == 'cast':
                x = x['e']
            t = ((x.get('t') or {}).get('pointee') or {})
            if self.int_value(args[1], fr) != 0 or self.int_value(args[2], fr) != t.get('size'):
                raise Unsupported('memset at %s' % loc_str(e))
            for (p, kind) in leaf_paths(self.prog, t):
                self.store[(dst[0], dst[1] + p)] = ZERO if kind == 'fq' else 0
            return None
        if callee is None or 'body' not in callee:
            raise Unsupported('call to %s without a body at %s' % (cqn or name, loc_str(e)))
        this_lv = None
        if th is not None:
            this_lv = self.pointer(th, fr) if e.get('arrow') else self.lvalue(th, fr)
        lvs, ints = [], {}
        for i, a in enumerate(args):
            pt = callee['params'][i]['t'] if i < len(callee['params']) else {}
            if pt.get('k') == 'ref':
                x = a
                while isinstance(x, dict) and x.get('k') == 'cast' and x.get('ck') in ('NoOp', 'DerivedToBase', 'UncheckedDerivedToBase'):
                    x = x['e']
                lvs.append(self.lvalue(x, fr))
            elif pt.get('k') == 'ptr':
                lvs.append(self.pointer(a, fr))
            elif pt.get('k') in ('record', 'union'):
                oid = self.new_obj()
                self.copy_obj((oid, ()), self.lvalue(strip(a) if a.get('k') != 'copyctor' else a['e'], fr), pt, a)
                lvs.append((oid, ()))
            else:
                lvs.append(None)
                ints[i] = self.int_value(a, fr)
        return self.run_fn(callee, this_lv, lvs, ints)

    def leaf_op(self, e, fr, name, th, args, callee):
        def rd(a):
            x = a
            while isinstance(x, dict) and x.get('k') in ('cast',):
                x = x['e']
            if isinstance(x, dict) and x.get('k') == 'un' and x.get('op') == '*':
                lv = self.pointer(x['e'], fr)
            else:
                lv = self.lvalue(x, fr)
            return self.read_leaf(lv[0], lv[1], a)
        dst = None
        if th is not None:
            dst = self.pointer(th, fr) if e.get('arrow') else self.lvalue(th, fr)
        # free function fp_inverse(res, a)
        if name == 'inverse' and th is None:
            dst = self.lvalue(args[0], fr)
            src = rd(args[1])
            return self.fresh_inverse(dst, src, e)
        if name == 'inverse':
            return self.fresh_inverse(dst, rd(args[0]), e)
        if name == 'add':
            v = rd(args[0]) + rd(args[1])
        elif name == 'subtract':
            v = rd(args[0]) - rd(args[1])
        elif name == 'multiply':
            v = rd(args[0]) * rd(args[1])
        elif name == 'square':
            x = rd(args[0])
            v = x * x
        elif name == 'multiply2':
            x = rd(args[0])
            v = x + x
        elif name == 'negate':
            v = -rd(args[0])
        elif name in ('copy', 'set'):
            v = rd(args[0])
        elif name == 'set_zero':
            v = ZERO
        elif name in ('is_zero', 'is_one', 'equal', 'compare'):
            return 1 if self.cond_oracle(e, fr, self) else 0
        else:
            raise Unsupported('base-field operation %s at %s' % (name, loc_str(e)))
        self.store[dst] = v
        return None

    def fresh_inverse(self, dst, src, node):
        sym = 'inv%d' % (len(self.relations) + 1)
        self.relations.append((sym, {(): src}, 'Fq'))
        self.store[dst] = Poly.var(sym)
        return None

    # ---- results ----
    def object_leaves(self, oid, t, prefix=()):
        return [(p, self.read_leaf(oid, prefix + p)) for (p, kind) in leaf_paths(self.prog, t) if kind == 'fq']


class _Return(Exception):
    pass


class _Break(Exception):
    pass


class _Continue(Exception):
    pass
