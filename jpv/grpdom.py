"""R-SCHEME engine: abstract interpretation of the WKD-IBE / LQ-IBE scheme code in the *discrete-log domain*.

Every group element is numbered by a formal Z_r-linear combination of base symbols (the public parameters, fresh generators,
the elements found in input keys), whose coefficients are polynomials over Z_r in scalar symbols (attribute values, fresh
randomness); target-group elements are linear combinations of formal pairings e(b1, b2) of base symbols (bilinear
expansion) and target-group symbols; scalars are polynomials mod r.  Group operations are linear algebra on these forms, so
"the key component a0 is g2^alpha * (g3 * prod h_i^id_i)^r" is a normal-form equality, for all attribute values and all
randomness at once.  Nothing is executed: the resolved statements of one CFG path segment (function entry -> loop head, one
loop-body path, loop exit -> return) are interpreted from a *lazy* state in which every location not yet written in the
segment stands for its own start-of-segment symbol, cursor variables included (symbolic indices `h[i]`, `b[j]`).  The
result of a segment is its effect table {location: new value over start-of-segment symbols}; rules compare it with the
effect the scheme's definition prescribes for the path's category (jpv/schemespec.py)."""
import re
from .facts import walk, strip, loc_str, strip_tmpl
from . import consts, bls
from .asmsem import ZPoly

R = bls.R_ORDER


class Unsupported(Exception):
    pass


class NeedChoice(Exception):
    pass


def norm(p):
    """reduce the coefficients of a scalar polynomial modulo r"""
    out = {}
    for m, c in p.t.items():
        c %= R
        if c:
            out[m] = c
    return ZPoly(out)


class Elt:
    """formal linear combination  sum coeff_b * b  (group written additively; for GT the bases are pairings / GT symbols)"""
    __slots__ = ('g', 't')

    def __init__(self, g, t=None):
        self.g = g
        self.t = {b: norm(c) for b, c in (t or {}).items()}
        self.t = {b: c for b, c in self.t.items() if not c.is_zero()}

    @staticmethod
    def base(g, name):
        return Elt(g, {name: ZPoly.const(1)})

    def __add__(self, o):
        t = dict(self.t)
        for b, c in o.t.items():
            t[b] = t.get(b, ZPoly()) + c
        return Elt(self.g, t)

    def __neg__(self):
        return Elt(self.g, {b: -c for b, c in self.t.items()})

    def __sub__(self, o):
        return self + (-o)

    def scale(self, s):
        return Elt(self.g, {b: c * s for b, c in self.t.items()})

    def __eq__(self, o):
        return isinstance(o, Elt) and self.t == o.t

    def __hash__(self):
        return hash(frozenset(self.t.items()))

    def __repr__(self):
        if not self.t:
            return '0'
        return ' + '.join('(%r)*%s' % (c, b if isinstance(b, str) else 'e(%s,%s)' % b[1:]) for b, c in sorted(self.t.items(), key=str))


def pair(a, b):
    """e(a, b): a in G1, b in G2"""
    t = {}
    for ba, ca in a.t.items():
        for bb, cb in b.t.items():
            k = ('e', ba, bb)
            t[k] = t.get(k, ZPoly()) + ca * cb
    return Elt('GT', t)


def kind_of_type(t):
    """domain tag of a C++ type: 'G1' | 'G2' | 'GT' | 'SC' | 'int' | 'rec' | 'ptr' | None"""
    t = t or {}
    k = t.get('k')
    if k in ('record', 'union'):
        n = t.get('rec') or ''
        if n.endswith('::G1') or 'Projective<embedded_pairing::bls12_381::Fq>' in n or n.endswith('::G1Affine') or 'Affine<embedded_pairing::bls12_381::Fq,' in n:
            return 'G1'
        if n.endswith('::G2') or 'Projective<embedded_pairing::bls12_381::Fq2>' in n or n.endswith('::G2Affine') or 'Affine<embedded_pairing::bls12_381::Fq2,' in n:
            return 'G2'
        if n.endswith('::Fq12'):
            return 'GT'
        if n.startswith('embedded_pairing::core::BigInt<') or n.endswith('::PowersOfX'):
            return 'SC'
        return 'rec'
    if k in ('int', 'bool', 'enum'):
        return 'int'
    if k == 'ptr':
        return 'ptr'
    if k == 'ref':
        return kind_of_type(t.get('pointee') or t.get('ref') or {})
    if k == 'array':
        return 'rec'
    return None


class Seg:
    """interpreter of one path segment"""

    def __init__(self, prog, fn):
        self.prog, self.fn = prog, fn
        self.store = {}        # location string -> value (Elt | ZPoly scalar | ZPoly int | ('ptr', loc) | ('enc', Elt) | ...)
        self.binds = {}        # local id -> location string (references / pointers / objects)
        self.written = []      # locations in write order
        self.fresh = 0
        self.calls = []        # (callee name, [args]) of opaque calls (callbacks)
        self.ret = None
        self.reads = set()
        for p in fn['params']:
            self.binds[('P', p['name'])] = p['name']

    # ---- locations ----
    def loc(self, e):
        e0 = e
        e = strip(e)
        k = e.get('k')
        if k == 'ref':
            rk = e.get('rk')
            if rk == 'param':
                if getattr(self, 'inline_depth', 0) > 0 and e.get('id') in self.binds:
                    return self.binds[e['id']]
                return e['name']
            if rk == 'local':
                b = self.binds.get(e['id'])
                return b if b is not None else 'L:' + e['name']
            if rk == 'global':
                return 'G:' + e['g']
            raise Unsupported('reference kind %s at %s' % (rk, loc_str(e)))
        if k == 'this':
            return 'this'
        if k == 'member':
            if e.get('arrow'):
                base = self.deref(e['base'])
            else:
                base = self.loc(e['base'])
            return base + '.' + e['name']
        if k == 'index':
            base = self.deref(e['base'])
            i = self.ival(e['idx'])
            return '%s[%s]' % (base, show_int(i))
        if k == 'un' and e.get('op') == '*':
            return self.deref(e['e'])
        if k == 'cast':
            return self.loc(e['e'])
        raise Unsupported('lvalue kind %s at %s' % (k, loc_str(e0)))

    def deref(self, e):
        """location designated by a pointer-valued expression"""
        e = strip(e)
        k = e.get('k')
        if k == 'cast':
            if e.get('ck') == 'ArrayToPointerDecay':
                return self.loc(e['e'])
            return self.deref(e['e'])
        if k == 'un' and e.get('op') == '&':
            return self.loc(e['e'])
        if k == 'this':
            return 'this'
        if k in ('ref', 'member', 'index'):
            # pointer variable / member: its pointee is named after it (params.h -> "params.h", then "[i]")
            l = self.loc(e)
            v = self.store.get(l)
            if isinstance(v, tuple) and v[0] == 'ptr':
                return v[1]
            return l
        if k == 'load':
            return self.deref(e['e'])
        raise Unsupported('pointer expression %s at %s' % (k, loc_str(e)))

    # ---- values ----
    def read(self, l, kind):
        v = self.store.get(l)
        if v is not None:
            return v
        self.reads.add(l)
        if l.startswith('G:'):
            return self.global_value(l[2:], kind)
        if kind in ('G1', 'G2', 'GT'):
            return Elt.base(kind, l)
        if kind in ('SC', 'int'):
            return ZPoly.var(l)
        raise Unsupported('read of %s (%s)' % (l, kind))

    def global_value(self, gid, kind):
        if kind in ('G1', 'G2'):
            if gid.endswith('::zero'):
                return Elt(kind)
            return Elt.base(kind, 'G:' + gid)
        if kind == 'GT':
            if gid.endswith('::one'):
                return Elt('GT')
            return Elt.base('GT', 'G:' + gid)
        g = self.prog.globals.get(gid)
        seen = 0
        while g is not None and 'value' not in g and 'init' in g and seen < 4:
            nxt = [x for x in walk(g['init']) if x.get('k') == 'ref' and x.get('rk') == 'global']
            g = self.prog.globals.get(nxt[0]['g']) if nxt else None
            seen += 1
        if g is None or 'value' not in g:
            return ZPoly.var('G:' + gid)
        v = consts.decode(g['value'])
        if isinstance(v, tuple) and v[0] == 'lvalue':
            t = self.prog.globals.get(v[1])
            v = consts.decode(t['value']) if t is not None and 'value' in t else None
        v = consts.as_int(v)
        if isinstance(v, int):
            return ZPoly.const(v)
        return ZPoly.var('G:' + gid)

    def write(self, l, v):
        self.store[l] = v
        self.written.append(l)
        bk = getattr(self, 'boolkeys', None)
        if bk and l in bk:
            self.boolkeys = {k: v_ for k, v_ in bk.items() if k != l}

    def val(self, e, kind=None):
        """value of an expression of group / scalar type (by designated location)"""
        kind = kind or kind_of_type(strip(e).get('t'))
        x = strip(e)
        while x.get('k') == 'cast':
            x = strip(x['e'])
        if x.get('k') == 'un' and x.get('op') == '*':
            return self.read(self.deref(x['e']), kind)
        return self.read(self.loc(x), kind)

    def ival(self, e):
        e = strip(e)
        if not isinstance(e, dict):
            raise Unsupported('integer expression')
        if 'cv' in e and e.get('k') not in ('ref',):
            return ZPoly.const(int(e['cv']))
        if 'bool' in e and e.get('k') not in ('ref', 'member'):
            return ZPoly.const(int(bool(e['bool'])))
        k = e.get('k')
        if k in ('ref', 'member', 'index'):
            l = self.loc(e)
            v = self.store.get(l)
            if v is None:
                if l.startswith('G:') and '.' not in l[2:].split('::')[-1] and '[' not in l:
                    gv = self.global_value(l[2:], 'int')
                    if isinstance(gv, ZPoly) and gv.is_const():
                        return gv
                self.reads.add(l)
                return ZPoly.var(l)
            return v
        if k == 'cast':
            return self.ival(e['e'])
        if k == 'bin' and e['op'] in ('+', '-', '*'):
            a, b = self.ival(e['lhs']), self.ival(e['rhs'])
            return {'+': a + b, '-': a - b, '*': a * b}[e['op']]
        if k == 'un' and e.get('op') == '-':
            return -self.ival(e['e'])
        if k == 'un' and e.get('op') in ('++', '--'):
            l = self.loc(e['e'])
            cur = self.read(l, 'int')
            new = cur + (1 if e['op'] == '++' else -1)
            self.write(l, new)
            return cur if e.get('post') else new
        if k == 'cond':
            # value-selecting conditional on run-time data: one run of the segment per outcome (choice script), the condition recorded
            try:
                take = self._inline_cond(e['c'])
            except NeedChoice:
                raise
            except Unsupported:
                return ZPoly.var('cond@' + loc_str(e))
            return self.ival(e['then'] if take else e['else'])
        if k == 'call':
            r = self.call(e)
            if isinstance(r, ZPoly):
                return r
            return ZPoly.var('call@' + loc_str(e))
        if k == 'bin' and e.get('op') in ('>>', '<<', '&', '|', '/', '%'):
            a, b = self.ival(e['lhs']), self.ival(e['rhs'])
            if a.is_const() and b.is_const():
                x, y = a.const_value(), b.const_value()
                try:
                    return ZPoly.const({'>>': x >> y, '<<': x << y, '&': x & y, '|': x | y, '/': x // y if y else 0, '%': x % y if y else 0}[e['op']])
                except Exception:
                    pass
            return ZPoly.var('(%s%s%s)' % (show_int(a), e['op'], show_int(b)))
        if k == 'bin' and e.get('op') in ('==', '!=', '<', '<=', '>', '>='):
            try:
                a, b = self.ival(e['lhs']), self.ival(e['rhs'])
                if a.is_const() and b.is_const():
                    x, y = a.const_value(), b.const_value()
                    return ZPoly.const(int({'==': x == y, '!=': x != y, '<': x < y, '<=': x <= y, '>': x > y, '>=': x >= y}[e['op']]))
            except Unsupported:
                pass
        if k == 'un' and e.get('op') == '!':
            try:
                a = self.ival(e['e'])
                if a.is_const():
                    return ZPoly.const(int(not a.const_value()))
            except Unsupported:
                pass
        if k == 'bin' or (k == 'un' and e.get('op') == '!'):
            return ZPoly.var(self.boolname(e))
        raise Unsupported('integer expression %s at %s' % (k, loc_str(e)))

    def boolname(self, e):
        """canonical name of a boolean expression over the current values (so that a flag local carries its definition)"""
        e = strip(e)
        k = e.get('k')
        if k == 'bin' and e.get('op') in ('&&', '||'):
            return '(%s%s%s)' % (self.boolname(e['lhs']), e['op'], self.boolname(e['rhs']))
        if k == 'bin' and e.get('op') in ('==', '!=', '<', '<=', '>', '>='):
            return '%s%s%s' % (self.show(e['lhs']), e['op'], self.show(e['rhs']))
        if k == 'un' and e.get('op') == '!':
            return '!' + self.boolname(e['e'])
        if k == 'cast':
            return self.boolname(e['e'])
        if k == 'bin':
            return 'expr@' + loc_str(e)
        return self.show(e)

    def new_fresh(self, what):
        self.fresh += 1
        return '%s#%d' % (what, self.fresh)

    # ---- statements ----
    def exec_node(self, node):
        if node.kind == 'cond':
            # conditions are decided by the path; calls inside them are executed for their effects
            # a condition may have an effect (`i-- != 0`): it is evaluated ONCE - the attempt to decide it must not leave its effect behind
            # when the key is computed afterwards
            has_fx = any(isinstance(x, dict) and ((x.get('k') == 'un' and x.get('op') in ('++', '--')) or x.get('k') == 'assign')
                         for x in walk(node.ast))
            if has_fx:
                snap_store, snap_written = dict(self.store), list(self.written)
            d = self.decide(node.ast)
            if d is not None:
                return ('decided', d)
            if has_fx:
                self.store, self.written = snap_store, snap_written
            x = strip(node.ast)
            while isinstance(x, dict) and x.get('k') in ('cast', 'paren'):
                x = strip(x['e'])
            xr = self._flag_expr(x)
            if isinstance(xr, dict) and xr.get('k') == 'ref' and getattr(self, 'boolrels', None):
                try:
                    l_ = self.loc(xr)
                except Unsupported:
                    l_ = None
                br = self.boolrels.get(l_)
                if br is not None and all(self.store.get(k_) == v_ for k_, v_ in br[1].items()):
                    x = br[0]          # the named relation, its operands unchanged since the declaration
            if isinstance(x, dict) and x.get('k') == 'bin' and x.get('op') in ('==', '!=') and self._is_flag(x['lhs']) and self._is_flag(x['rhs']):
                a = self._inline_cond(x['lhs'])
                kb = self.cond_key(self._flag_expr(x['rhs']))
                if self.decide(x['rhs']) is None:
                    return ('flagrel', x['op'], a, kb)
            key = self.cond_key(node.ast)
            for c in [x for x in walk(node.ast) if x.get('k') == 'call']:
                self.call(c)
            return key
        if node.kind != 'stmt' or node.ast is None:
            return
        self.stmt(node.ast)

    def show(self, e):
        x = strip(e)
        t = x.get('t') or {}
        try:
            if t.get('k') == 'ptr':
                if x.get('k') == 'cast' and 'NullTo' in (x.get('ck') or ''):
                    return 'nullptr'
                if 'cv' in x or x.get('k') == 'nullptr':
                    return 'nullptr'
                l = self.loc(x) if x.get('k') in ('ref', 'member', 'index') else self.deref(x)
                v = self.store.get(l)
                return 'ptr:' + (v[1] if isinstance(v, tuple) and v[0] == 'ptr' else l)
            return show_int(self.ival(x))
        except Unsupported:
            return 'expr@' + loc_str(x)

    @staticmethod
    def _flag_expr(e):
        x = strip(e)
        while isinstance(x, dict) and x.get('k') in ('cast', 'paren', 'load'):
            x = strip(x['e'])
        return x

    def _flag_locs(self, e):
        out = []
        for y in walk(e):
            if isinstance(y, dict) and y.get('k') == 'ref' and y.get('rk') in ('local', 'param'):
                try:
                    out.append(self.loc(y))
                except Unsupported:
                    pass
        return out

    def _is_flag(self, e):
        """a boolean-typed operand that is not a literal (a flag variable, a comparison, a negation)"""
        x = self._flag_expr(e)
        if not isinstance(x, dict) or 'bool' in x and x.get('k') == 'lit':
            return False
        if (x.get('t') or {}).get('k') != 'bool':
            return False
        return x.get('k') in ('ref', 'member', 'bin', 'un')

    def decide(self, e):
        """outcome of an atomic condition when the segment's own writes determine it (null tests of pointer locals assigned on
        the path, comparisons of known integers); None when it depends on start-of-segment values"""
        e = strip(e)
        k = e.get('k')
        if k == 'cast':
            return self.decide(e['e'])

        def ptrval(x):
            x = strip(x)
            while x.get('k') == 'cast':
                if 'Null' in (x.get('ck') or ''):
                    return 'null'
                x = strip(x['e'])
            if x.get('k') == 'nullptr' or ('cv' in x and (x.get('t') or {}).get('k') == 'ptr'):
                return 'null'
            if (x.get('t') or {}).get('k') != 'ptr' or x.get('k') not in ('ref', 'member'):
                return None
            try:
                v = self.store.get(self.loc(x))
            except Unsupported:
                return None
            if isinstance(v, tuple) and v[0] == 'ptr':
                return 'null' if v[1] == 'nullptr' else 'obj'
            return None
        if k == 'bin' and e.get('op') in ('==', '!='):
            a, b = ptrval(e['lhs']), ptrval(e['rhs'])
            if a is not None and b is not None and 'null' in (a, b):
                same_ = (a == b)
                return same_ if e['op'] == '==' else (not same_)
            try:
                x, y = self.ival(e['lhs']), self.ival(e['rhs'])
                if x.is_const() and y.is_const():
                    return (x.const_value() == y.const_value()) == (e['op'] == '==')
            except Unsupported:
                pass
            return None
        if k in ('ref', 'member') and (e.get('t') or {}).get('k') == 'ptr':
            a = ptrval(e)
            return None if a is None else (a == 'obj')
        if k in ('ref', 'member') and (e.get('t') or {}).get('k') == 'bool':
            try:
                v = self.store.get(self.loc(e))
            except Unsupported:
                return None
            if isinstance(v, ZPoly) and v.is_const():
                return bool(v.const_value())
        if k in ('bin', 'un', 'ref', 'member', 'load') and (e.get('t') or {}).get('k') in ('bool', 'int'):
            try:
                v = self.ival(e)
                if v.is_const():
                    return bool(v.const_value())
            except Unsupported:
                pass
        return None

    def cond_key(self, e):
        e = strip(e)
        k = e.get('k')
        if k == 'bin' and e.get('op') in ('==', '!=', '<', '<=', '>', '>='):
            return ('cmp', e['op'], self.show(e['lhs']), self.show(e['rhs']))
        if k == 'call':
            th = e.get('this')
            tl = None
            if th is not None:
                try:
                    tl = self.deref(th) if e.get('arrow') else self.loc(th)
                except Unsupported:
                    tl = '?'
            al = []
            for a in e.get('args', []):
                try:
                    x = strip(a)
                    while x.get('k') == 'cast':
                        x = strip(x['e'])
                    al.append(self.loc(x))
                except Unsupported:
                    al.append('?')
            return ('call', e.get('name'), tl, tuple(al))
        if k == 'cast':
            return self.cond_key(e['e'])
        if k in ('ref', 'load') and getattr(self, 'boolkeys', None):
            try:
                l = self.loc(e['e'] if k == 'load' else e)
                if l in self.boolkeys:
                    return self.boolkeys[l]
            except Unsupported:
                pass
        return ('truth', self.show(e))

    def stmt(self, s):
        k = s.get('k')
        if k == 'expr':
            self.expr(s['e'])
        elif k == 'decl':
            for v in s['vars']:
                self.decl(v)
        elif k == 'return':
            if s.get('e') is not None:
                e = strip(s['e'])
                if e.get('k') == 'call':
                    self.ret = self.call(e)
                else:
                    try:
                        self.ret = self.ival(e)
                    except Unsupported:
                        self.ret = ('expr', loc_str(e))
            else:
                self.ret = 'void'
        elif k in ('null', 'compound'):
            for c in s.get('body', []):
                self.stmt(c)
        else:
            raise Unsupported('statement %s at %s' % (k, loc_str(s)))

    def decl(self, v):
        t = v.get('t') or {}
        init = v.get('init')
        name = 'L:' + v['name']
        kd = t.get('k')
        if kd == 'ref':
            self.binds[v['id']] = self.loc(init)
            return
        if kd == 'ptr':
            self.binds[v['id']] = name
            if init is not None:
                x = strip(init)
                isnull = x.get('k') == 'nullptr' or (x.get('k') == 'cast' and 'Null' in (x.get('ck') or '')) or ('cv' in x and str(x.get('cv')) == '0')
                try:
                    self.write(name, ('ptr', 'nullptr' if isnull else self.deref(init)))
                except Unsupported:
                    pass
            return
        self.binds[v['id']] = name
        kk = kind_of_type(t)
        if kk == 'int':
            if init is not None:
                self.write(name, self.ival(init))
                if kd == 'bool':
                    x = strip(init)
                    while isinstance(x, dict) and x.get('k') in ('cast', 'paren'):
                        x = strip(x['e'])
                    if isinstance(x, dict) and x.get('k') == 'bin' and x.get('op') in ('==', '!=', '<', '<=', '>', '>='):
                        # the flag names its defining comparison (over the values at the declaration)
                        self.boolkeys = dict(getattr(self, 'boolkeys', {}))
                        self.boolkeys[name] = self.cond_key(x)
                        if x.get('op') in ('==', '!=') and self._is_flag(x['lhs']) and self._is_flag(x['rhs']):
                            # a relation between two run-time flags: remembered as written, decomposed where it is tested
                            self.boolrels = dict(getattr(self, 'boolrels', {}))
                            self.boolrels[name] = (x, {l_: self.store.get(l_) for l_ in self._flag_locs(x)})
            return
        if init is not None and init.get('k') == 'copyctor':
            self.copy_into(name, self.loc(init['e']), t)
        # default-initialised records: every location under `name` is *undefined*; a read before a write is reported
        self.undef_prefix = getattr(self, 'undef_prefix', set())
        if kk in ('G1', 'G2', 'GT', 'SC', 'rec') and not (init is not None and init.get('k') == 'copyctor'):
            self.undef_prefix.add(name)

    def copy_into(self, dst, src, t):
        kk = kind_of_type(t)
        if kk in ('G1', 'G2', 'GT', 'SC', 'int'):
            self.write(dst, self.read(src, kk))
            return
        rec = self.prog.records.get(t.get('rec')) if t.get('k') in ('record', 'union') else None
        if rec is None:
            raise Unsupported('copy of %s' % t.get('s'))
        for f in rec['fields']:
            self.copy_into(dst + '.' + f['name'], src + '.' + f['name'], f['t'])

    def expr(self, e):
        e = strip(e)
        k = e.get('k')
        if k == 'call' or k == 'icall':
            self.call(e)
        elif k == 'assign':
            lt = (e['lhs'].get('t') or {})
            kk = kind_of_type(lt)
            l = self.loc(e['lhs'])
            if kk == 'int':
                v = self.ival(e['rhs'])
                if e['op'] == '=':
                    self.write(l, v)
                elif e['op'] in ('+=', '-='):
                    cur = self.read(l, 'int')
                    self.write(l, cur + v if e['op'] == '+=' else cur - v)
                else:
                    self.write(l, ZPoly.var('expr@' + loc_str(e)))
            elif kk == 'ptr':
                self.write(l, ('ptr', self.deref(e['rhs'])))
            elif kk in ('G1', 'G2', 'GT', 'SC'):
                self.write(l, self.val(e['rhs'], kk))
            elif kk == 'rec':
                self.copy_into(l, self.loc(e['rhs']), lt)
            else:
                raise Unsupported('assignment at %s' % loc_str(e))
        elif k == 'un' and e.get('op') in ('++', '--'):
            l = self.loc(e['e'])
            cur = self.read(l, 'int')
            self.write(l, cur + (1 if e['op'] == '++' else -1))
        else:
            # an expression statement without effect in this domain
            for c in [x for x in walk(e) if x.get('k') in ('call', 'icall')]:
                self.call(c)

    # ---- calls ----
    def call(self, e):
        name = e.get('name') or ''
        args = e.get('args', [])
        th = e.get('this')
        if e.get('k') == 'icall':
            vals = []
            for a in args:
                vals.append(self.describe_arg(a))
            self.calls.append(('callback', vals, loc_str(e)))
            return None
        tk = None
        tl = None
        if th is not None:
            tt = (th.get('t') or {})
            if e.get('arrow'):
                tt = tt.get('pointee') or {}
                tl = self.deref(th)
            else:
                tl = self.loc(th)
            tk = kind_of_type(tt)
        if tk in ('G1', 'G2'):
            return self.group_op(name, tk, tl, args, e)
        if tk == 'GT':
            return self.gt_op(name, tl, args, e)
        if tk == 'SC':
            return self.scalar_op(name, tl, args, e)
        callee = self.prog.callee(e, self.fn)
        qn = strip_tmpl((callee or {}).get('qn') or e.get('qn') or name)
        if name == 'random_zpstar':
            s = ZPoly.var(self.new_fresh('rand'))
            self.write(self.loc(args[0]), s)
            self.write(self.loc(args[1]), s)
            return None
        if name == 'pairing' and len(args) == 3:
            a, b = self.val(args[1]), self.val(args[2])
            if a.g != 'G1' or b.g != 'G2':
                a, b = b, a
            self.write(self.loc(args[0]), pair(a, b))
            return None
        if name == 'pairing_product':
            n = self.ival(args[2])
            m = self.ival(args[4])
            if not (n.is_const() and m.is_const() and m.const_value() == 0):
                raise Unsupported('pairing_product with a symbolic number of pairs at %s' % loc_str(e))
            base = self.deref(args[1])
            acc = Elt('GT')
            for i in range(n.const_value()):
                pa = self.store.get('%s[%d].g1' % (base, i))
                pb = self.store.get('%s[%d].g2' % (base, i))
                if not (isinstance(pa, tuple) and isinstance(pb, tuple)):
                    raise Unsupported('pair %d of the product is not set at %s' % (i, loc_str(e)))
                acc = acc + pair(self.read(pa[1], 'G1'), self.read(pb[1], 'G2'))
            self.write(self.loc(args[0]), acc)
            return None
        if name in ('equal',) and len(args) == 2:
            ka = kind_of_type(strip(args[0]).get('t'))
            if ka in ('G1', 'G2', 'GT', 'SC'):
                return ('equal', self.val(args[0], ka), self.val(args[1], ka))
            return None
        if name == 'fill_table' and th is not None and args:
            self.write(tl + '.base', self.val(args[0]))
            return None
        if name == 'from_bigint' and th is not None and args:
            self.write(tl + '.value', self.val(args[0], 'SC'))
            return None
        if name in ('encode',) and th is not None:
            self.write(tl, ('enc', self.val(args[0])))
            return None
        if name in ('memcpy', 'memset', 'memmove'):
            raise Unsupported('%s at %s' % (name, loc_str(e)))
        if th is not None and name in ('encode', 'decode'):
            return None
        if callee is not None and 'body' in callee and callee['l'][0].startswith(('src/wkdibe/', 'src/lqibe/', 'include/wkdibe/', 'include/lqibe/')) \
                and getattr(self, 'inline_depth', 0) < 4:
            return self.inline(callee, th, tl, args, e)
        # any other call: opaque, but it must not touch scheme objects silently
        self.calls.append((qn, [self.describe_arg(a) for a in args], loc_str(e)))
        return None

    def inline(self, callee, th, tl, args, e):
        """helpers of the scheme sources are interpreted in place; a branch on run-time data is admitted only when both arms
        have the same effect"""
        saved_binds, saved_fn = self.binds, self.fn
        newb = {}
        for p, a in zip(callee['params'], args):
            pt = p['t'] or {}
            if pt.get('k') == 'ref':
                newb[p['id']] = self.loc(a)
            elif pt.get('k') == 'ptr':
                newb[p['id']] = self.deref(a)
            else:
                nm = 'H%d:%s' % (getattr(self, 'inline_depth', 0) + 1, p['name'])
                kk = kind_of_type(pt)
                if kk == 'int':
                    self.store[nm] = self.ival(a)
                elif kk in ('G1', 'G2', 'GT', 'SC'):
                    self.store[nm] = self.val(a, kk)
                else:
                    raise Unsupported('helper %s takes a record by value at %s' % (callee['qn'], loc_str(e)))
                newb[p['id']] = nm
        self.binds = newb
        self.fn = callee
        self.inline_depth = getattr(self, 'inline_depth', 0) + 1
        old_ret = self.ret
        self.ret = None
        try:
            self._inline_stmt(callee['body'])
        finally:
            r = self.ret
            self.binds, self.fn = saved_binds, saved_fn
            self.inline_depth -= 1
            self.ret = old_ret
        return r if not (r == 'void') else None

    def _inline_stmt(self, s):
        """returns True when a return statement was executed"""
        if s is None:
            return False
        k = s.get('k')
        if k == 'compound':
            for c in s['body']:
                if self._inline_stmt(c):
                    return True
            return False
        if k == 'constexpr_if':
            return self._inline_stmt(s.get('taken'))
        if k in ('expr', 'decl', 'null'):
            self.stmt(s)
            return False
        if k == 'return':
            self.stmt(s)
            return True
        if k == 'if':
            take = self._inline_cond(s['c'])
            return self._inline_stmt(s['then'] if take else s.get('else'))
        if k in ('for', 'while'):
            if k == 'for' and s.get('init'):
                self._inline_stmt(s['init'])
            for _ in range(600):
                d = self.decide(s['c']) if s.get('c') is not None else True
                if d is None:
                    raise Unsupported('helper loop on run-time data at %s' % loc_str(s))
                if not d:
                    return False
                if self._inline_stmt(s['body']):
                    return True
                if k == 'for' and s.get('inc') is not None:
                    self.expr(s['inc'])
            raise Unsupported('helper loop bound at %s' % loc_str(s))
        raise Unsupported('helper statement %s at %s' % (k, loc_str(s)))

    def _inline_cond(self, c):
        """outcome of a condition inside an inlined helper: short-circuit operators are followed, an atomic condition that the segment's
        own writes decide is decided, any other one is a run-time branch - the driver re-runs the segment once per outcome (choice
        script) - and the calls inside it are executed for their effects, as for the conditions of the routine itself"""
        c0 = strip(c)
        while isinstance(c0, dict) and c0.get('k') == 'cast' and c0.get('ck') in (None, 'NoOp', 'IntegralToBoolean', 'IntegralCast', 'LValueToRValue'):
            c0 = strip(c0['e'])
        if isinstance(c0, dict) and c0.get('k') == 'bin' and c0.get('op') == '&&':
            return self._inline_cond(c0['lhs']) and self._inline_cond(c0['rhs'])
        if isinstance(c0, dict) and c0.get('k') == 'bin' and c0.get('op') == '||':
            return self._inline_cond(c0['lhs']) or self._inline_cond(c0['rhs'])
        if isinstance(c0, dict) and c0.get('k') == 'un' and c0.get('op') == '!':
            return not self._inline_cond(c0['e'])
        d = self.decide(c0)
        if d is not None:
            return d
        script = getattr(self, 'script', [])
        pos = getattr(self, 'script_pos', 0)
        if pos >= len(script):
            raise NeedChoice()
        take = script[pos]
        self.script_pos = pos + 1
        key = self.cond_key(c0)
        for x in [x for x in walk(c0) if x.get('k') == 'call']:
            self.call(x)
        self.helper_conds = getattr(self, 'helper_conds', []) + [(key, take)]
        return take

    def describe_arg(self, a):
        x = strip(a)
        while x.get('k') == 'cast':
            x = strip(x['e'])
        try:
            if x.get('k') == 'un' and x.get('op') == '&':
                l = self.loc(x['e'])
                sub = {k: v for k, v in self.store.items() if k == l or k.startswith(l + '.')}
                return ('obj', l, tuple(sorted((k, repr(v)) for k, v in sub.items())))
            t = kind_of_type(x.get('t'))
            if t == 'int':
                return ('int', show_int(self.ival(x)))
            if t == 'ptr':
                return ('ptr', self.deref(x))
            if x.get('k') == 'sizeof' or 'cv' in x:
                return ('const', x.get('cv'))
            return ('loc', self.loc(x))
        except Unsupported:
            return ('?', loc_str(a))

    def sval(self, a):
        """scalar argument (BigInt<256> or PowersOfX)"""
        return self.val(a, 'SC')

    def group_op(self, name, g, tl, args, e):
        if name == 'copy':
            self.write(tl, self.val(args[0], g))
        elif name in ('from_projective', 'from_affine'):
            self.write(tl, self.val(args[0], g))
        elif name == 'add':
            self.write(tl, self.val(args[0], g) + self.val(args[1], g))
        elif name == 'subtract':
            self.write(tl, self.val(args[0], g) - self.val(args[1], g))
        elif name == 'negate':
            self.write(tl, -self.val(args[0], g))
        elif name == 'multiply2':
            v = self.val(args[0], g)
            self.write(tl, v + v)
        elif name in ('multiply', 'multiply_frobenius', 'multiply_endomorphism', 'multiply_wnaf', 'multiply_doubleadd'):
            self.write(tl, self.val(args[0], g).scale(self.sval(args[1])))
        elif name == 'random_generator':
            self.write(tl, Elt.base(g, self.new_fresh('gen')))
        elif name == 'from_hash':
            self.write(tl, Elt.base(g, 'H(%s)' % self.describe_arg(args[0])[1]))
        elif name == 'frobenius_map':
            pw = self.ival(args[1])
            if not pw.is_const():
                raise Unsupported('frobenius_map with a run-time power at %s' % loc_str(e))
            v = self.val(args[0], g)
            for _ in range(pw.const_value()):
                v = v.scale(ZPoly.var('FROB'))
            self.write(tl, v)
        elif name == 'endomorphism':
            self.write(tl, self.val(args[0], g).scale(ZPoly.var('ENDO')))
        elif name == 'set':
            self.write(tl, self.val(args[0], g))
        elif name in ('is_zero', 'is_normalized'):
            return ('pred', name, self.read(tl, g))
        else:
            raise Unsupported('group operation %s at %s' % (name, loc_str(e)))
        return None

    def gt_op(self, name, tl, args, e):
        if name == 'copy':
            self.write(tl, self.val(args[0], 'GT'))
        elif name == 'multiply':
            self.write(tl, self.val(args[0], 'GT') + self.val(args[1], 'GT'))
        elif name in ('inverse', 'conjugate'):
            # on the target group (unitary elements) conjugation is inversion
            self.write(tl, -self.val(args[0], 'GT'))
        elif name in ('square', 'square_cyclotomic'):
            v = self.val(args[0], 'GT')
            self.write(tl, v + v)
        elif name in ('exponentiate_gt', 'exponentiate_gt_div', 'exponentiate_gt_nodiv', 'exponentiate'):
            self.write(tl, self.val(args[0], 'GT').scale(self.sval(args[1])))
        elif name == 'random_gt':
            s = ZPoly.var(self.new_fresh('rand'))
            self.write(self.loc(args[0]), s)
            self.write(tl, self.val(args[1], 'GT').scale(s))
        elif name == 'write_big_endian':
            self.write(self.deref(args[0]), ('bytes', self.read(tl, 'GT')))
        elif name in ('is_zero', 'is_one'):
            return ('pred', name, self.read(tl, 'GT'))
        else:
            raise Unsupported('target-group operation %s at %s' % (name, loc_str(e)))
        return None

    def scalar_op(self, name, tl, args, e):
        if name == 'copy':
            v = self.sval(args[0])
            # BigInt<to>::copy<from>: a narrowing copy keeps only the low bits - an opaque function of the source
            dst_t = ((e.get('this') or {}).get('t') or {})
            if e.get('arrow'):
                dst_t = dst_t.get('pointee') or {}
            src_t = (strip(args[0]).get('t') or {})
            ds, ss = dst_t.get('size'), src_t.get('size')
            if ds and ss and ds < ss:
                v = ZPoly.var('low%d(%s)' % (8 * ds, repr(v)))
            self.write(tl, v)
        elif name == 'add':
            self.write(tl, self.sval(args[0]) + self.sval(args[1]))
            return ('carry',)
        elif name == 'subtract':
            self.write(tl, self.sval(args[0]) - self.sval(args[1]))
            return ('borrow',)
        elif name == 'random':
            s = ZPoly.var(self.new_fresh('rand'))
            self.write(tl, s)
            self.write(self.loc(args[0]), s)
        elif name in ('is_zero', 'equal', 'compare', 'bit'):
            return ('pred', name)
        else:
            raise Unsupported('scalar operation %s at %s' % (name, loc_str(e)))
        return None

    # ---- results ----
    def effects(self):
        out = {}
        for l in self.written:
            out[l] = self.store[l]
        return out


def show_int(p):
    if p.is_const():
        return str(p.const_value())
    parts = []
    for m, c in sorted(p.t.items(), key=lambda x: str(x[0])):
        if m == ():
            continue
        s = '*'.join(a for a, e in m)
        parts.append(s if c == 1 else '%d*%s' % (c, s))
    c0 = p.t.get((), 0)
    s = '+'.join(parts)
    if c0:
        s += '%+d' % c0
    return s


def run_path_all(prog, fn, g, path):
    """every outcome of the path: branches on run-time data inside inlined helpers multiply the outcomes.
    Returns [(segment or None, conditions)]"""
    out = []
    work = [[]]
    while work:
        script = work.pop()
        try:
            seg, conds = run_path(prog, fn, g, path, script)
        except NeedChoice:
            if len(script) > 8:
                raise Unsupported('too many run-time branches in helpers')
            work.append(script + [True])
            work.append(script + [False])
            continue
        if seg is not None:
            conds = conds + getattr(seg, 'helper_conds', [])
        out.append((seg, conds))
    return out


def run_path(prog, fn, g, path, script=None):
    """interpret the statements of one CFG path (list of (node id, label taken)); returns (segment, [(condition key, outcome)])"""
    seg = Seg(prog, fn)
    seg.script = list(script or [])
    seg.script_pos = 0
    # reference locals bound once to an object named by the parameters alone (`G1& prodexp = precomputed.prodexp;`) keep their meaning
    # in every segment, also in those that start at a loop head after the declaration
    for x in walk(fn['body']):
        if isinstance(x, dict) and x.get('k') == 'decl':
            for v in x['vars']:
                if (v.get('t') or {}).get('k') == 'ref' and v.get('init') is not None and v.get('id') is not None:
                    ini = v['init']
                    if any(isinstance(y, dict) and y.get('k') == 'ref' and y.get('rk') == 'local' for y in walk(ini)):
                        continue
                    if any(isinstance(y, dict) and y.get('k') in ('call', 'index') for y in walk(ini)):
                        continue
                    try:
                        seg.binds[v['id']] = seg.loc(ini)
                    except Unsupported:
                        pass
    # const locals / reference locals declared before this segment whose initialiser still holds at its first node (checked on the CFG)
    if path and path[0][0] != g.entry.id:
        try:
            live = g.live_const_locals(path[0][0])
        except Exception:
            live = []
        for (v, ini) in live:
            t = v.get('t') or {}
            try:
                if t.get('k') == 'ref':
                    if v['id'] not in seg.binds:
                        seg.binds[v['id']] = seg.loc(ini)
                else:
                    seg.binds[v['id']] = 'L:' + v['name']
                    seg.store['L:' + v['name']] = seg.ival(ini)
            except Unsupported:
                pass
    conds = []
    for (nid, lab) in path:
        n = g.nodes[nid]
        key = seg.exec_node(n)
        if n.kind == 'cond' and lab is not None:
            if isinstance(key, tuple) and key and key[0] == 'decided':
                if key[1] != lab:
                    return None, None       # the path contradicts what its own statements establish
                continue
            if isinstance(key, tuple) and key and key[0] == 'flagrel':
                # A == B / A != B with the outcome of A chosen: the label fixes B
                _, op, a, kb = key
                equal = lab if op == '==' else (not lab)
                conds.append((kb, a if equal else (not a)))
                continue
            conds.append((key, lab))
    return seg, conds


def segments(g):
    """cut the CFG at entry, every loop head and exit: [(from cut, to cut, path)] with cut names 'entry', 'L0', 'L1', ..., 'exit'
    (loops numbered in source order)"""
    heads = sorted(h for (h, lp) in g.loops)
    names = {g.entry.id: 'entry', g.exit.id: 'exit'}
    for i, h in enumerate(heads):
        names[h] = 'L%d' % i
    out = []
    for c in [g.entry.id] + heads:
        for p in g.paths(c, set(heads) | {g.exit.id}, allow_back_edges=0):
            end = p[-1][0]
            if end not in names:
                continue
            out.append((names[c], names[end], p[:-1] if end != g.exit.id else p))
    return out


# ---------------------------------------------------------------------------------------------- concrete-control executor
class _Ret(Exception):
    pass


class _Brk(Exception):
    pass


class _Cont(Exception):
    pass


class StopAt(Exception):
    """raised by the stop predicate: the state at that point is the result"""
    pass


def _copy_seg(s):
    import copy
    n = Seg(s.prog, s.fn)
    n.store = dict(s.store)
    n.binds = dict(s.binds)
    n.written = list(s.written)
    n.fresh = s.fresh
    n.calls = list(s.calls)
    n.ret = s.ret
    n.reads = set(s.reads)
    n.conds = list(getattr(s, 'conds', []))
    return n


def exec_until(prog, fn, stop, max_states=256):
    """Execute fn's body with concrete control where the segment's own values decide the conditions (constant loop bounds), forking
    on the others, until `stop(stmt)` is true for a statement about to be executed (or the function returns).  Returns the list of
    segments (each with .conds = [(key, outcome)] of the forks taken)."""
    start = Seg(prog, fn)
    start.conds = []
    results = []

    def branch(seg, c):
        c = strip(c)
        if c.get('k') == 'bin' and c.get('op') == '&&':
            out = []
            for (r, x) in branch(seg, c['lhs']):
                out += branch(x, c['rhs']) if r else [(False, x)]
            return out
        if c.get('k') == 'bin' and c.get('op') == '||':
            out = []
            for (r, x) in branch(seg, c['lhs']):
                out += [(True, x)] if r else branch(x, c['rhs'])
            return out
        if c.get('k') == 'un' and c.get('op') == '!':
            return [(not r, x) for (r, x) in branch(seg, c['e'])]
        d = seg.decide(c)
        if d is not None:
            return [(d, seg)]
        key = seg.cond_key(c)
        for prev, lab in seg.conds:
            if prev == key and key[0] in ('cmp', 'truth'):
                return [(lab, seg)]
        outs = []
        for lab in (True, False):
            x = _copy_seg(seg)
            x.conds.append((key, lab))
            outs.append((lab, x))
        return outs

    def run(seg, s):
        """returns [(seg, status)] with status in ok / continue / break; returned or stopped states go to `results`"""
        if s is None:
            return [(seg, 'ok')]
        if stop(s):
            results.append(seg)
            return []
        k = s.get('k')
        if k == 'compound':
            cur = [(seg, 'ok')]
            for c in s['body']:
                nxt = []
                for (x, stt) in cur:
                    if stt != 'ok':
                        nxt.append((x, stt))
                    else:
                        nxt += run(x, c)
                cur = nxt
                if len(cur) + len(results) > max_states:
                    raise Unsupported('state explosion')
            return cur
        if k == 'constexpr_if':
            return run(seg, s.get('taken'))
        if k in ('expr', 'decl', 'null'):
            # a `?:` on run-time data inside the statement: one state per outcome (choice script, as in run_path_all)
            outs = []
            work = [[]]
            while work:
                script = work.pop()
                s2 = _copy_seg(seg)
                for attr in ('boolkeys', 'undef_prefix', 'helper_conds', 'inline_depth'):
                    if hasattr(seg, attr):
                        setattr(s2, attr, getattr(seg, attr) if attr == 'inline_depth' else type(getattr(seg, attr))(getattr(seg, attr)))
                s2.script, s2.script_pos = list(script), 0
                try:
                    s2.stmt(s)
                except NeedChoice:
                    if len(script) > 6:
                        raise Unsupported('too many run-time conditionals in one statement at %s' % loc_str(s))
                    work.append(script + [True])
                    work.append(script + [False])
                    continue
                hc = getattr(s2, 'helper_conds', [])
                if hc:
                    s2.conds = list(getattr(s2, 'conds', [])) + list(hc)
                    s2.helper_conds = []
                s2.script, s2.script_pos = [], 0
                outs.append((s2, 'ok'))
            return outs
        if k == 'return':
            seg.stmt(s)
            results.append(seg)
            return []
        if k == 'continue':
            return [(seg, 'continue')]
        if k == 'break':
            return [(seg, 'break')]
        if k == 'if':
            outs = []
            for (r, x) in branch(seg, s['c']):
                outs += run(x, s['then'] if r else s.get('else'))
            return outs
        if k in ('for', 'while'):
            cur = [x for (x, stt) in run(seg, s.get('init'))] if k == 'for' and s.get('init') else [seg]
            done = []
            for _ in range(600):
                nxt = []
                for x in cur:
                    cnds = branch(x, s['c']) if s.get('c') is not None else [(True, x)]
                    for (r, y) in cnds:
                        if not r:
                            done.append((y, 'ok'))
                            continue
                        for (z, stt) in run(y, s['body']):
                            if stt == 'break':
                                done.append((z, 'ok'))
                                continue
                            if k == 'for' and s.get('inc') is not None:
                                z.expr(s['inc'])
                            nxt.append(z)
                cur = nxt
                if not cur:
                    return done
                if len(cur) + len(done) > max_states:
                    raise Unsupported('state explosion in a loop at %s' % loc_str(s))
            raise Unsupported('loop at %s does not terminate under the analysis' % loc_str(s))
        raise Unsupported('statement %s at %s' % (k, loc_str(s)))

    tail = run(start, fn['body'])
    return results + [x for (x, stt) in tail]
