"""R-CONST / R-XCONST: value-level relations between compile-time constants."""
def rule_xconst(ctx, cfg, prog):
    pass
