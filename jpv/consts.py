"""R-CONST / R-XCONST: value-level relations between compile-time constants.
Constants are located by *role* (template argument of the field type, argument of a resolved call inside a
named function, table indexed inside a named function), never by the spelling of the constant's own name.
Oracle: jpv/bls.py (Python big-int arithmetic derived from the curve parameter x)."""
from . import bls
from .facts import walk, loc_str, strip
from . import buildmodel as bm

NS = 'embedded_pairing::bls12_381::'


# ---------------- value decoding ----------------
def decode(v):
    """APValue JSON -> python: ints, dicts (structs, bases merged), lists; BigInt-style unions -> int."""
    if v is None:
        return None
    if 'i' in v:
        return int(v['i'], 16)
    if 'array' in v:
        return [decode(x) for x in v['array']]
    if 'union' in v:
        if v.get('member') is None:
            return None
        inner = v['v']
        if 'array' in inner and all('i' in x for x in inner['array']):
            bits = inner['array'][0]['bits'] if inner['array'] else 0
            n = 0
            for i, x in enumerate(inner['array']):
                n |= (int(x['i'], 16) & ((1 << bits) - 1)) << (bits * i)
            return n
        return decode(inner)
    if 'struct' in v:
        d = {}
        for b in v.get('bases', []):
            bd = decode(b)
            if isinstance(bd, dict):
                d.update(bd)
        for f in v.get('fields', []):
            d[f['n']] = decode(f['v'])
        return d
    if 'lvalue' in v:
        return ('lvalue', v['lvalue'], v.get('offset', 0))
    return ('unsupported', v)


def as_int(x):
    while isinstance(x, dict) and len(x) == 1:
        x = list(x.values())[0]
    return x


class ConstModel:
    def __init__(self, ctx, cfg, prog):
        self.ctx, self.cfg, self.prog = ctx, cfg, prog
        self.word_bits = bm.configs()[cfg]['words']

    def g(self, gid):
        g = self.prog.globals.get(gid)
        self.ctx.require(g is not None, 'constant %s not found in %s' % (gid, self.cfg))
        return g

    def val(self, gid):
        g = self.g(gid)
        self.ctx.require('value' in g, 'constant %s has no compile-time value in %s' % (gid, self.cfg))
        return decode(g['value'])

    def ival(self, gid):
        v = as_int(self.val(gid))
        self.ctx.require(isinstance(v, int), 'constant %s is not an integer-like value' % gid)
        return v

    def fn(self, qn):
        fs = self.prog.fn_by_qn(qn)
        self.ctx.require(len(fs) >= 1, 'anchor function %s not found (with body) in %s' % (qn, self.cfg))
        return fs[0]

    def field_params(self, field):
        """(bits, modulus gid, R gid, R2 gid, inv gid) from the Fp<> base of a field type."""
        rec = self.prog.records.get(field)
        self.ctx.require(rec is not None and rec['bases'], 'field type %s not found' % field)
        base = self.prog.records.get(rec['bases'][0]['rec'])
        self.ctx.require(base is not None and base.get('targs') and len(base['targs']) == 5,
                         'field type %s does not derive from Fp<bits,p,r,r2,inv>' % field)
        ta = base['targs']
        return int(ta[0]), ta[1], ta[2], ta[3], ta[4]

    def call_arg_globals(self, fn, callee_name, argidx):
        """global ids passed as argument #argidx of calls to a callee with unqualified name callee_name in fn"""
        out = []
        for n in walk(fn['body']):
            if n.get('k') == 'call' and n.get('name') == callee_name and len(n.get('args', [])) > argidx:
                a = n['args'][argidx]
                for m in walk(a):
                    if m.get('k') == 'ref' and m.get('rk') == 'global':
                        out.append((m['g'], n))
                        break
        return out

    def indexed_tables(self, fn):
        """(global id, index expr node, subscript node) for every subscript of a global array in fn"""
        out = []
        for n in walk(fn['body']):
            if n.get('k') == 'index':
                b = strip(n['base'])
                while b.get('k') == 'cast':
                    b = strip(b['e'])
                if b.get('k') == 'ref' and b.get('rk') == 'global':
                    out.append((b['g'], n['idx'], n))
        return out

    def ob(self, rule, ok, key, what, site='', detail=None, sample=None):
        self.ctx.ob(rule, ok, key, site or key, what, cfg=self.cfg, detail=detail,
                    sample=sample if sample is not None else dict(config=self.cfg, relation=key))


def mont_decode(v, p, bits):
    return (v * bls.inv(pow(2, bits, p), p)) % p


def fq2_dec(d, bits=384):
    return (mont_decode(as_int(d['c0']), bls.Q, bits), mont_decode(as_int(d['c1']), bls.Q, bits))


# ---------------- C02 ----------------
def _masks(ctx, m, prog, fname, p, label):
    """top-byte masks and one-subtraction sufficiency of the samplers / hash reductions of one field"""
    bl = p.bit_length()
    mask = (1 << (bl % 8)) - 1 if bl % 8 else 0xff
    nm = 0
    for meth in ('random', 'hash_reduce', 'read_big_endian'):
        fs = prog.fn_by_qn(fname + '::' + meth)
        if not fs:
            continue
        for nnode in walk(fs[0]['body']):
            if nnode.get('k') == 'assign' and nnode.get('op') == '&=' and 'cv' in (nnode.get('rhs') or {}):
                lt = (nnode['lhs'].get('t') or {})
                if lt.get('size') != 1:
                    continue
                nm += 1
                got = int(nnode['rhs']['cv']) & 0xff
                m.ob('R-CONST', got == mask, 'mask|%s|%s' % (label, meth),
                     '%s::%s masks the top byte with %#x, expected %#x = 2^(bitlen(%s) mod 8)-1: the masked value must stay below 2%s for one '
                     'conditional subtraction to reduce it' % (fname, meth, got, mask, label, label),
                     loc_str(nnode))
    ctx.require(nm >= 2, 'no top-byte mask found in %s::random/hash_reduce' % fname)
    m.ob('R-CONST', (1 << bl) <= 2 * p, 'onesub|' + label, '2^bitlen(%s) > 2%s: one conditional subtraction does not suffice' % (label, label))
    return nm + 1


def rule_sampling_masks(ctx, cfg, prog):
    """(C10) the masks alone: hashed / sampled values are cut to the bit length of the modulus before the single conditional subtraction"""
    m = ConstModel(ctx, cfg, prog)
    n = 0
    for fname, p, label in ((NS + 'Fq', bls.Q, 'q'), (NS + 'Fr', bls.R_ORDER, 'r')):
        n += _masks(ctx, m, prog, fname, p, label)
    return n


def rule_field_constants(ctx, cfg, prog):
    m = ConstModel(ctx, cfg, prog)
    n = 0
    for fname, expect_p, label in ((NS + 'Fq', bls.Q, 'q'), (NS + 'Fr', bls.R_ORDER, 'r')):
        bits, gp, gr, gr2, ginv = m.field_params(fname)
        p = m.ival(gp)
        site = loc_str(m.g(gp))
        m.ob('R-CONST', p == expect_p, 'modulus|' + label,
             '%s modulus (template argument %s) = %#x differs from the BLS12-381 %s derived from x' % (fname, gp, p, label), site)
        p = expect_p
        R = m.ival(gr)
        m.ob('R-CONST', R == pow(2, bits, p), 'montR|' + label, '%s: R (%s) != 2^%d mod %s' % (fname, gr, bits, label), loc_str(m.g(gr)))
        R2 = m.ival(gr2)
        m.ob('R-CONST', R2 == pow(2, 2 * bits, p), 'montR2|' + label, '%s: R2 (%s) != R^2 mod %s' % (fname, gr2, label), loc_str(m.g(gr2)))
        iv = m.ival(ginv)
        W = m.word_bits
        want = (-bls.inv(p, 1 << W)) % (1 << W)
        m.ob('R-CONST', (iv & ((1 << W) - 1)) == want, 'montInvWord|' + label,
             '%s: used word of inv (%s mod 2^%d = %#x) != -%s^-1 mod 2^%d = %#x' % (fname, ginv, W, iv & ((1 << W) - 1), label, W, want),
             loc_str(m.g(ginv)))
        # zero / one members
        one = as_int(m.val(fname + '::one'))
        zero = as_int(m.val(fname + '::zero'))
        m.ob('R-CONST', one == pow(2, bits, p), 'one|' + label, '%s::one is not R (Montgomery 1)' % fname, loc_str(m.g(fname + '::one')))
        m.ob('R-CONST', zero == 0, 'zero|' + label, '%s::zero is not 0' % fname, loc_str(m.g(fname + '::zero')))
        n += 6
        n += _masks(ctx, m, prog, fname, p, label)
    # Fq::negative_one
    neg1 = as_int(m.val(NS + 'Fq::negative_one'))
    m.ob('R-CONST', neg1 == (bls.Q - pow(2, 384, bls.Q)) % bls.Q, 'negone|q', 'Fq::negative_one != q - R', loc_str(m.g(NS + 'Fq::negative_one')))
    # Fq::square_root exponent
    f = m.fn(NS + 'Fq::square_root')
    gl = m.call_arg_globals(f, 'exponentiate', 2) + m.call_arg_globals(f, 'exponentiate_restrict', 2)
    ctx.require(len(gl) == 1, 'Fq::square_root: expected one exponentiate call with a constant exponent')
    e = m.ival(gl[0][0])
    m.ob('R-CONST', e == (bls.Q + 1) // 4, 'sqrtexp|q', 'Fq::square_root exponent %s != (q+1)/4' % gl[0][0], loc_str(gl[0][1]))
    # Fr::square_root (Tonelli-Shanks) constants
    f = m.fn(NS + 'Fr::square_root')
    s = 0
    t = bls.R_ORDER - 1
    while t % 2 == 0:
        t //= 2
        s += 1
    gl = m.call_arg_globals(f, 'exponentiate', 2)
    ctx.require(len(gl) == 2, 'Fr::square_root: expected two exponentiate calls with constant exponents')
    vals = sorted(m.ival(g_) for g_, _ in gl)
    m.ob('R-CONST', vals == sorted([t, (t + 1) // 2]), 'tonelli-exps|r',
         'Fr::square_root exponents are not {t, (t+1)/2} with r-1 = t*2^%d' % s, loc_str(gl[0][1]))
    # root of unity: the global used in the initializer of the local of Fr type; m = literal s
    roots = []
    mlits = []
    for nnode in walk(f['body']):
        if nnode.get('k') == 'decl':
            for v in nnode['vars']:
                if v.get('init') is None:
                    continue
                tt = v['t']
                if tt.get('k') == 'record' and tt['rec'] == NS + 'Fr':
                    for x in walk(v['init']):
                        if x.get('k') == 'ref' and x.get('rk') == 'global':
                            roots.append((x['g'], nnode))
                if tt.get('k') == 'int' and 'cv' in (v['init'] or {}) and v['name'] == 'm':
                    mlits.append((int(v['init']['cv']), nnode))
    ctx.require(len(roots) == 1, 'Fr::square_root: root-of-unity initializer not found')
    c = mont_decode(m.ival(roots[0][0]), bls.R_ORDER, 256)
    ok = pow(c, 1 << s, bls.R_ORDER) == 1 and pow(c, 1 << (s - 1), bls.R_ORDER) != 1
    m.ob('R-CONST', ok, 'tonelli-root|r', 'Fr::square_root: %s is not a primitive 2^%d-th root of unity (Montgomery form)' % (roots[0][0], s),
         loc_str(roots[0][1]))
    if mlits:
        m.ob('R-CONST', mlits[0][0] == s, 'tonelli-s|r', 'Fr::square_root: m = %d but the 2-adicity of r-1 is %d' % (mlits[0][0], s), loc_str(mlits[0][1]))
    else:
        ctx.require(False, 'Fr::square_root: initial m not found')
    return n + 5


# ---------------- C04 ----------------
def rule_tower_constants(ctx, cfg, prog):
    m = ConstModel(ctx, cfg, prog)
    q = bls.Q
    specs = [
        (NS + 'Fq2::frobenius_map', 2, lambda i: (pow(q - 1, i, q) if False else pow(-1 % q, ((q ** i - 1) // 2), q)), 'fq'),
        (NS + 'Fq6::frobenius_map', 6, None, 'fq2x2'),
        (NS + 'Fq12::frobenius_map', 12, lambda i: bls.f2_pow(bls.XI, (q ** i - 1) // 6), 'fq2'),
    ]
    total = 0
    for fqn, modulus, fnexp, kind in specs:
        f = m.fn(fqn)
        tabs = m.indexed_tables(f)
        ctx.require(tabs, '%s: no coefficient table subscript found' % fqn)
        names = []
        for g_, idx, node in tabs:
            if g_ not in names:
                names.append(g_)
        # R-BOUNDS: the index expression stays inside the table
        for g_, idx, node in tabs:
            gg = m.g(g_)
            extent = gg['t'].get('n')
            rng = index_range(f, idx)
            okb = rng is not None and rng[0] >= 0 and rng[1] < extent
            m.ob('R-BOUNDS', okb, 'bounds|%s|%s' % (fqn.split('::')[-2], g_.split('::')[-1]),
                 '%s indexes %s (extent %s) with an expression whose range is %s' % (fqn, g_, extent, rng), loc_str(node))
            total += 1
        for ti, g_ in enumerate(names):
            vals = m.val(g_)
            ctx.require(isinstance(vals, list), '%s is not an array' % g_)
            for i, v in enumerate(vals):
                if kind == 'fq':
                    got = mont_decode(as_int(v), q, 384)
                    want = pow(q - 1, (q ** i - 1) // 2, q)
                elif kind == 'fq2':
                    got = fq2_dec(v)
                    want = bls.f2_pow(bls.XI, (q ** i - 1) // 6)
                else:
                    got = fq2_dec(v)
                    # c1 table: xi^((q^i-1)/3); c2 table: xi^((2q^i-2)/3).  Which table multiplies c1 / c2 is
                    # decided from the call: this->c1.multiply(..., T[i]) vs this->c2.multiply(...)
                    role = table_role(f, g_)
                    ctx.require(role in ('c1', 'c2'), '%s: cannot tell which coefficient %s scales' % (fqn, g_))
                    want = bls.f2_pow(bls.XI, ((q ** i - 1) // 3) if role == 'c1' else ((2 * q ** i - 2) // 3))
                m.ob('R-CONST', got == want, 'frob|%s|%d' % (g_.split('::')[-1], i),
                     '%s[%d] is not the Frobenius coefficient required by %s' % (g_, i, fqn), loc_str(m.g(g_)))
                total += 1
    # Fq2 constants
    one = m.val(NS + 'Fq2::one')
    neg1 = m.val(NS + 'Fq2::negative_one')
    zero = m.val(NS + 'Fq2::zero')
    m.ob('R-CONST', fq2_dec(one) == (1, 0), 'fq2one', 'Fq2::one != 1')
    m.ob('R-CONST', fq2_dec(neg1) == (q - 1, 0), 'fq2negone', 'Fq2::negative_one != -1')
    m.ob('R-CONST', fq2_dec(zero) == (0, 0), 'fq2zero', 'Fq2::zero != 0')
    for nm, want in ((NS + 'Fq6::one', [(1, 0), (0, 0), (0, 0)]), (NS + 'Fq6::zero', [(0, 0)] * 3)):
        v = m.val(nm)
        got = [fq2_dec(v[k]) for k in ('c0', 'c1', 'c2')]
        m.ob('R-CONST', got == want, nm.split('::', 2)[-1], '%s has the wrong value' % nm)
    for nm, want in ((NS + 'Fq12::one', 1), (NS + 'Fq12::zero', 0)):
        v = m.val(nm)
        got = [fq2_dec(v[a][b]) for a in ('c0', 'c1') for b in ('c0', 'c1', 'c2')]
        m.ob('R-CONST', got == [(want, 0)] + [(0, 0)] * 5, nm.split('::', 2)[-1], '%s has the wrong value' % nm)
    # Fq2::square_root exponents
    f = m.fn(NS + 'Fq2::square_root')
    gl = m.call_arg_globals(f, 'exponentiate', 2)
    ctx.require(len(gl) == 2, 'Fq2::square_root: expected two exponentiate calls with constant exponents')
    vals = [m.ival(g_) for g_, _ in gl]
    m.ob('R-CONST', vals[0] == (q - 3) // 4, 'fq2sqrt-exp1', 'Fq2::square_root first exponent != (q-3)/4', loc_str(gl[0][1]))
    m.ob('R-CONST', vals[1] == (q - 1) // 2, 'fq2sqrt-exp2', 'Fq2::square_root second exponent != (q-1)/2', loc_str(gl[1][1]))
    return total + 9


def table_role(fn, gid):
    """which member of `this` is multiplied by table gid (looks at this->cK.multiply(..., T[...]))"""
    # reference locals bound to an entry of the table stand for it
    alias = set()
    for n in walk(fn['body']):
        if n.get('k') == 'decl':
            for v in n['vars']:
                if (v.get('t') or {}).get('k') == 'ref' and v.get('init') is not None and \
                        any(x.get('k') == 'ref' and x.get('g') == gid for x in walk(v['init'])):
                    alias.add(v['id'])
    for n in walk(fn['body']):
        if n.get('k') == 'call' and n.get('name') == 'multiply':
            uses = any(x.get('k') == 'ref' and (x.get('g') == gid or (x.get('rk') == 'local' and x.get('id') in alias))
                       for a in n['args'] for x in walk(a))
            if uses:
                th = strip(n.get('this'))
                if th and th.get('k') == 'member':
                    return th['name']
    return None


def index_range(fn, idx):
    """Interval of a small class of index expressions: constants, x & c, x % c, (x < c ? x : x % c), and locals
    initialised with one of those (single assignment)."""
    e = strip(idx)
    if e is None:
        return None
    if 'cv' in e:
        v = int(e['cv'])
        return (v, v)
    k = e.get('k')
    if k == 'bin' and e['op'] == '&' and 'cv' in strip(e['rhs']):
        return (0, int(strip(e['rhs'])['cv']))
    if k == 'bin' and e['op'] == '%' and 'cv' in strip(e['rhs']):
        unsigned = not (strip(e['lhs']).get('t') or {}).get('signed', True)
        c = int(strip(e['rhs'])['cv'])
        return (0, c - 1) if unsigned and c > 0 else None
    if k == 'cond':
        c = strip(e['c'])
        a = index_range_cond_true(c, strip(e['then']))
        b = index_range(fn, e['else'])
        if a and b:
            return (min(a[0], b[0]), max(a[1], b[1]))
        return None
    if k == 'ref' and e.get('rk') == 'local':
        inits = []
        writes = 0
        for n in walk(fn['body']):
            if n.get('k') == 'decl':
                for v in n['vars']:
                    if v.get('id') == e['id'] and v.get('init') is not None:
                        inits.append(v['init'])
            if n.get('k') == 'assign' and strip(n['lhs']).get('k') == 'ref' and strip(n['lhs']).get('id') == e['id']:
                writes += 1
            if n.get('k') == 'un' and n.get('op') in ('++', '--') and strip(n['e']).get('id') == e['id'] and strip(n['e']).get('rk') == 'local':
                writes += 1
        if len(inits) == 1 and writes == 0:
            return index_range(fn, inits[0])
    return None


def index_range_cond_true(c, val):
    """range of `val` when it is the variable tested by `val < CONST` (unsigned)"""
    if c.get('k') == 'bin' and c['op'] == '<' and 'cv' in strip(c['rhs']):
        l = strip(c['lhs'])
        if l.get('k') == 'ref' and val.get('k') == 'ref' and l.get('id') == val.get('id') and l.get('rk') == val.get('rk'):
            if not (l.get('t') or {}).get('signed', True):
                return (0, int(strip(c['rhs'])['cv']) - 1)
    return None


# ---------------- C19 exported constants ----------------
def rule_xconst(ctx, cfg, prog):
    m = ConstModel(ctx, cfg, prog)
    exported = {g['name']: g for g in prog.globals.values()
                if g.get('externC') and g['l'][0].startswith('src/') and g.get('is_def')}
    ctx.floor('exported C constants[%s]' % cfg, len(exported), 14)

    def pointee(name):
        g = exported.get(name)
        ctx.require(g is not None, 'exported constant %s not found' % name)
        v = decode(g.get('value')) if 'value' in g else None
        ctx.require(isinstance(v, tuple) and v[0] == 'lvalue' and v[2] == 0,
                    'exported constant %s is not the address of a constant object' % name)
        tgt = prog.globals.get(v[1])
        if tgt is None:
            # qualified name printed without template args etc.
            cands = [x for x in prog.globals.values() if x['id'].endswith(v[1])]
            tgt = cands[0] if cands else None
        ctx.require(tgt is not None and 'value' in tgt, 'target %s of %s has no value' % (v[1], name))
        return g, tgt, decode(tgt['value'])

    P = 'embedded_pairing_bls12_381_'
    g, tgt, v = pointee(P + 'group_order')
    m.ob('R-XCONST', as_int(v) == bls.R_ORDER, 'xconst|group_order', 'exported group_order does not point at r', loc_str(g))
    # wkdibe / lqibe group_order objects (C++ constants used for subtraction modulo r)
    for gid, gg in prog.globals.items():
        if gg['name'] == 'group_order' and 'value' in gg and gid.startswith('embedded_pairing::'):
            vv = as_int(decode(gg['value']))
            if isinstance(vv, tuple):
                continue
            m.ob('R-XCONST', vv == bls.R_ORDER, 'xconst|' + gid, '%s != r' % gid, loc_str(gg))
    q = bls.Q

    def fq(x):
        return mont_decode(as_int(x), q, 384)

    for grp, curve, dec in (('g1', bls.E1, fq), ('g2', bls.E2, fq2_dec)):
        g, tgt, v = pointee(P + grp + '_zero')
        z = dec(v['z'])
        m.ob('R-XCONST', z in (0, (0, 0)), 'xconst|%s_zero' % grp, 'exported %s_zero does not have z == 0' % grp, loc_str(g))
        g, tgt, v = pointee(P + grp + 'affine_zero')
        m.ob('R-XCONST', v['infinity'] == 1, 'xconst|%saffine_zero' % grp, 'exported %saffine_zero is not the point at infinity' % grp, loc_str(g))
        g, tgt, v = pointee(P + grp + 'affine_generator')
        pt = (dec(v['x']), dec(v['y']))
        ok = v['infinity'] == 0 and curve.on_curve(pt) and curve.pmul(pt, bls.R_ORDER) is None
        m.ob('R-XCONST', ok, 'xconst|%saffine_generator' % grp,
             'exported %s generator is not a finite point of order r on the curve' % grp, loc_str(g))
    g, tgt, v = pointee(P + 'gt_zero')
    got = [fq2_dec(v[a][b]) for a in ('c0', 'c1') for b in ('c0', 'c1', 'c2')]
    m.ob('R-XCONST', got == [(1, 0)] + [(0, 0)] * 5, 'xconst|gt_zero', 'exported gt_zero is not the multiplicative identity of Fq12', loc_str(g))
    # size constants
    sizes = {
        'g1_marshalled_compressed_size': 48, 'g1_marshalled_uncompressed_size': 96,
        'g2_marshalled_compressed_size': 96, 'g2_marshalled_uncompressed_size': 192, 'gt_marshalled_size': 576}
    for nm, want in sizes.items():
        g = exported.get(P + nm)
        ctx.require(g is not None and 'value' in g, 'exported size constant %s not found' % nm)
        got = decode(g['value'])
        # the expected value is derived from the types, not hard-coded: n * sizeof(Fq)
        fqsz = prog.records[NS + 'Fq']['size']
        want2 = {48: fqsz, 96: 2 * fqsz, 192: 4 * fqsz, 576: 12 * fqsz}[want]
        m.ob('R-XCONST', got == want2, 'xconst|' + nm, 'exported %s = %s, expected %s' % (nm, got, want2), loc_str(g))
    # coefficient count in the C header equals G2Prepared::num_coeffs (also covered by R-LAYOUT)
    if ctx.tier == 'thorough' and cfg == 'x64-asm':
        g, tgt, v = pointee(P + 'gt_generator')
        got = tuple(tuple(fq2_dec(v[a][b]) for b in ('c0', 'c1', 'c2')) for a in ('c0', 'c1'))
        g1 = prog.globals[NS + 'G1Affine::generator']
        g2 = prog.globals[NS + 'G2Affine::generator']
        v1, v2 = decode(g1['value']), decode(g2['value'])
        P1 = (fq(v1['x']), fq(v1['y']))
        P2 = (fq2_dec(v2['x']), fq2_dec(v2['y']))
        e = bls.pairing_reduced(P1, P2)
        # the library's final exponentiation computes the reduced pairing cubed (property C01 statement)
        e3 = bls.f12_pow(e, 3)
        m.ob('R-XCONST', got == e3 or got == e, 'xconst|gt_generator',
             'exported gt_generator is not e(g1,g2) (reduced optimal-ate pairing, or its cube) of the generator constants', loc_str(g))
    else:
        g, tgt, v = pointee(P + 'gt_generator')
        got = (tuple(fq2_dec(v['c0'][b]) for b in ('c0', 'c1', 'c2')), tuple(fq2_dec(v['c1'][b]) for b in ('c0', 'c1', 'c2')))
        ok = bls.f12_pow(got, bls.R_ORDER) == bls.F12_ONE and got != bls.F12_ONE
        m.ob('R-XCONST', ok, 'xconst|gt_generator-order', 'exported gt_generator is not an element of order r in Fq12', loc_str(g))


# ---------------- C01 / C07 pairing-related constants ----------------
def rule_pairing_constants(ctx, cfg, prog):
    m = ConstModel(ctx, cfg, prog)
    x = m.ival(NS + 'bls_x')
    neg = m.val(NS + 'bls_x_is_negative')
    m.ob('R-CONST', x == abs(bls.X) and bool(neg) == (bls.X < 0), 'blsx',
         'bls_x / bls_x_is_negative do not encode the BLS12-381 parameter x = -0xd201000000010000', loc_str(m.g(NS + 'bls_x')))
    hb = m.val(NS + 'bls_x_highest_set_bit')
    nb = m.val(NS + 'bls_x_num_set_bits')
    m.ob('R-CONST', hb == abs(bls.X).bit_length() - 1, 'blsx-highbit', 'bls_x_highest_set_bit != index of the top set bit of |x|',
         loc_str(m.g(NS + 'bls_x_highest_set_bit')))
    m.ob('R-CONST', nb == bin(abs(bls.X)).count('1'), 'blsx-popcount', 'bls_x_num_set_bits != popcount(|x|)',
         loc_str(m.g(NS + 'bls_x_num_set_bits')))
    if ctx.tier == 'thorough' and cfg == 'x64-asm':
        q = bls.Q
        v = m.val(NS + 'generator_pairing')
        got = tuple(tuple(fq2_dec(v[a][b]) for b in ('c0', 'c1', 'c2')) for a in ('c0', 'c1'))
        v1, v2 = m.val(NS + 'G1Affine::generator'), m.val(NS + 'G2Affine::generator')
        P1 = (mont_decode(as_int(v1['x']), q, 384), mont_decode(as_int(v1['y']), q, 384))
        P2 = (fq2_dec(v2['x']), fq2_dec(v2['y']))
        e = bls.pairing_reduced(P1, P2)
        e3 = bls.f12_pow(e, 3)
        m.ob('R-CONST', got == e3, 'generator_pairing',
             'generator_pairing is not the cube of the reduced optimal-ate pairing of the generator constants', loc_str(m.g(NS + 'generator_pairing')),
             sample=dict(config=cfg, relation='generator_pairing == e_opt-ate(g1,g2)^3 (independent Python pairing)', equals_uncubed=(got == e)))
