"""R-CCL: exact evaluation of constant-controlled loops (C08): the event traces of G2Prepared::prepare and of the
multi-pair Miller loop depend only on compile-time constants (bls_x and literals), so they are evaluated over
the AST (nothing is executed) and compared."""
from .facts import walk, strip, loc_str, strip_tmpl
from . import pathrules as pr
from . import consts, bls
from . import buildmodel as bm

NS = 'embedded_pairing::bls12_381::'
STEP = {'miller_doubling_step': 'D', 'miller_addition_step': 'A', 'ell': 'E', 'square': 'SQ', 'conjugate': 'CJ'}


class _Continue(Exception):
    pass


class _Break(Exception):
    pass


class Tracer:
    def __init__(self, ctx, prog, fn):
        self.ctx, self.prog, self.fn = ctx, prog, fn
        self.env = {}        # local id -> int
        self.counters = {}   # canonical counter name -> int (per-pair coefficient cursors, symbolic pair)
        self.events = []
        self.iters = 0
        self.binds = {}
        self.problems = []

    def gint(self, gid):
        g = self.prog.globals.get(gid)
        if g is None or 'value' not in g:
            return None
        return consts.as_int(consts.decode(g['value']))

    def val(self, e, zero_calls=None):
        """integer value of e under env; calls named is_zero evaluate to `zero_calls` (None = unknown)"""
        e = strip(e)
        if not isinstance(e, dict):
            return None
        if 'cv' in e:
            return int(e['cv'])
        k = e.get('k')
        if k == 'ref':
            if e.get('rk') in ('local', 'param'):
                return self.env.get(e['id'])
            if e.get('rk') == 'global':
                v = self.gint(e['g'])
                return v if isinstance(v, int) else None
            return None
        if k == 'cast':
            v = self.val(e['e'], zero_calls)
            if v is not None and (e.get('t') or {}).get('k') == 'bool':
                return 1 if v else 0
            return v
        if k == 'un' and e.get('op') in ('++', '--'):
            tgt = strip(e['e'])
            if not getattr(self, 'fx', False) or tgt.get('k') != 'ref' or tgt.get('rk') not in ('local', 'param') or self.env.get(tgt['id']) is None:
                return None
            cur = self.env[tgt['id']]
            new = cur + (1 if e['op'] == '++' else -1)
            bits = 8 * ((tgt.get('t') or {}).get('size') or 0)
            if bits and not (tgt.get('t') or {}).get('signed'):
                new %= (1 << bits)
            self.env[tgt['id']] = new
            return cur if e.get('post') else new
        if k == 'assign' and getattr(self, 'fx', False):
            tgt = strip(e['lhs'])
            if tgt.get('k') == 'ref' and tgt.get('rk') in ('local', 'param'):
                r = self.val(e['rhs'], zero_calls)
                cur = self.env.get(tgt['id'])
                op = e.get('op')
                if r is None or (op != '=' and cur is None):
                    self.env.pop(tgt['id'], None)
                    return None
                new = {'=': r, '+=': (cur or 0) + r, '-=': (cur or 0) - r, '>>=': (cur or 0) >> r, '<<=': (cur or 0) << r}.get(op)
                if new is None:
                    self.env.pop(tgt['id'], None)
                    return None
                bits = 8 * ((tgt.get('t') or {}).get('size') or 0)
                if bits and not (tgt.get('t') or {}).get('signed'):
                    new %= (1 << bits)
                self.env[tgt['id']] = new
                return new
            return None
        if k == 'un':
            v = self.val(e['e'], zero_calls)
            if v is None:
                return None
            if e['op'] == '!':
                return 0 if v else 1
            if e['op'] == '-':
                return -v
            return None
        if k == 'bin':
            a, b = self.val(e['lhs'], zero_calls), self.val(e['rhs'], zero_calls)
            op = e['op']
            if op == '&&':
                if a == 0 or b == 0:
                    return 0
                return 1 if (a is not None and b is not None) else None
            if op == '||':
                if a or b:
                    return 1
                return 0 if (a is not None and b is not None) else None
            if a is None or b is None:
                return None
            try:
                return {'+': a + b, '-': a - b, '*': a * b, '==': int(a == b), '!=': int(a != b), '<': int(a < b), '<=': int(a <= b),
                        '>': int(a > b), '>=': int(a >= b), '&': a & b, '|': a | b, '>>': a >> b, '<<': a << b}[op]
            except Exception:
                return None
        if k == 'member' and e.get('name') == 'infinity':
            # the identity flag of a pair member, read directly instead of through is_zero()
            return zero_calls
        if k == 'call':
            if e.get('name') == 'bit' and e.get('this') is not None:
                base = self.val(e['this'], zero_calls)
                pos = self.val(e['args'][0], zero_calls)
                if base is not None and pos is not None:
                    return (base >> pos) & 1
                return None
            if e.get('name') == 'is_zero':
                return zero_calls
            # a named condition: internal-linkage free function whose body is `return <expr>;`
            cal = self.prog.callee(e, self.fn)
            if cal is not None and 'body' in cal and cal.get('linkage') == 'internal' and not cal.get('method') and e.get('this') is None:
                body = cal['body']
                stmts = body.get('body', []) if body.get('k') == 'compound' else [body]
                from .cfg import subst_params, CFG as _CFG
                rex = _CFG._return_expr(stmts)
                if rex is not None and len(e.get('args', [])) == len(cal.get('params', [])):
                    return self.val(subst_params(rex, {p['id']: a for p, a in zip(cal['params'], e['args'])}), zero_calls)
        if k == 'cond':
            c = self.val(e['c'], zero_calls)
            if c is None:
                return None
            return self.val(e['then'] if c else e['else'], zero_calls)
        if k == 'lit' and 'bool' in e:
            return int(bool(e['bool']))
        return None

    def emit(self, *ev):
        self.events.append(tuple(ev))

    def index_event(self, arg):
        """if arg designates coeffs[...] return ('idx', concrete index) with post-increment side effects applied"""
        # a pointer cursor over the coefficient array: `MillerTriple* c = this->coeffs; ... *c++ ... *c`
        cp = getattr(self, 'cptr', {})
        if cp:
            for x in walk(arg):
                if x.get('k') == 'un' and x.get('op') == '*':
                    inner = strip(x['e'])
                    while isinstance(inner, dict) and inner.get('k') in ('cast', 'load') and isinstance(inner.get('e'), dict):
                        inner = strip(inner['e'])
                    step = 0
                    post = True
                    if isinstance(inner, dict) and inner.get('k') == 'un' and inner.get('op') in ('++', '--'):
                        step = 1 if inner['op'] == '++' else -1
                        post = bool(inner.get('post'))
                        inner = strip(inner['e'])
                        while isinstance(inner, dict) and inner.get('k') in ('cast', 'load') and isinstance(inner.get('e'), dict):
                            inner = strip(inner['e'])
                    if isinstance(inner, dict) and inner.get('k') == 'ref' and inner.get('id') in cp:
                        cur = cp[inner['id']]
                        cp[inner['id']] = cur + step
                        return cur if post else cur + step
        for x in walk(arg):
            if x.get('k') == 'index' and pr.norm_obj(pr.canon(x['base'], self.binds)).endswith('.coeffs'):
                idx = x['idx']
                s = strip(idx)
                if s.get('k') == 'un' and s.get('op') == '++' and s.get('post'):
                    tgt = strip(s['e'])
                    if tgt.get('k') == 'ref' and tgt.get('rk') == 'local' and tgt['id'] in self.env:
                        v = self.env[tgt['id']]
                        self.env[tgt['id']] = v + 1
                        return v
                    name = pr.norm_obj(pr.canon(tgt, self.binds))
                    v = self.counters.get(name)
                    if v is None:
                        self.problems.append(('reset', loc_str(x), 'per-pair coefficient cursor %s is used before it is reset for this product' % name))
                        v = 0
                    self.counters[name] = v + 1
                    return v
                v = self.val(idx)
                if v is None:
                    name = pr.norm_obj(pr.canon(idx, self.binds))
                    if name in self.counters:
                        return self.counters[name]
                    raise bm.AnalysisBroken('%s: coefficient index at %s is not determined by constants' % (self.fn['qn'], loc_str(x)))
                return v
        return None

    def expr_stmt(self, e, group):
        e = strip(e)
        if e.get('k') == 'lcall':
            cl = strip(e.get('closure'))
            while isinstance(cl, dict) and cl.get('k') in ('cast', 'load') and isinstance(cl.get('e'), dict):
                cl = strip(cl['e'])
            lam = getattr(self, 'lambdas', {}).get(cl.get('id')) if isinstance(cl, dict) else None
            if lam is None or lam.get('params') or not lam.get('allref') or lam.get('body') is None:
                raise bm.AnalysisBroken('%s: call of a local function object that cannot be inlined at %s' % (self.fn['qn'], loc_str(e)))
            self.stmt(lam['body'], group)
            return
        if e.get('k') == 'call':
            name = e.get('name')
            if name in STEP:
                idx = None
                for a in e.get('args', []):
                    i = self.index_event(a)
                    if i is None:
                        # a reference local bound to coeffs[...] when it was declared (`const MillerTriple& line = g2.coeffs[idx++];`)
                        ua = strip(a)
                        while isinstance(ua, dict) and ua.get('k') in ('cast', 'load') and isinstance(ua.get('e'), dict):
                            ua = strip(ua['e'])
                        if isinstance(ua, dict) and ua.get('k') == 'ref' and ua.get('rk') == 'local':
                            i = getattr(self, 'refidx', {}).get(ua.get('id'))
                    if i is not None:
                        idx = i
                self.emit(STEP[name], group, idx, loc_str(e))
            elif name == 'from_affine' and e.get('this') is not None and pr.norm_obj(pr.canon(e['this'], self.binds)).endswith('.r'):
                self.emit('RESET-R', group, None, loc_str(e))
            elif e.get('this') is not None and self.fn.get('params') and pr.canon(e['this'], self.binds) == 'P:' + self.fn['params'][0]['name'] and \
                    'Fq12' in (self.fn['params'][0]['t'].get('s') or ''):
                # any other member call on the accumulator
                one = any(pr.canon(a).startswith('G:') and pr.canon(a).endswith('::one') for a in e.get('args', []))
                self.emit('INIT' if (name == 'copy' and one) else 'X', group, name, loc_str(e))
            return
        if e.get('k') == 'un' and e.get('op') in ('++', '--'):
            tgt = strip(e['e'])
            name = pr.norm_obj(pr.canon(tgt, self.binds))
            if tgt.get('k') == 'ref' and tgt.get('rk') == 'local' and tgt['id'] in self.env:
                self.env[tgt['id']] += 1 if e['op'] == '++' else -1
            elif name.endswith('.coeff_idx'):
                # the per-pair coefficient cursor advanced in a statement of its own
                if name not in self.counters:
                    self.problems.append(('reset', loc_str(e), 'per-pair coefficient cursor %s is used before it is reset for this product' % name))
                    self.counters[name] = 0
                self.counters[name] += 1 if e['op'] == '++' else -1
            return
        if e.get('k') == 'assign':
            l = strip(e['lhs'])
            name = pr.norm_obj(pr.canon(l, self.binds))
            v = self.val(e['rhs'])
            if l.get('k') == 'ref' and l.get('rk') == 'local' and e.get('op') == '=':
                if v is not None:
                    self.env[l['id']] = v
                return
            if name.endswith('.coeff_idx') and e.get('op') == '=':
                if v is None:
                    raise bm.AnalysisBroken('%s: coefficient cursor assigned a non-constant' % self.fn['qn'])
                self.counters[name] = v
                self.emit('RESET-IDX', group, v, loc_str(e))
            return

    def stmt(self, s, group):
        if s is None:
            return
        k = s.get('k')
        if k == 'compound':
            for c in s['body']:
                self.stmt(c, group)
        elif k == 'decl':
            for v in s['vars']:
                ini = v.get('init')
                while isinstance(ini, dict) and ini.get('k') in ('cast', 'copyctor') and isinstance(ini.get('e'), dict):
                    ini = ini['e']
                if isinstance(ini, dict) and ini.get('k') == 'lambda':
                    # a local function object: nothing runs at its declaration
                    self.__dict__.setdefault('lambdas', {})[v['id']] = ini
                    continue
                if v.get('init') is not None:
                    t = v.get('t') or {}
                    if t.get('k') in ('int', 'bool'):
                        # identity tests evaluate to false for the generic (non-identity) pair, also when stored in a local first
                        val = self.val(v['init'], zero_calls=0 if t.get('k') == 'bool' else None)
                        if val is not None:
                            self.env[v['id']] = val
                    elif t.get('k') == 'ptr' and pr.norm_obj(pr.canon(v['init'], self.binds)).endswith('.coeffs'):
                        # a cursor over the coefficient array, starting at its first element
                        self.__dict__.setdefault('cptr', {})[v['id']] = 0
                    elif t.get('k') == 'ref':
                        # `Pair& pair = pairs[j]`: one generic pair of that array
                        self.binds[v['id']] = 'pair'
                        # `const MillerTriple& line = g2.coeffs[idx++]`: the coefficient is selected (and the cursor stepped) here
                        ci = self.index_event(v['init'])
                        if ci is not None:
                            self.__dict__.setdefault('refidx', {})[v['id']] = ci
                    else:
                        self.expr_stmt(v['init'], group)
        elif k == 'expr':
            self.expr_stmt(s['e'], group)
        elif k == 'constexpr_if':
            self.stmt(s.get('taken'), group)
        elif k == 'if':
            v = self.val(s['c'], zero_calls=0)
            if v is None:
                # the loop over the pairs of a list is evaluated for ONE generic pair: a condition that reads anything else at run time
                # (the pair's position, a flag) makes the events a pair receives depend on the shape of the list
                self.problems.append(('uniform', loc_str(s), 'the condition at %s depends on run-time data other than the identity tests (e.g. the '
                                      'position of the pair in its list): pairs are not all processed by the same sequence of line evaluations / '
                                      'accumulator updates, so the result is not the product of the single pairings for every list shape' % loc_str(s)))
                self.stmt(s.get('else'), group)
                return
            self.stmt(s['then'] if v else s.get('else'), group)
        elif k in ('for', 'while', 'do'):
            # a loop whose control is determined by constants (the bits of |x|) is run concretely, whatever its form: the condition
            # and the increment are evaluated with their side effects (`i-- != 0`, `i -= 1`, ...)
            saved = dict(self.env)
            init = s.get('init')
            if init is not None:
                if init.get('k') == 'decl':
                    self.stmt(init, group)
                else:
                    self.fx = True
                    self.val(init.get('e', init))
                    self.fx = False

            def test():
                if s.get('c') is None:
                    return 1        # `for (init; ; inc)`: left only by a break
                self.fx = True
                try:
                    return self.val(s['c'])
                finally:
                    self.fx = False
            first = 1 if k == 'do' else test()
            if first is not None:
                go = first
                while go:
                    self.iters += 1
                    if self.iters > 100000:
                        raise bm.AnalysisBroken('%s: loop does not terminate under constant evaluation' % self.fn['qn'])
                    try:
                        self.stmt(s['body'], group)
                    except _Continue:
                        pass
                    except _Break:
                        break
                    if s.get('inc') is not None:
                        self.fx = True
                        self.val(s['inc'])
                        self.fx = False
                    go = test()
                    if go is None:
                        raise bm.AnalysisBroken('%s: the loop at %s stops being determined by constants' % (self.fn['qn'], loc_str(s)))
                if init is not None and init.get('k') == 'decl':
                    for v in init['vars']:
                        self.env.pop(v['id'], None)
            else:
                self.env = saved
                # run-time loop over the pairs: one generic iteration; which array decides the group
                grp = group
                for x in walk(s['body']):
                    if x.get('k') == 'index':
                        b = strip(x['base'])
                        while b.get('k') in ('cast', 'load'):
                            b = strip(b['e'])
                        if b.get('k') == 'ref' and b.get('rk') == 'param':
                            pt = ((b.get('t') or {}).get('pointee') or {}).get('s', '')
                            grp = 'prepared' if 'PreparedPair' in pt else ('affine' if 'AffinePair' in pt else group)
                            break
                try:
                    self.stmt(s['body'], grp)
                except _Continue:
                    pass
                except _Break:
                    self.problems.append(('uniform', loc_str(s), 'the loop over the pairs at %s can stop before the last pair' % loc_str(s)))
        elif k == 'continue':
            raise _Continue()
        elif k == 'break':
            raise _Break()
        elif k in ('return', 'null'):
            return
        else:
            raise bm.AnalysisBroken('%s: statement %s at %s not supported by the constant-loop evaluator' % (self.fn['qn'], k, loc_str(s)))


def rule_ccl(ctx, cfg, prog, schedule=False):
    fp = prog.fn_by_qn(NS + 'G2Prepared::prepare')
    fm = [f for f in prog.fn_by_qn(NS + 'miller_loop') if len(f['params']) == 5]
    ctx.require(len(fp) == 1 and len(fm) == 1, 'G2Prepared::prepare / miller_loop not found')
    tp = Tracer(ctx, prog, fp[0])
    tp.stmt(fp[0]['body'], 'producer')
    tm = Tracer(ctx, prog, fm[0])
    tm.stmt(fm[0]['body'], 'top')
    for (kind, site, msg) in tp.problems + tm.problems:
        ctx.ob('R-CCL', False, 'ccl|' + kind, site, msg, cfg=cfg)
    prod = [(e[0], e[2]) for e in tp.events if e[0] in ('D', 'A')]
    ncoef = prog.globals[NS + 'G2Prepared::num_coeffs']
    ncoef_v = consts.decode(ncoef['value'])
    extent = [f['t'].get('n') for f in prog.records[NS + 'G2Prepared']['fields'] if f['name'] == 'coeffs'][0]
    idxs = [i for (_, i) in prod]
    ctx.ob('R-CCL', idxs == list(range(len(idxs))) and len(idxs) == ncoef_v == extent, 'ccl|producer-count', loc_str(fp[0]),
           'G2Prepared::prepare writes coefficient indices %s..%s (%d writes); num_coeffs = %s, coeffs[] has %s entries' % (
               idxs[:1], idxs[-1:], len(idxs), ncoef_v, extent), cfg=cfg,
           sample=dict(config=cfg, producer_writes=len(idxs), num_coeffs=ncoef_v, extent=extent, kinds=''.join(k for k, _ in prod)[:80]))
    # consumer traces
    aff_steps = [e[0] for e in tm.events if e[1] == 'affine' and e[0] in ('D', 'A')]
    prep_reads = [e[2] for e in tm.events if e[1] == 'prepared' and e[0] == 'E']
    ctx.ob('R-CCL', prep_reads == list(range(len(prep_reads))) and len(prep_reads) == len(idxs), 'ccl|consumer-count', loc_str(fm[0]),
           'the prepared branch of miller_loop reads coefficient indices %s..%s (%d reads) but prepare produced %d' % (
               prep_reads[:1], prep_reads[-1:], len(prep_reads), len(idxs)), cfg=cfg)
    ctx.ob('R-CCL', [k for k, _ in prod] == aff_steps, 'ccl|kinds', loc_str(fm[0]),
           'the doubling/addition sequence stored by prepare (%s...) differs from the one the affine branch performs (%s...)' % (
               ''.join(k for k, _ in prod)[:24], ''.join(aff_steps)[:24]), cfg=cfg)
    # positions relative to the accumulator squarings: split at SQ
    def segments(group):
        segs, cur = [], 0
        for e in tm.events:
            if e[0] == 'SQ':
                segs.append(cur)
                cur = 0
            elif e[0] == 'E' and e[1] == group:
                cur += 1
        segs.append(cur)
        return segs
    sa, sp = segments('affine'), segments('prepared')
    ctx.ob('R-CCL', sa == sp and sum(sa) == len(idxs), 'ccl|positions', loc_str(fm[0]),
           'line evaluations per accumulator squaring differ between the affine (%s...) and the prepared (%s...) branch' % (sa[:8], sp[:8]),
           cfg=cfg, sample=dict(config=cfg, squarings=len(sa) - 1, line_evaluations=sum(sa)))
    # every affine E directly follows its step; state reset precedes the main loop
    ev = tm.events
    first_step = next((i for i, e in enumerate(ev) if e[0] in ('D', 'A', 'E')), None)
    reset_r = [i for i, e in enumerate(ev) if e[0] == 'RESET-R' and e[1] == 'affine']
    reset_i = [i for i, e in enumerate(ev) if e[0] == 'RESET-IDX' and e[1] == 'prepared' and e[2] == 0]
    ctx.ob('R-CCL', len(reset_r) == 1 and len(reset_i) == 1 and first_step is not None and max(reset_r + reset_i) < first_step,
           'ccl|reset', loc_str(fm[0]),
           'per-pair loop state (AffinePair::r := g2, PreparedPair::coeff_idx := 0) must be reset once per product, before the first step',
           cfg=cfg)
    # final conjugation for negative x
    neg = consts.decode(prog.globals[NS + 'bls_x_is_negative']['value'])
    cj = [e for e in ev if e[0] == 'CJ']
    last_step = max(i for i, e in enumerate(ev) if e[0] in ('D', 'A', 'E', 'SQ'))
    ctx.ob('R-CCL', (len(cj) == 1 and ev.index(cj[0]) > last_step) if neg else not cj, 'ccl|conjugate', loc_str(fm[0]),
           'the accumulator must be conjugated exactly once, after the loop, iff x is negative', cfg=cfg)
    # the schedule itself: f := 1; for every bit of |x| below the top one, from the top down: f := f^2 (skipped while f == 1), tangent line;
    # chord line if the bit is set.  Written with the squaring at the end of an iteration, that is: blocks [D E (A E)?] separated by
    # exactly one squaring, none after the last block, and nothing else touching the accumulator.
    from . import bls
    X = abs(bls.X)
    want = []
    for b in range(X.bit_length() - 2, -1, -1):
        if want:
            want.append('SQ')
        want += ['D', 'E']
        if (X >> b) & 1:
            want += ['A', 'E']
    got = [e[0] for e in ev if e[0] in ('SQ', 'X') or (e[1] == 'affine' and e[0] in ('D', 'A', 'E'))]
    while got and got[0] == 'SQ':
        got.pop(0)              # squaring the accumulator while it is still one changes nothing
    inits = [e for e in ev if e[0] == 'INIT']
    first_acc = next((i for i, e in enumerate(ev) if e[0] in ('SQ', 'X', 'E', 'CJ')), len(ev))
    okinit = len(inits) == 1 and ev.index(inits[0]) < first_acc
    diff = next((i for i, (a, b) in enumerate(zip(got, want)) if a != b), min(len(got), len(want)))
    if schedule:
        ctx.ob('R-CCL', got == want and okinit, 'ccl|schedule', loc_str(fm[0]),
               'the accumulator updates of miller_loop are not the Miller schedule of |x| = 0x%x: per generic pair the sequence (SQ = squaring, D/A = '
               'tangent/chord step, E = line evaluation, X = other update) has %d entries, the schedule %d; first difference at entry %d: found %s, '
               'schedule %s; trailing entries found %s, schedule %s%s' % (X, len(got), len(want), diff, got[diff:diff + 4], want[diff:diff + 4], got[-3:], want[-3:],
                                                                         '' if okinit else '; the accumulator is not set to one exactly once before its first use'),
               cfg=cfg, sample=dict(config=cfg, schedule_entries=len(want), squarings=want.count('SQ'), tangent_steps=want.count('D'), chord_steps=want.count('A')))
    ctx.count('trace_events[%s]' % cfg, len(ev) + len(tp.events))
    return len(ev)


def rule_product_shape(ctx, cfg, prog):
    """pairing_product / pairing = miller_loop followed by final_exponentiation(result, result), once"""
    n = 0
    for f in prog.functions.values():
        if 'body' not in f or strip_tmpl(f['qn']) not in (NS + 'pairing_product', NS + 'pairing'):
            continue
        n += 1
        cs = [c for c in pr.calls(f['body'])]
        names = [c['name'] for c in cs]
        ok = names == ['miller_loop', 'final_exponentiation']
        if ok:
            ml, fe = cs
            res = 'P:' + f['params'][0]['name']
            ok = pr.canon(ml['args'][0]) == res and [pr.canon(a) for a in fe['args']] == [res, res] and \
                [pr.canon(a) for a in ml['args'][1:]] == ['P:' + p['name'] for p in f['params'][1:]]
        ctx.ob('R-CCL', ok, 'ccl|shape|%s' % f['qn'][-60:], loc_str(f),
               '%s must be miller_loop(result, <all other parameters in order>) followed by one final_exponentiation(result, result)' % f['qn'],
               cfg=cfg)
    ctx.floor('pairing entry points[%s]' % cfg, n, 3)
