"""E3 / R-ASM: dataflow over the disassembly of the assembled x86-64 and AArch64 routines (nothing is executed).
Abstract register values: ('arg', k, c) = k-th pointer argument + c; ('sp', c) = entry stack pointer + c;
('cs', r) = entry value of callee-saved register r; None = anything else.  Produces, per exported routine,
the ordered list of memory accesses and ABI facts."""
import re
import subprocess
from . import buildmodel as bm

X86_ARGS = ['rdi', 'rsi', 'rdx', 'rcx', 'r8', 'r9']
X86_CALLEE_SAVED = ['rbx', 'rbp', 'r12', 'r13', 'r14', 'r15']
A64_CALLEE_SAVED = ['x%d' % i for i in range(19, 31)]


class Insn:
    __slots__ = ('addr', 'mnem', 'ops', 'text', 'size', 'reloc')

    def __init__(self, addr, mnem, ops, text):
        self.addr, self.mnem, self.ops, self.text = addr, mnem, ops, text


def disassemble(obj):
    out = subprocess.run(['llvm-objdump-14', '-d', '--no-show-raw-insn', obj], stdout=subprocess.PIPE, text=True).stdout
    insns = {}
    syms = {}
    order = []
    for line in out.splitlines():
        m = re.match(r'^([0-9a-f]+) <(.+)>:$', line)
        if m:
            syms[m.group(2)] = int(m.group(1), 16)
            continue
        m = re.match(r'^\s*([0-9a-f]+):\s+(\S+)\s*(.*)$', line)
        if m:
            addr = int(m.group(1), 16)
            mnem = m.group(2)
            rest = m.group(3).strip()
            insns[addr] = Insn(addr, mnem, split_ops(rest), line.strip())
            order.append(addr)
    for i, a in enumerate(order):
        insns[a].size = (order[i + 1] - a) if i + 1 < len(order) else 4
    return insns, syms, order


def split_ops(s):
    s = re.sub(r'<[^>]*>', '', s).strip()
    if not s:
        return []
    out, cur, depth = [], '', 0
    for ch in s:
        if ch in '([':
            depth += 1
        elif ch in ')]':
            depth -= 1
        if ch == ',' and depth == 0:
            out.append(cur.strip())
            cur = ''
        else:
            cur += ch
    if cur.strip():
        out.append(cur.strip())
    return out


class Access:
    def __init__(self, addr, kind, base, off, width, text):
        self.addr, self.kind, self.base, self.off, self.width, self.text = addr, kind, base, off, width, text

    def __repr__(self):
        return '%s %s%+d/%d@%x' % (self.kind, self.base, self.off, self.width, self.addr)


class Routine:
    def __init__(self, name):
        self.name = name
        self.accesses = []      # in address order (all control flow is forward)
        self.problems = []      # strings
        self.insn_count = 0
        self.rets = 0
        self.succ = {}          # addr -> [addr]
        self.regw = {}          # addr -> set of registers (possibly) written
        self.flagw = {}         # addr -> {reg: bool}: the value written derives from the carry/borrow flag
        self.ret_addrs = []
        self.min_sp = 0

    def reachable_from(self, a):
        seen, st = set(), [a]
        while st:
            x = st.pop()
            if x in seen:
                continue
            seen.add(x)
            st.extend(self.succ.get(x, []))
        return seen


def join(a, b):
    if a is None or b is None:
        return None
    if a.keys() != b.keys():
        keys = set(a) & set(b)
    else:
        keys = a.keys()
    return {k: (a[k] if a.get(k) == b.get(k) else None) for k in keys}


# ------------------------------------------------------------------ x86-64
def x86_reg(op):
    m = re.match(r'^%(\w+)$', op)
    if not m:
        return None
    r = m.group(1)
    r32 = {'eax': 'rax', 'ebx': 'rbx', 'ecx': 'rcx', 'edx': 'rdx', 'esi': 'rsi', 'edi': 'rdi', 'ebp': 'rbp', 'esp': 'rsp'}
    if r in r32:
        return r32[r]
    m2 = re.match(r'^(r\d+)[dwb]$', r)
    if m2:
        return m2.group(1)
    return r


def x86_mem(op):
    """disp(base,index,scale) -> (disp, base, index) or None"""
    m = re.match(r'^(-?(?:0x)?[0-9a-f]*)\(([^)]*)\)$', op)
    if not m:
        return None
    disp = int(m.group(1), 0) if m.group(1) not in ('', '-') else 0
    parts = [p.strip() for p in m.group(2).split(',')]
    base = x86_reg(parts[0]) if parts[0] else None
    index = x86_reg(parts[1]) if len(parts) > 1 and parts[1] else None
    return disp, base, index


def analyse_x86(insns, order, entry, name):
    R = Routine(name)
    init = {r: None for r in ['rax', 'rbx', 'rcx', 'rdx', 'rsi', 'rdi', 'rbp', 'rsp'] + ['r%d' % i for i in range(8, 16)]}
    for k, r in enumerate(X86_ARGS):
        init[r] = ('arg', k, 0)
    for r in X86_CALLEE_SAVED:
        init[r] = ('cs', r)
    init['rsp'] = ('sp', 0)
    states = {entry: (init, {})}          # addr -> (regs, stack slots {sp offset: abstract})
    zero = {}                              # straight-line only: registers known to hold 0
    cf = ['?', '']                         # straight-line only: carry flag known constant (and which instruction made it so)
    join_points = set()
    for i_ in insns.values():
        if i_.mnem.startswith('j') and i_.ops:
            m_ = re.match(r'^(?:0x)?([0-9a-f]+)$', i_.ops[0])
            if m_:
                join_points.add(int(m_.group(1), 16))
    work = [entry]
    visited = set()
    idx = {a: i for i, a in enumerate(order)}
    while work:
        work.sort()
        a = work.pop(0)
        if a in visited:
            continue
        visited.add(a)
        ins = insns.get(a)
        if ins is None:
            R.problems.append('control flow leaves the object at %#x' % a)
            continue
        regs, slots = states[a]
        regs, slots = dict(regs), dict(slots)
        R.insn_count += 1
        mn = ins.mnem
        ops = ins.ops
        if a in join_points:
            cf[0] = '?'
        if mn in ('jb', 'jc', 'jnae', 'jae', 'jnb', 'jnc') and cf[0] in (0, 1):
            R.problems.append('conditional jump at %#x (%s) depends only on the carry flag, which the preceding flag-setting instruction '
                              '(%s) leaves constant: one arm of the compare-and-correct tail is dead' % (a, ins.text.split('\t', 1)[-1].strip(), cf[1]))
        base_mn = mn.rstrip('qlwb') if mn not in ('jb',) else mn
        if mn.startswith(('xor', 'and', 'or', 'test')) and not mn.startswith('orb_'):
            cf[0], cf[1] = 0, ins.text.split('\t', 1)[-1].strip()
        elif mn.startswith(('add', 'adc', 'sub', 'sbb', 'cmp', 'neg', 'mul', 'imul', 'shl', 'shr', 'sar', 'bt', 'adcx', 'cpuid')):
            cf[0] = '?'
        if mn.startswith('j') or a in join_points:
            zero.clear()
        nxt = order[idx[a] + 1] if idx[a] + 1 < len(order) else None
        succs = []

        def flow(to, rg, sl):
            if to is None:
                R.problems.append('fall-through past the end of the object at %#x' % a)
                return
            if to <= a:
                R.problems.append('backward branch at %#x (%s)' % (a, ins.text))
            if to in states and to not in visited:
                r0, s0 = states[to]
                states[to] = (join(r0, rg), {k: (s0[k] if s0.get(k) == sl.get(k) else None) for k in set(s0) & set(sl)})
            elif to not in states:
                states[to] = (rg, sl)
            if to not in visited:
                work.append(to)
            succs.append(to)

        def mem_access(op, kind, width=8):
            mm = x86_mem(op)
            if mm is None:
                return False
            disp, base, index = mm
            bv = regs.get(base) if base else None
            if index is not None or bv is None or bv[0] not in ('arg', 'sp'):
                R.problems.append('memory operand with an untracked address at %#x (%s)' % (a, ins.text))
                return True
            if bv[0] == 'arg':
                R.accesses.append(Access(a, kind, 'arg%d' % bv[1], bv[2] + disp, width, ins.text))
            else:
                R.accesses.append(Access(a, kind, 'sp', bv[1] + disp, width, ins.text))
            return True

        width = 4 if mn.endswith('l') and mn not in ('mull',) else 8
        if mn in ('retq', 'ret'):
            R.rets += 1
            R.ret_addrs.append(a)
            for r in X86_CALLEE_SAVED:
                if regs.get(r) != ('cs', r):
                    R.problems.append('callee-saved %%%s not restored at ret %#x' % (r, a))
            if regs.get('rsp') != ('sp', 0):
                R.problems.append('stack pointer at ret %#x is %s, not the entry value' % (a, regs.get('rsp')))
            R.succ[a] = []
            continue
        if mn.startswith('j'):
            tgt = None
            m = re.match(r'^(?:0x)?([0-9a-f]+)$', ops[0]) if ops else None
            if m is None:
                R.problems.append('indirect or unparsable jump at %#x (%s)' % (a, ins.text))
            else:
                tgt = int(m.group(1), 16)
                flow(tgt, regs, slots)
            if mn != 'jmp':
                flow(nxt, regs, slots)
            R.succ[a] = succs
            continue
        if mn.startswith('call') or mn in ('syscall', 'sysenter', 'int', 'int3', 'hlt', 'ud2'):
            R.problems.append('forbidden instruction at %#x (%s)' % (a, ins.text))
        if mn == 'pushq':
            sp = regs['rsp']
            if sp is None or sp[0] != 'sp':
                R.problems.append('push with untracked stack pointer at %#x' % a)
            else:
                sp = ('sp', sp[1] - 8)
                regs['rsp'] = sp
                src = x86_reg(ops[0])
                slots[sp[1]] = regs.get(src) if src else None
                R.min_sp = min(R.min_sp, sp[1])
                R.accesses.append(Access(a, 'W', 'sp', sp[1], 8, ins.text))
        elif mn == 'popq':
            sp = regs['rsp']
            if sp is None or sp[0] != 'sp':
                R.problems.append('pop with untracked stack pointer at %#x' % a)
            else:
                dst = x86_reg(ops[0])
                R.accesses.append(Access(a, 'R', 'sp', sp[1], 8, ins.text))
                if dst:
                    regs[dst] = slots.get(sp[1])
                    R.regw.setdefault(a, set()).add(dst)
                regs['rsp'] = ('sp', sp[1] + 8)
        else:
            # generic: last operand is the destination (AT&T)
            srcs, dst = ops[:-1], (ops[-1] if ops else None)
            reads_dst = mn not in ('movq', 'movl', 'leaq', 'mulxq', 'seto', 'setb', 'setc')
            for s in srcs:
                if x86_mem(s) is not None and mn != 'leaq':
                    mem_access(s, 'R', width)
            if mn in ('mulq', 'imulq') and len(ops) == 1:
                if x86_mem(ops[0]) is not None:
                    mem_access(ops[0], 'R', 8)
                regs['rax'] = None
                regs['rdx'] = None
                R.regw.setdefault(a, set()).update(['rax', 'rdx'])
            elif mn == 'cpuid':
                for r in ('rax', 'rbx', 'rcx', 'rdx'):
                    regs[r] = None
            elif mn in ('cmpq', 'testq', 'btl', 'btq', 'cmpl', 'testl'):
                if dst and x86_mem(dst) is not None:
                    mem_access(dst, 'R', width)
            elif dst is not None and x86_mem(dst) is not None:
                if reads_dst:
                    mem_access(dst, 'R', width)
                mem_access(dst, 'W', width)
            else:
                d = x86_reg(dst) if dst else None
                if mn == 'mulxq' and len(ops) == 3:
                    # mulx src, lo, hi : implicit rdx read; writes ops[1], ops[2]
                    for o in ops[1:]:
                        r = x86_reg(o)
                        if r:
                            regs[r] = None
                elif d is not None:
                    newv = None
                    if mn in ('movq',) and len(srcs) == 1:
                        s = x86_reg(srcs[0])
                        if s is not None:
                            newv = regs.get(s)
                    elif mn == 'leaq' and len(srcs) == 1:
                        mm = x86_mem(srcs[0])
                        if mm and mm[2] is None and mm[1] and regs.get(mm[1]) is not None:
                            bv = regs[mm[1]]
                            newv = (bv[0], bv[1], bv[2] + mm[0]) if bv[0] == 'arg' else ((bv[0], bv[1] + mm[0]) if bv[0] == 'sp' else None)
                    elif mn in ('addq', 'subq') and len(srcs) == 1 and srcs[0].startswith('$'):
                        c = int(srcs[0][1:], 0)
                        if mn == 'subq':
                            c = -c
                        bv = regs.get(d)
                        if bv is not None and bv[0] == 'arg':
                            newv = ('arg', bv[1], bv[2] + c)
                        elif bv is not None and bv[0] == 'sp':
                            newv = ('sp', bv[1] + c)
                            R.min_sp = min(R.min_sp, newv[1])
                    if d == 'rsp' and newv is None:
                        R.problems.append('stack pointer becomes untracked at %#x (%s)' % (a, ins.text))
                    regs[d] = newv
                    R.regw.setdefault(a, set()).add(d)
                    srcreg = x86_reg(srcs[0]) if len(srcs) == 1 else None
                    same = srcreg is not None and srcreg == d
                    if mn in ('setb', 'setc', 'setae', 'setnc', 'seto') or (mn in ('sbbq', 'sbbl') and same) or \
                       (mn in ('adcq', 'adcl') and same and zero.get(d)):
                        fd = True
                    elif mn in ('negq', 'movzbq', 'movzbl', 'andq', 'andl') :
                        fd = 'keep'
                    elif mn in ('movq', 'movl') and srcreg is not None:
                        fd = ('copy', srcreg)
                    else:
                        fd = False
                    R.flagw.setdefault(a, {})[d] = fd
                    zero[d] = (mn in ('movq', 'movl') and len(srcs) == 1 and srcs[0] in ('$0', '$0x0')) or \
                              (mn in ('xorq', 'xorl') and same)
        flow(nxt, regs, slots)
        R.succ[a] = succs
    if R.rets == 0:
        R.problems.append('no ret reachable')
    R.accesses.sort(key=lambda x: x.addr)
    return R


# ------------------------------------------------------------------ AArch64
def a64_reg(op):
    op = op.strip()
    m = re.match(r'^([xw])(\d+)$', op)
    if m:
        return 'x' + m.group(2)
    if op in ('sp', 'xzr', 'wzr'):
        return op
    return None


def analyse_a64(insns, order, entry, name):
    R = Routine(name)
    init = {('x%d' % i): None for i in range(31)}
    for k in range(8):
        init['x%d' % k] = ('arg', k, 0)
    for r in A64_CALLEE_SAVED:
        init[r] = ('cs', r)
    init['sp'] = ('sp', 0)
    states = {entry: (init, {})}
    work = [entry]
    visited = set()
    idx = {a: i for i, a in enumerate(order)}

    def addval(v, c):
        if v is None:
            return None
        if v[0] == 'arg':
            return ('arg', v[1], v[2] + c)
        if v[0] == 'sp':
            return ('sp', v[1] + c)
        return None

    while work:
        work.sort()
        a = work.pop(0)
        if a in visited:
            continue
        visited.add(a)
        ins = insns.get(a)
        if ins is None:
            R.problems.append('control flow leaves the object at %#x' % a)
            continue
        regs, slots = states[a]
        regs, slots = dict(regs), dict(slots)
        R.insn_count += 1
        mn, ops = ins.mnem, ins.ops
        nxt = order[idx[a] + 1] if idx[a] + 1 < len(order) else None
        succs = []

        def flow(to, rg, sl):
            if to is None:
                R.problems.append('fall-through past the end of the object at %#x' % a)
                return
            if to <= a:
                R.problems.append('backward branch at %#x (%s)' % (a, ins.text))
            if to in states and to not in visited:
                r0, s0 = states[to]
                states[to] = (join(r0, rg), {k: (s0[k] if s0.get(k) == sl.get(k) else None) for k in set(s0) & set(sl)})
            elif to not in states:
                states[to] = (rg, sl)
            if to not in visited:
                work.append(to)
            succs.append(to)

        if mn == 'ret':
            R.rets += 1
            R.ret_addrs.append(a)
            for r in A64_CALLEE_SAVED:
                if regs.get(r) != ('cs', r):
                    R.problems.append('callee-saved %s not restored at ret %#x' % (r, a))
            if regs.get('sp') != ('sp', 0):
                R.problems.append('stack pointer at ret %#x is %s' % (a, regs.get('sp')))
            R.succ[a] = []
            continue
        if mn in ('b',) or mn.startswith('b.') or mn in ('cbz', 'cbnz', 'tbz', 'tbnz'):
            t = ops[-1] if ops else ''
            m = re.match(r'^(?:0x)?([0-9a-f]+)$', t.strip())
            if m is None:
                R.problems.append('unparsable branch at %#x (%s)' % (a, ins.text))
            else:
                flow(int(m.group(1), 16), regs, slots)
            if mn != 'b':
                flow(nxt, regs, slots)
            R.succ[a] = succs
            continue
        if mn in ('bl', 'blr', 'br', 'svc', 'hvc', 'smc', 'brk'):
            R.problems.append('forbidden instruction at %#x (%s)' % (a, ins.text))
        if mn in ('ldp', 'stp', 'ldr', 'str'):
            nreg = 2 if mn in ('ldp', 'stp') else 1
            width = 8 * nreg
            memop = ','.join(ops[nreg:])
            m = re.match(r'^\[(\w+)(?:,\s*#(-?(?:0x)?[0-9a-f]+))?\](!)?(?:,\s*#(-?(?:0x)?[0-9a-f]+))?$', memop.replace(' ', ''))
            if m is None:
                R.problems.append('memory operand not understood at %#x (%s)' % (a, ins.text))
            else:
                base = a64_reg(m.group(1))
                pre = int(m.group(2), 0) if m.group(2) else 0
                wb_pre = bool(m.group(3))
                post = int(m.group(4), 0) if m.group(4) else 0
                bv = regs.get(base)
                if bv is None or bv[0] not in ('arg', 'sp'):
                    R.problems.append('memory operand with an untracked address at %#x (%s)' % (a, ins.text))
                else:
                    addr_v = addval(bv, pre)
                    kind = 'R' if mn.startswith('ld') else 'W'
                    if addr_v[0] == 'arg':
                        R.accesses.append(Access(a, kind, 'arg%d' % addr_v[1], addr_v[2], width, ins.text))
                    else:
                        R.accesses.append(Access(a, kind, 'sp', addr_v[1], width, ins.text))
                        R.min_sp = min(R.min_sp, addr_v[1])
                        for i in range(nreg):
                            r = a64_reg(ops[i])
                            if kind == 'W':
                                slots[addr_v[1] + 8 * i] = regs.get(r)
                    if kind == 'R':
                        for i in range(nreg):
                            r = a64_reg(ops[i])
                            if r and r not in ('xzr', 'wzr'):
                                regs[r] = slots.get(addr_v[1] + 8 * i) if addr_v[0] == 'sp' else None
                                R.regw.setdefault(a, set()).add(r)
                    if wb_pre:
                        regs[base] = addr_v
                    elif post:
                        regs[base] = addval(bv, post)
        else:
            d = a64_reg(ops[0]) if ops else None
            if mn in ('cmp', 'cmn', 'tst'):
                pass
            elif d is not None and d not in ('xzr', 'wzr'):
                newv = None
                if mn == 'mov' and len(ops) == 2 and a64_reg(ops[1]):
                    newv = regs.get(a64_reg(ops[1]))
                elif mn in ('add', 'sub') and len(ops) == 3 and a64_reg(ops[1]) and ops[2].startswith('#'):
                    c = int(ops[2][1:], 0)
                    newv = addval(regs.get(a64_reg(ops[1])), c if mn == 'add' else -c)
                if d == 'sp' and newv is None:
                    R.problems.append('stack pointer becomes untracked at %#x (%s)' % (a, ins.text))
                regs[d] = newv
                R.regw.setdefault(a, set()).add(d)
                if mn in ('cset', 'csetm', 'adc', 'adcs', 'sbc', 'sbcs', 'ngc', 'ngcs', 'cinc'):
                    fd = True
                elif mn == 'mov' and len(ops) == 2 and a64_reg(ops[1]):
                    fd = ('copy', a64_reg(ops[1]))
                elif mn in ('neg', 'and'):
                    fd = 'keep'
                else:
                    fd = False
                R.flagw.setdefault(a, {})[d] = fd
        flow(nxt, regs, slots)
        R.succ[a] = succs
    if R.rets == 0:
        R.problems.append('no ret reachable')
    R.accesses.sort(key=lambda x: x.addr)
    return R


def analyse_object(obj, arch):
    insns, syms, order = disassemble(obj)
    out = {}
    fn = analyse_x86 if arch == 'x86_64' else analyse_a64
    for name, addr in syms.items():
        out[name] = (fn, insns, order, addr)
    return out


def routine(tbl, name):
    fn, insns, order, addr = tbl[name]
    return fn(insns, order, addr, name)


def alias_hazard(R, out_arg, in_arg):
    """first (write, read) pair with a store to out_arg+[o,o+w) at or before-in-flow a load of an overlapping range of
    in_arg, when the two pointers are equal; None if there is none"""
    ws = [x for x in R.accesses if x.kind == 'W' and x.base == 'arg%d' % out_arg]
    rs = [x for x in R.accesses if x.kind == 'R' and x.base == 'arg%d' % in_arg]
    for w in ws:
        reach = None
        for r in rs:
            if r.addr <= w.addr:
                continue
            if w.off < r.off + r.width and r.off < w.off + w.width:
                if reach is None:
                    reach = R.reachable_from(w.addr)
                if r.addr in reach:
                    return (w, r)
    return None


# ------------------------------------------------------------------ drivers
def build_tables(cfg, outdir):
    """assemble the architecture's .s files for `cfg` (x86-64 / AArch64 only) and return {symbol: analysis thunk}"""
    import os
    arch = bm.configs()[cfg]['arch']
    if arch == 'armv6_m':
        # pre-UAL Thumb sources: rewritten to unified syntax, assembled and interpreted by thumbsem
        from . import thumbsem
        return {name: (thumbsem.analyse_thumb, insns, order, addr) for name, (insns, order, addr) in thumbsem.build_tables(cfg, outdir).items()}
    if arch not in ('x86_64', 'aarch64'):
        return None
    os.makedirs(outdir, exist_ok=True)
    tbl = {}
    for s in bm.asm_units(cfg):
        obj = os.path.join(outdir, cfg + '_' + os.path.basename(s) + '.o')
        flags = ['--target=aarch64-none-elf'] if arch == 'aarch64' else []
        p = subprocess.run(['clang'] + flags + ['-c', s, '-o', obj], stdout=subprocess.PIPE, stderr=subprocess.PIPE, text=True)
        if p.returncode != 0:
            raise bm.AnalysisBroken('cannot assemble %s: %s' % (s, p.stderr[-400:]))
        tbl.update(analyse_object(obj, arch))
        os.unlink(obj)
    return tbl


def extern_leaves(prog):
    """extern "C" functions without a body that library code calls, with the byte extent of each pointer argument
    as the call sites give it: {name: (fn, [extent or None per parameter], [call sites])}"""
    from .facts import walk, strip
    out = {}
    for f in prog.functions.values():
        if 'body' not in f:
            continue
        for n in walk(f['body']):
            if n.get('k') != 'call':
                continue
            cal = prog.callee(n, f)
            if cal is None or 'body' in cal or not cal.get('externC') or not cal['l'][0].startswith('include/core/arch/'):
                continue
            ext = []
            for a in n.get('args', []):
                t = a.get('t') or {}
                e = a
                # look through the implicit conversion to void*
                while isinstance(e, dict) and e.get('k') == 'cast':
                    e = e['e']
                et = (e.get('t') or {}) if isinstance(e, dict) else {}
                if et.get('k') == 'ptr':
                    ext.append((et.get('pointee') or {}).get('size'))
                else:
                    ext.append(None)
            cur = out.setdefault(cal['name'], (cal, ext, []))
            cur[2].append(n)
            # several call sites must agree
            if cur[1] != ext:
                out[cal['name']] = (cal, [x if x == y else None for x, y in zip(cur[1], ext)], cur[2])
    # routines bound to the run-time dispatch table: targets from the table's initialisers, extents from the indirect calls
    table = {}
    for gid, g in prog.globals.items():
        if 'init' in g and (g['t'] or {}).get('k') == 'fnptr':
            tg = [x for x in walk(g['init']) if x.get('k') == 'ref' and x.get('rk') == 'func']
            if tg:
                table[gid] = tg
    for f in prog.functions.values():
        if 'body' not in f:
            continue
        for n in walk(f['body']):
            if n.get('k') != 'icall':
                continue
            fnx = strip(n['fn'])
            while isinstance(fnx, dict) and fnx.get('k') in ('cast', 'load'):
                fnx = strip(fnx['e'])
            if not (isinstance(fnx, dict) and fnx.get('k') == 'ref' and fnx.get('rk') == 'global' and fnx.get('g') in table):
                continue
            ext = []
            for a in n.get('args', []):
                e = a
                while isinstance(e, dict) and e.get('k') == 'cast':
                    e = e['e']
                et = (e.get('t') or {}) if isinstance(e, dict) else {}
                ext.append((et.get('pointee') or {}).get('size') if et.get('k') == 'ptr' else None)
            for tg in table[fnx['g']]:
                stub = dict(name=tg['name'], qn=tg.get('qn'), l=f['l'], params=[], key=tg.get('f'))
                out.setdefault(tg['name'], (stub, ext, [n]))
    return out


def rule_asm(ctx, cfg, prog, outdir, rule='R-ASM'):
    tbl = build_tables(cfg, outdir)
    if tbl is None:
        return 0
    leaves = extern_leaves(prog)
    n = 0
    # also routines reached only through the run-time dispatch table: same prototypes as their non-BMI2 twins
    names = set(leaves)
    for sym in tbl:
        base = sym.replace('_bmi2_adx', '')
        if base in leaves and sym not in leaves and 'final' not in sym:
            names.add(sym)
    for name in sorted(names):
        if name not in tbl:
            if name in leaves and bm.configs()[cfg]['asm']:
                ctx.ob(rule, False, 'asm|missing|' + name, leaves[name][0]['l'][0], 'assembly routine %s is called but not defined by the architecture sources' % name, cfg=cfg)
            continue
        proto = leaves.get(name) or leaves.get(name.replace('_bmi2_adx', ''))
        R = routine(tbl, name)
        n += 1
        abi_problems = [p_ for p_ in R.problems if 'conditional jump' not in p_]
        ctx.ob(rule, not abi_problems, 'asm|abi|' + name, name,
               '%s: %s' % (name, '; '.join(abi_problems[:4])), cfg=cfg,
               sample=dict(config=cfg, routine=name, instructions=R.insn_count, accesses=len(R.accesses), rets=R.rets, frame=-R.min_sp))
        bad = []
        for acc in R.accesses:
            if acc.base == 'sp':
                if acc.kind == 'R' and 0 <= acc.off and acc.off + acc.width <= getattr(R, 'stack_arg_bytes', 0):
                    continue            # an argument passed on the stack
                if acc.kind == 'R' and acc.off in getattr(R, 'dead_caller_reads', ()):
                    # a load of the word at the caller's stack pointer whose value reaches no output: no object of the program is
                    # involved and nothing depends on it (a leftover, reported as a note)
                    note = '%s: %s loads the word at the caller\'s sp%+d, which is not an argument; the value is never used' % (name, acc.text, acc.off)
                    if note not in ctx.notes:
                        ctx.notes.append(note)
                    continue
                if not (R.min_sp <= acc.off and acc.off + acc.width <= 0):
                    bad.append('%s touches the caller\'s stack (sp%+d, %d bytes)' % (acc.text, acc.off, acc.width))
                continue
            k = int(acc.base[3:])
            ext = proto[1][k] if k < len(proto[1]) else None
            if ext is None:
                bad.append('%s dereferences argument %d, which is not a pointer to an object of known size' % (acc.text, k))
            elif not (0 <= acc.off and acc.off + acc.width <= ext):
                bad.append('%s accesses bytes [%d,%d) of argument %d, an object of %d bytes' % (acc.text, acc.off, acc.off + acc.width, k, ext))
        ctx.ob(rule, not bad, 'asm|footprint|' + name, name, '%s: %s' % (name, '; '.join(bad[:3])), cfg=cfg)
        for note in getattr(R, 'notes', []):
            al = (prog.records.get('embedded_pairing::core::BigInt<384>') or {}).get('align')
            note2 = note + (' whose alignment requirement in this configuration is %s (every access the callee makes on ARMv6-M is a 32-bit access: there '
                            'is no 64-bit load or store instruction, so no access is misaligned at the machine level; formally the pointer is '
                            'under-aligned for its C++ type when 8 is required)' % al if al else '')
            if note2 not in ctx.notes:
                ctx.notes.append(note2)
    return n


def make_alias_summary(tbl):
    cache = {}

    def summary(callee, q):
        name = callee['name']
        if tbl is None or name not in tbl:
            return 'assumed'
        if name not in cache:
            cache[name] = routine(tbl, name)
        R = cache[name]
        for (o, i, d) in q:
            if d != 0:
                return 'assumed'
            hz = alias_hazard(R, o, i)
            if hz is not None:
                w, r = hz
                return 'stores `%s` before loading `%s`, which overlaps it when argument %d and argument %d are the same object' % (w.text, r.text, o, i)
        return None
    return summary


def must_facts(R, out_arg=0, retreg=None):
    """(bytes of argument `out_arg` written on EVERY path to every ret, is `retreg` written on every path to every ret,
    {arg: set of bytes read on some path})"""
    preds = {}
    for a, ss in R.succ.items():
        for b in ss:
            preds.setdefault(b, []).append(a)
    order = sorted(R.succ)
    wbytes = {}
    for acc in R.accesses:
        if acc.kind == 'W' and acc.base == 'arg%d' % out_arg:
            wbytes.setdefault(acc.addr, set()).update(range(acc.off, acc.off + acc.width))
    MW, RW = {}, {}
    FD = {}     # addr -> set of registers currently holding a flag-derived value (must, intersection at joins)
    for a in order:
        ps = [p for p in preds.get(a, []) if p in MW]
        if not ps:
            inb, inr, infd = set(), False, set()
        else:
            inb = set.intersection(*[MW[p] for p in ps])
            inr = all(RW[p] for p in ps)
            infd = set.intersection(*[FD[p] for p in ps])
        MW[a] = inb | wbytes.get(a, set())
        fd = set(infd)
        for reg in R.regw.get(a, set()):
            how = R.flagw.get(a, {}).get(reg, False)
            if how is True:
                fd.add(reg)
            elif how == 'keep':
                pass
            elif isinstance(how, tuple) and how[0] == 'copy':
                (fd.add if how[1] in infd else fd.discard)(reg)
            else:
                fd.discard(reg)
        FD[a] = fd
        RW[a] = (retreg in fd) if retreg is not None else False
    rets = [a for a in R.ret_addrs if a in MW]
    must = set.intersection(*[MW[a] for a in rets]) if rets else set()
    # at the ret itself nothing is written; use the state flowing into it
    retw = all(RW[a] for a in rets) if rets else False
    reads = {}
    for acc in R.accesses:
        if acc.kind == 'R' and acc.base.startswith('arg'):
            reads.setdefault(int(acc.base[3:]), set()).update(range(acc.off, acc.off + acc.width))
    return must, retw, reads
