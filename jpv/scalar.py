"""C06/C10 structural rules: R-DISPATCH (who may call the order-r-only multiplications), R-CARRY (w-NAF add-back),
R-GUARD/G6 (digit reads behind the size test), fixed-size witnesses, GLV constants."""
from .facts import walk, strip, loc_str, strip_tmpl
from . import pathrules as pr
from .cfg import CFG
from . import consts, bls

NS = 'embedded_pairing::bls12_381::'

ORDER_R_ONLY = (NS + 'G1::multiply_endomorphism', NS + 'G2::multiply_frobenius', NS + 'PowersOfX::decompose', NS + 'decompose_lambda',
                NS + 'Fq12::exponentiate_gt', NS + 'Fq12::exponentiate_gt_div')
NOT_YET_IN_SUBGROUP = (NS + 'Affine::is_in_correct_subgroup_assuming_on_curve', NS + 'sample_random_generator',
                       'embedded_pairing::lqibe::compute_id_from_hash', NS + 'Affine::from_hash', NS + 'Affine::try_and_increment')


def call_graph(prog):
    cg = {}
    for f in prog.functions.values():
        if 'body' not in f:
            continue
        outs = []
        for c in pr.calls(f['body']):
            cal = prog.callee(c, f)
            if cal is not None:
                outs.append((cal['key'], c))
        cg[f['key']] = outs
    return cg


def rule_dispatch(ctx, cfg, prog, rule='R-DISPATCH'):
    cg = call_graph(prog)
    forbidden = {}
    for f in prog.functions.values():
        if strip_tmpl(f['qn']) in ORDER_R_ONLY:
            forbidden[f['key']] = f
    ctx.floor('%s order-r-only routines[%s]' % (rule, cfg), len([k for k, f in forbidden.items() if 'body' in f]), 5)
    roots = [f for f in prog.functions.values() if 'body' in f and strip_tmpl(f['qn']) in NOT_YET_IN_SUBGROUP]
    ctx.floor('%s roots with points not yet known to be in the subgroup[%s]' % (rule, cfg), len(roots), 6)
    for r in roots:
        # BFS with parent pointers
        seen = {r['key']: None}
        queue = [r['key']]
        hit = None
        while queue and hit is None:
            x = queue.pop(0)
            for (y, c) in cg.get(x, []):
                if y in seen:
                    continue
                seen[y] = (x, c)
                if y in forbidden:
                    hit = y
                    break
                queue.append(y)
        path = []
        if hit is not None:
            cur = hit
            while seen[cur] is not None:
                px, c = seen[cur]
                path.append('%s (called at %s)' % (prog.functions[cur]['qn'], loc_str(c)))
                cur = px
            path.reverse()
        ctx.ob(rule, hit is None, 'dispatch|%s' % strip_tmpl(r['qn']), loc_str(r),
               '%s multiplies a point that is not (yet) known to lie in the order-r subgroup, but reaches an order-r-only routine: %s '
               '(the eigenvalue / base-|x| decompositions are only valid on the subgroup: cofactor clearing and the subgroup test '
               'would silently compute a different multiple)' % (r['qn'], ' -> '.join(path)), cfg=cfg,
               sample=dict(config=cfg, root=r['qn'][:110], reachable_functions=len(seen)))
    # the cofactor multiplications use the cofactor constants
    n = 0
    for r in roots:
        for c in pr.calls(r['body']):
            if c.get('name', '').startswith('multiply') and any('cofactor' in pr.canon(a) for a in c.get('args', [])):
                n += 1
    ctx.count('cofactor multiplications[%s]' % cfg, n)
    return len(roots)


def rule_cofactors(ctx, cfg, prog):
    m = consts.ConstModel(ctx, cfg, prog)
    c1 = m.ival(NS + 'G1Affine::cofactor')
    c2 = m.ival(NS + 'G2Affine::cofactor')
    m.ob('R-CONST', c1 == bls.G1_COFACTOR, 'cofactor|g1', 'G1Affine::cofactor != (x-1)^2/3', loc_str(m.g(NS + 'G1Affine::cofactor')))
    m.ob('R-CONST', c2 == bls.G2_COFACTOR, 'cofactor|g2', 'G2Affine::cofactor != the BLS12 G2 cofactor polynomial in x', loc_str(m.g(NS + 'G2Affine::cofactor')))
    # #E(Fq) = h1 * r and #E'(Fq2) = h2 * r sanity (independent of the library): t = x + 1
    t = bls.X + 1
    m.ob('R-CONST', c1 * bls.R_ORDER == bls.Q + 1 - t, 'cofactor|g1-order', 'h1 * r != #E(Fq)')


def rule_glv_constants(ctx, cfg, prog):
    m = consts.ConstModel(ctx, cfg, prog)
    f = m.fn(NS + 'decompose_lambda')
    used = set()
    for n in walk(f['body']):
        if n.get('k') == 'ref' and n.get('rk') == 'global' and n.get('g', '').startswith(NS + 'g1_v'):
            used.add(n['g'])
    ctx.require(len(used) == 2, 'decompose_lambda: lattice constants not found (%s)' % sorted(used))
    # roles: the constant multiplied with k is v1_2; the one multiplied with rounded_b2 is v2_1
    v12 = v21 = None
    for c in pr.calls(f['body']):
        if c['name'] == 'multiply' and len(c.get('args', [])) == 2:
            names = [pr.canon(a) for a in c['args']]
            gl = [x for x in names if x.startswith('G:')]
            others = [x for x in names if not x.startswith('G:')]
            if gl and others:
                if others[0].startswith('P:'):
                    v12 = gl[0][2:]
                else:
                    v21 = gl[0][2:]
    ctx.require(v12 and v21, 'decompose_lambda: roles of the lattice constants not identified')
    a, b = m.ival(v12), m.ival(v21)
    r = bls.R_ORDER
    m.ob('R-CONST', 1 + a * b == r, 'glv|lattice', 'decompose_lambda relies on r == 1 + v1_2 * v2_1 (%s, %s)' % (v12, v21), loc_str(m.g(v12)))
    lam = bls.inv(a, r)           # f(v1) = 1 - v1_2*lambda = 0  =>  lambda = v1_2^-1
    m.ob('R-CONST', (lam * lam + lam + 1) % r == 0 and (b + lam) % r == 0, 'glv|lambda',
         'the lattice vectors do not define a primitive cube root of unity lambda mod r with f(v2) = v2_1 + lambda = 0')
    # beta (located by role: the constant multiplied into x in G1::endomorphism) matches lambda on the generator
    fe = m.fn(NS + 'G1::endomorphism')
    betas = [x['g'] for c in pr.calls(fe['body']) if c['name'] == 'multiply' for a in c['args'] for x in walk(a)
             if x.get('k') == 'ref' and x.get('rk') == 'global']
    ctx.require(len(betas) == 1, 'G1::endomorphism: beta constant not found')
    beta = consts.mont_decode(m.ival(betas[0]), bls.Q, 384)
    gv = m.val(NS + 'G1Affine::generator')
    G = (consts.mont_decode(consts.as_int(gv['x']), bls.Q, 384), consts.mont_decode(consts.as_int(gv['y']), bls.Q, 384))
    lhs = bls.E1.pmul(G, lam)
    m.ob('R-CONST', pow(beta, 3, bls.Q) == 1 and beta != 1 and lhs == ((beta * G[0]) % bls.Q, G[1]), 'glv|beta',
         'G1::endomorphism (x -> beta*x) is not multiplication by the lambda the decomposition uses', loc_str(m.g(betas[0])))
    # reciprocal used by floordiv_by_fr_p_value: m = floor(2^(N+l)/r) + 1 with the shift N+l read from the call
    ff = [x for x in prog.functions.values() if 'body' in x and strip_tmpl(x['qn']) == NS + 'floordiv_by_fr_p_value']
    ctx.require(ff, 'floordiv_by_fr_p_value not found')
    ff = ff[0]
    shifts = [int(strip(c['args'][1])['cv']) for c in pr.calls(ff['body']) if c['name'] == 'shift_right' and 'cv' in strip(c['args'][1])]
    recs = [x['g'] for c in pr.calls(ff['body']) if c['name'] == 'multiply' for a in c['args'] for x in walk(a)
            if x.get('k') == 'ref' and x.get('rk') == 'global']
    ctx.require(len(shifts) == 1 and len(recs) == 1, 'floordiv_by_fr_p_value: shift / reciprocal not found')
    mm = m.ival(recs[0])
    sh = shifts[0]
    m.ob('R-CONST', mm == (1 << sh) // r + 1, 'glv|reciprocal',
         'fr_p_value_reciprocal != floor(2^%d / r) + 1 (Granlund-Montgomery Theorem 4.2 multiplier for the shift used)' % sh, loc_str(m.g(recs[0])))
    # exactness of the division by multiplication for every dividend the caller can produce: n < v1_2 * r < 2^383
    N = a * r
    err = mm * r - (1 << sh)
    m.ob('R-CONST', 0 < err and err * N < (1 << sh), 'glv|reciprocal-exact',
         'the reciprocal multiplication does not give the exact quotient for all dividends below v1_2 * r')
    # G2 Frobenius constant
    fq = [x for x in prog.functions.values() if 'body' in x and strip_tmpl(x['qn']) == NS + 'fq2_multiply_frobenius']
    ctx.require(fq, 'fq2_multiply_frobenius not found')
    cs = [x['g'] for c in pr.calls(fq[0]['body']) if c['name'] == 'multiply' for a in c['args'] for x in walk(a)
          if x.get('k') == 'ref' and x.get('rk') == 'global']
    ctx.require(len(cs) == 1, 'fq2_multiply_frobenius: constant not found')
    got = consts.fq2_dec(m.val(cs[0]))
    m.ob('R-CONST', got == bls.f2_pow(bls.XI, (bls.Q - 1) // 6), 'frob|g2', '%s != (u+1)^((q-1)/6)' % cs[0], loc_str(m.g(cs[0])))


def rule_wnaf_witnesses(ctx, cfg, prog):
    n = 0
    for name, rec in sorted(prog.records.items()):
        if rec.get('template') == NS + 'WnafScalar':
            bits, w = int(rec['targs'][0]), int(rec['targs'][1].rstrip('U'))
            ext = [f['t'].get('n') for f in rec['fields'] if f['name'] == 'wnaf'][0]
            n += 1
            ctx.ob('R-BOUNDS', ext >= bits + 1, 'wnaf|extent|%s' % name.split('::')[-1], loc_str(rec),
                   '%s: digit buffer has %d entries, a %d-bit scalar can produce %d NAF digits' % (name, ext, bits, bits + 1), cfg=cfg,
                   sample=dict(config=cfg, record=name.split('::')[-1], extent=ext, bits=bits, window=w))
            ctx.ob('R-BOUNDS', 2 <= w <= 7, 'wnaf|window|%s' % name.split('::')[-1], loc_str(rec),
                   '%s: window %d: digits up to 2^w do not fit int8_t / the (uint8_t) residue' % (name, w), cfg=cfg)
        if rec.get('template') == NS + 'WnafTable':
            w = int(rec['targs'][1].rstrip('U'))
            ext = [f['t'].get('n') for f in rec['fields'] if f['name'] == 'table'][0]
            n += 1
            ctx.ob('R-BOUNDS', ext == 1 << (w - 1), 'wnaf|table|%s' % name.split('WnafTable<')[-1][:40], loc_str(rec),
                   '%s: table has %d entries, digits index up to 2^(w-1)-1 = %d' % (name, ext, (1 << (w - 1)) - 1), cfg=cfg)
    ctx.floor('WnafScalar/WnafTable instantiations[%s]' % cfg, n, 5)
    # G2::multiply_frobenius: the digit loop starts at an index <= bits of the scalars it reads
    fs = [f for f in prog.fn_by_qn(NS + 'G2::multiply_frobenius') if 'PowersOfX' in f['params'][1]['t']['s']]
    ctx.require(len(fs) == 1, 'G2::multiply_frobenius(G2, PowersOfX) not found')
    f = fs[0]
    g = CFG(f)
    starts = []
    for (h, lp) in g.loops:
        init = lp.get('init')
        if lp.get('k') == 'for' and init and init.get('k') == 'decl' and 'cv' in strip(init['vars'][0]['init'] or {}) and \
           strip(lp['inc']).get('op') == '--':
            starts.append((int(strip(init['vars'][0]['init'])['cv']), lp))
    ctx.require(len(starts) == 1, 'G2::multiply_frobenius: digit loop not found')
    bits = [int(r['targs'][0]) for nme, r in prog.records.items() if r.get('template') == NS + 'WnafScalar' and
            any(nme == (x.get('t') or {}).get('rec') for x in walk(f['body']))]
    ctx.require(bits, 'G2::multiply_frobenius: WnafScalar type not found')
    ctx.ob('R-BOUNDS', starts[0][0] >= min(bits), 'wnaf|frobenius-start', loc_str(starts[0][1]),
           'G2::multiply_frobenius starts its digit loop at %d but %d-bit scalars can have %d digits: the top digit would be dropped'
           % (starts[0][0], min(bits), min(bits) + 1), cfg=cfg)


def rule_digit_guard(ctx, cfg, prog, rule='R-GUARD/G6'):
    """every read of X.wnaf[i] in the interleaved loops is on the true edge of `i < X.wnaf_size` (same X, same i)"""
    fs = [f for f in prog.functions.values() if 'body' in f and strip_tmpl(f['qn']) in (NS + 'G1::multiply_endomorphism', NS + 'G2::multiply_frobenius')]
    sites = 0
    for f in fs:
        binds = {}
        for n in walk(f['body']):
            if n.get('k') == 'decl':
                for v in n['vars']:
                    if v.get('init') is not None and (v.get('t') or {}).get('k') == 'ref':
                        binds[v['id']] = pr.canon(v['init'])
        g = CFG(f)
        guards = {}
        for c in g.cond_nodes():
            e = strip(c.ast)
            if e.get('k') == 'bin' and e.get('op') == '<':
                r = pr.norm_obj(pr.canon(e['rhs']))
                if r.endswith('.wnaf_size'):
                    guards.setdefault((r[:-len('.wnaf_size')], pr.canon(e['lhs'])), []).append(c)
        for n in g.nodes:
            if n.ast is None or n.kind not in ('stmt', 'cond'):
                continue
            for x in walk(n.ast):
                if x.get('k') == 'index' and pr.norm_obj(pr.canon(x['base'])).endswith('.wnaf'):
                    obj = pr.norm_obj(pr.canon(x['base']))[:-len('.wnaf')]
                    idx = pr.canon(x['idx'])
                    sites += 1
                    cs = guards.get((obj, idx), [])
                    ok = any(g.must_pass_edge(c.id, True, n.id) or c.id == n.id for c in cs)
                    # the read may be in the very condition chain `i < size && wnaf[i] != 0`: then the guard is a predecessor cond
                    ctx.ob(rule, ok, 'G6|%s|%s' % (strip_tmpl(f['qn']).split('::')[-1], loc_str(x).split(':')[-1]), loc_str(x),
                           '%s reads %s.wnaf[%s] without being on the true edge of `%s < %s.wnaf_size`: digits beyond the recoded '
                           'length are uninitialised' % (f['qn'], obj, idx, idx, obj), cfg=cfg,
                           sample=dict(config=cfg, function=f['qn'][:80], object=obj, index=idx))
    ctx.floor('%s digit reads[%s]' % (rule, cfg), sites, 6)   # one read per recoded scalar at least (2 in G1, 4 in G2)


def rule_carry(ctx, cfg, prog, rule='R-CARRY'):
    fs = pr.functions_named(prog, NS + 'WnafScalar::from_bigint')
    ctx.floor('%s from_bigint instantiations[%s]' % (rule, cfg), len(fs), 3)
    for f in fs:
        g = CFG(f)
        tag = f['qn'].split('WnafScalar<')[-1].split('>')[0]
        # accumulator: the local that receives a copy of the scalar parameter
        acc = None
        for c in pr.calls(f['body']):
            if c['name'] == 'copy' and c.get('args') and pr.canon(c['args'][0]).startswith('P:') and pr.canon(c['this']).startswith('L'):
                acc = pr.canon(c['this'])
        ctx.require(acc is not None, '%s: accumulator not identified' % f['qn'])
        adds = []
        for n in g.stmt_nodes() + g.cond_nodes():
            for c in pr.calls(n.ast):
                if c['name'] == 'add' and pr.canon(c['this']) == acc and c.get('args') and pr.canon(c['args'][0]) == acc:
                    adds.append((n, c))
        ctx.require(adds, '%s: add-back into the accumulator not found' % f['qn'])
        for (n, c) in adds:
            # overflow evidence: the add's own result is consumed, or a comparison involving the accumulator follows
            consumed = not (n.kind == 'stmt' and n.ast.get('k') == 'expr' and strip(n.ast['e']) is c)
            reach = g.reachable(start=n.id)
            flags = set()
            for m2 in g.stmt_nodes():
                if m2.id not in reach or m2.id == n.id:
                    continue
                for x in walk(m2.ast):
                    tgt = None
                    if x.get('k') == 'assign':
                        tgt, src = strip(x['lhs']), x['rhs']
                    elif x.get('k') == 'decl':
                        for v in x['vars']:
                            if v.get('init') is not None and any(cc['name'] == 'compare' and acc in [pr.canon(a) for a in cc['args']]
                                                                  for cc in pr.calls(v['init'])):
                                flags.add(v['id'])
                        continue
                    if tgt is not None and tgt.get('k') == 'ref' and tgt.get('rk') == 'local':
                        if any(cc['name'] == 'compare' and acc in [pr.canon(a) for a in cc['args']] for cc in pr.calls(src)):
                            flags.add(tgt['id'])
            if consumed:
                for x in walk(n.ast):
                    if x.get('k') == 'assign' and strip(x['lhs']).get('rk') == 'local' and any(y is c for y in walk(x['rhs'])):
                        flags.add(strip(x['lhs'])['id'])
                    if x.get('k') == 'decl':
                        for v in x['vars']:
                            if v.get('init') is not None and any(y is c for y in walk(v['init'])):
                                flags.add(v['id'])
            # the flag controls a later write to the accumulator
            ok = False
            via_compare = False
            via_carry = False
            cmp_flags = set()
            for m2 in g.stmt_nodes():
                for x in walk(m2.ast):
                    tgt, src = None, None
                    if x.get('k') == 'assign' and strip(x['lhs']).get('rk') == 'local':
                        tgt, src = strip(x['lhs'])['id'], x['rhs']
                    if tgt is not None and any(cc['name'] == 'compare' and acc in [pr.canon(a) for a in cc['args']] for cc in pr.calls(src)):
                        cmp_flags.add(tgt)
                    if x.get('k') == 'decl':
                        for v in x['vars']:
                            if v.get('init') is not None and any(cc['name'] == 'compare' and acc in [pr.canon(a) for a in cc['args']]
                                                                  for cc in pr.calls(v['init'])):
                                cmp_flags.add(v['id'])
            for cn in g.cond_nodes():
                e = strip(cn.ast)
                is_cmp = (e.get('k') == 'ref' and e.get('id') in cmp_flags) or \
                    (e.get('k') == 'call' and e.get('name') == 'compare' and acc in [pr.canon(a) for a in e['args']])
                is_carry = (e.get('k') == 'ref' and e.get('id') in (flags - cmp_flags)) or (e is c)
                if not (is_cmp or is_carry) or (cn.id not in reach and cn.id != n.id):
                    continue
                for w in g.stmt_nodes():
                    writes_acc = any((x.get('k') == 'assign' and pr.canon(x['lhs']).startswith(acc + '.')) or
                                     (x.get('k') == 'call' and x.get('this') is not None and pr.canon(x['this']) == acc and
                                      x['name'] not in ('is_zero', 'is_odd', 'is_even', 'bit')) for x in walk(w.ast))
                    if writes_acc and (g.must_pass_edge(cn.id, True, w.id) or g.must_pass_edge(cn.id, False, w.id)) and w.id in g.reachable(start=cn.id):
                        ok = True
                        via_compare = via_compare or is_cmp
                        via_carry = via_carry or is_carry
            # BigInt::add's returned carry is the carry out of the last *double word*: it is the overflow of the
            # accumulator only when the width is a whole number of double words in this configuration (DESIGN note N5)
            bits = int(tag.split(',')[0])
            brec = prog.records.get('embedded_pairing::core::BigInt<%d>' % bits)
            dw = [fl['t']['elem']['size'] * 8 for fl in (brec or {}).get('fields', []) if fl['name'] == 'dwords']
            carry_exact = bool(dw) and bits % dw[0] == 0
            why_extra = ''
            if ok and via_carry and not via_compare and not carry_exact:
                ok = False
                why_extra = ' (the only overflow evidence is the value returned by BigInt<%d>::add, which is the carry out of a %d-bit ' \
                            'double word and is never set for a %d-bit accumulator in this configuration)' % (bits, dw[0] if dw else 0, bits)
            ctx.ob(rule, ok, 'carry|WnafScalar<%s>' % tag, loc_str(c),
                   '%s: the add-back `%s.add(%s, a)` can exceed the %s-bit width (scalars within 2^window of 2^bits) and nothing '
                   'tests for the overflow and restores the lost top bit: [k]P comes out as [k - 2^bits]P' % (f['qn'], acc, acc, tag.split(',')[0]) + why_extra,
                   cfg=cfg, sample=dict(config=cfg, instantiation=tag, add_site=loc_str(c), result_consumed=consumed))
