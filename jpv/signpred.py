"""Truth table of the `y is the larger of (y, -y)` predicate, by abstract evaluation of the code that computes it.

The order the library uses is the integer order of the stored representation (`val`), lexicographic on (c1, c0) for Fq2.  A base-field
element is abstracted by how its representation compares with that of its negation:  Z (zero, its own negation), S (val < q - val),
L (val > q - val, i.e. val > (q-1)/2).  The definitional predicate is  L(y)  for Fq and  L(c1) or (Z(c1) and L(c0))  for Fq2; the code's
predicate is evaluated on every abstract input (3 resp. 9) with set-valued integers (a comparison whose outcome the abstraction does
not fix yields several values), inlining the small helpers it calls.  Forms understood: compare(y, -y) against a constant, a
comparison of `val` with the constant (q-1)/2, is_zero, member selection, ?:, &&, ||, !, and calls to functions with bodies."""
from .facts import walk, strip, strip_tmpl, loc_str
from . import consts, bls

NEG = {'Z': 'Z', 'S': 'L', 'L': 'S'}


class Unsupported(Exception):
    pass


class Fq:
    def __init__(self, who, a, neg=False):
        self.who, self.a, self.neg = who, a, neg     # `who` names the underlying element, `a` its class BEFORE negation

    @property
    def cls(self):
        return NEG[self.a] if self.neg else self.a


class Fq2:
    def __init__(self, c0, c1):
        self.c0, self.c1 = c0, c1


class Point:
    """an object whose member `y` is the abstract coordinate"""
    def __init__(self, y):
        self.y = y


class Val:
    """the representation (BigInt) of a base-field element"""
    def __init__(self, fq):
        self.fq = fq


class Const:
    def __init__(self, v):
        self.v = v


def negate(x):
    if isinstance(x, Fq):
        return Fq(x.who, x.a, not x.neg)
    if isinstance(x, Fq2):
        return Fq2(negate(x.c0), negate(x.c1))
    raise Unsupported('negation of %r' % (x,))


class Interp:
    def __init__(self, prog, q):
        self.prog, self.q = prog, q
        self.depth = 0

    # ---- values of expressions: a set of ints / bools, or one abstract object
    def ev(self, e, env, fn):
        e = strip(e)
        while isinstance(e, dict) and e.get('k') == 'cast':
            e = strip(e['e'])
        k = e.get('k')
        if 'cv' in e and k in ('lit', 'bin', 'un', 'ref', 'cast', 'sizeof'):
            return {int(e['cv'])}
        if 'bool' in e and k == 'lit':
            return {int(bool(e['bool']))}
        if k == 'load':
            return self.ev(e['e'], env, fn)
        if k == 'this':
            if 'this' in env:
                return env['this']
            raise Unsupported('this')
        if k == 'ref':
            if e.get('rk') in ('local', 'param'):
                if e['id'] in env:
                    return env[e['id']]
                raise Unsupported('variable %s' % e.get('name'))
            if e.get('rk') == 'global':
                g = self.prog.globals.get(e.get('g'))
                hops = 0
                while g is not None and isinstance(g.get('value'), dict) and 'lvalue' in g['value'] and hops < 8:
                    g = self.prog.globals.get(g['value']['lvalue'])
                    hops += 1
                if g is not None and 'value' in g:
                    v = consts.as_int(consts.decode(g['value']))
                    if isinstance(v, int):
                        return Const(v)
                raise Unsupported('global %s' % e.get('g'))
        if k == 'un' and e.get('op') == '*':
            return self.ev(e['e'], env, fn)
        if k == 'member':
            b = self.ev(e['base'], env, fn)
            nm = e.get('name')
            if isinstance(b, Fq2) and nm in ('c0', 'c1'):
                return getattr(b, nm)
            if isinstance(b, Fq) and nm == 'val':
                return Val(b)
            if isinstance(b, Point) and nm == 'y':
                return b.y
            raise Unsupported('member %s of %r' % (nm, b))
        if k == 'un' and e.get('op') == '!':
            return {1 - x for x in self.asbool(self.ev(e['e'], env, fn))}
        if k == 'bin':
            op = e['op']
            if op in ('&&', '||'):
                a = self.asbool(self.ev(e['lhs'], env, fn))
                out = set()
                for x in a:
                    if (op == '&&' and not x) or (op == '||' and x):
                        out.add(x)
                    else:
                        out |= self.asbool(self.ev(e['rhs'], env, fn))
                return out
            a, b = self.ev(e['lhs'], env, fn), self.ev(e['rhs'], env, fn)
            if isinstance(a, set) and isinstance(b, set) and op in ('==', '!=', '<', '>', '<=', '>='):
                f = {'==': lambda x, y: x == y, '!=': lambda x, y: x != y, '<': lambda x, y: x < y, '>': lambda x, y: x > y,
                     '<=': lambda x, y: x <= y, '>=': lambda x, y: x >= y}[op]
                return {int(f(x, y)) for x in a for y in b}
            raise Unsupported('operator %s' % op)
        if k == 'cond':
            c = self.asbool(self.ev(e['c'], env, fn))
            out = set()
            vals = []
            if 1 in c:
                vals.append(self.ev(e['then'], env, fn))
            if 0 in c:
                vals.append(self.ev(e['else'], env, fn))
            if all(isinstance(v, set) for v in vals):
                for v in vals:
                    out |= v
                return out
            if len(vals) == 1:
                return vals[0]
            raise Unsupported('conditional object')
        if k == 'call':
            return self.call(e, env, fn)
        raise Unsupported('expression %s at %s' % (k, loc_str(e)))

    @staticmethod
    def asbool(v):
        if isinstance(v, set):
            return {int(bool(x)) for x in v}
        raise Unsupported('boolean of %r' % (v,))

    def compare_vals(self, a, b):
        """three-way comparison of two representations"""
        if isinstance(a, Val) and isinstance(b, Val):
            if a.fq.who == b.fq.who and a.fq.a == b.fq.a:
                if a.fq.neg == b.fq.neg:
                    return {0}
                # v against its negation (or the other way round)
                c = a.fq.cls
                r = {'Z': 0, 'S': -1, 'L': 1}[c]
                return {r}
            return {-1, 0, 1}
        if isinstance(a, Val) and isinstance(b, Const):
            c = a.fq.cls
            if b.v == (self.q - 1) // 2:
                return {'Z': {-1}, 'S': {-1, 0}, 'L': {1}}[c]
            if b.v == 0:
                return {0} if c == 'Z' else {1}
            if b.v == (self.q + 1) // 2:
                return {'Z': {-1}, 'S': {-1}, 'L': {0, 1}}[c]
            return {-1, 0, 1}
        if isinstance(a, Const) and isinstance(b, Val):
            return {-x for x in self.compare_vals(b, a)}
        raise Unsupported('comparison of %r and %r' % (a, b))

    def call(self, e, env, fn):
        cal = self.prog.callee(e, fn)
        name = e.get('name')
        qn = strip_tmpl((cal or {}).get('qn') or '')
        args = [self.ev(a, env, fn) for a in e.get('args', [])]
        th = self.ev(e['this'], env, fn) if e.get('this') is not None else None
        if qn == 'embedded_pairing::core::BigInt::compare' and len(args) == 2:
            return self.compare_vals(args[0], args[1])
        if name == 'is_zero' and isinstance(th, Fq):
            return {int(th.cls == 'Z')}
        if name == 'is_zero' and isinstance(th, Fq2):
            return {int(th.c0.cls == 'Z' and th.c1.cls == 'Z')}
        if name == 'is_zero' and isinstance(th, Val):
            return {int(th.fq.cls == 'Z')}
        if cal is None or 'body' not in cal:
            raise Unsupported('call to %s' % name)
        self.depth += 1
        if self.depth > 12:
            raise Unsupported('call depth')
        try:
            env2 = {}
            if th is not None:
                env2['this'] = th
            for p, a in zip(cal.get('params', []), args):
                env2[p['id']] = a
            r = self.run(cal['body'], env2, cal)
        finally:
            self.depth -= 1
        if r is None:
            raise Unsupported('%s returns nothing' % name)
        return r

    # ---- statements: returns the set of returned values (None if the path falls through)
    def run(self, s, env, fn):
        k = s.get('k')
        if k == 'compound':
            for c in s['body']:
                r = self.run(c, env, fn)
                if r is not None:
                    return r
            return None
        if k == 'decl':
            for v in s['vars']:
                if v.get('init') is not None:
                    try:
                        env[v['id']] = self.ev(v['init'], env, fn)
                    except Unsupported:
                        pass
            return None
        if k == 'expr':
            e = strip(s['e'])
            if e.get('k') == 'call' and e.get('name') == 'negate' and e.get('this') is not None and e.get('args'):
                t = strip(e['this'])
                while t.get('k') == 'cast':
                    t = strip(t['e'])
                if t.get('k') == 'ref' and t.get('rk') == 'local':
                    env[t['id']] = negate(self.ev(e['args'][0], env, fn))
            return None
        if k == 'return':
            if s.get('e') is None:
                return None
            return self.ev(s['e'], env, fn)
        if k == 'if':
            c = self.asbool(self.ev(s['c'], env, fn))
            outs = []
            if 1 in c:
                outs.append(self.run(s['then'], dict(env), fn))
            if 0 in c:
                outs.append(self.run(s.get('else'), dict(env), fn) if s.get('else') else None)
            if all(o is None for o in outs):
                return None
            if any(o is None for o in outs):
                raise Unsupported('a branch returns and another falls through')
            if all(isinstance(o, set) for o in outs):
                r = set()
                for o in outs:
                    r |= o
                return r
            raise Unsupported('object-valued branches')
        if k in ('null',):
            return None
        raise Unsupported('statement %s' % k)


def definitional(field, y):
    if field == 'Fq':
        return int(y.cls == 'L')
    return int(y.c1.cls == 'L' or (y.c1.cls == 'Z' and y.c0.cls == 'L'))


def inputs(field):
    if field == 'Fq':
        return [((a,), Fq('y', a)) for a in 'ZSL']
    return [((a0, a1), Fq2(Fq('y.c0', a0), Fq('y.c1', a1))) for a1 in 'ZSL' for a0 in 'ZSL']


def truth_table(prog, fn, expr, field, y_of, prelude=None):
    """{abstract input: set of truth values} of the boolean expression `expr` of function `fn`; `y_of(env, y)` binds the abstract y in the
    environment (the parameter / member that holds the point's y coordinate); `prelude` lists the statements that precede the use
    (negations into locals, boolean locals)"""
    q = bls.Q
    table = {}
    for key, y in inputs(field):
        it = Interp(prog, q)
        env = {}
        y_of(env, y)
        for s in (prelude or []):
            try:
                it.run(s, env, fn)
            except Unsupported:
                pass
        table[key] = frozenset(Interp.asbool(it.ev(expr, env, fn)))
    return table


def expected_table(field):
    return {key: frozenset({definitional(field, y)}) for key, y in inputs(field)}
