"""ARMv6-M sources of the repository are written in the pre-UAL ("divided") Thumb syntax that GNU as accepts by default and clang's
integrated assembler does not.  This module rewrites a source file into unified syntax so that clang can assemble it for analysis.

The rewrite is the documented meaning of divided Thumb-1 syntax (ARM ARM A5.2 / GNU as tc-arm.c): a data-processing instruction whose
operands are all low registers (or an immediate) has only a flag-setting 16-bit encoding, which divided syntax spells without the `s`:

    add/adc/sub/sbc/and/orr/eor/bic/mvn/lsl/lsr/asr/ror/mul/neg  ->  adds/adcs/.../muls/rsbs #0        (low registers only)
    mov rd, #imm8                                                ->  movs rd, #imm8
    add/sub involving sp, add/mov with a high register, cmp, loads, stores, ldm/stm/push/pop, branches: unchanged

`mov rd, rm` with two low registers is left as `mov`: GNU as encodes it as `adds rd, rm, #0` in divided syntax for old cores and as a
flag-preserving MOV for ARMv6; the analysis treats the flags as UNKNOWN after it, which covers both encodings.
This translation is part of the trusted base of the m0-asm results (DESIGN 9.12)."""
import re

FLAGSET = {'add', 'adc', 'sub', 'sbc', 'and', 'orr', 'eor', 'bic', 'mvn', 'lsl', 'lsr', 'asr', 'ror', 'mul', 'neg'}
HIGH = re.compile(r'\b(r8|r9|r10|r11|r12|r13|r14|r15|sp|lr|pc|ip|fp|sl|sb)\b')


def convert_line(line):
    code, sep, comment = line.partition('@')
    m = re.match(r'^(\s*)([A-Za-z]+)(\s+)(.*?)(\s*)$', code)
    if not m:
        return line
    ind, mn, sp, ops, tail = m.groups()
    low = mn.lower()
    if low in FLAGSET and not HIGH.search(ops):
        if low == 'neg':
            parts = [p.strip() for p in ops.split(',')]
            if len(parts) == 2:
                return '%srsbs%s%s, %s, #0%s%s%s' % (ind, sp, parts[0], parts[1], tail, sep, comment)
        return '%s%ss%s%s%s%s%s' % (ind, mn, sp, ops, tail, sep, comment)
    if low == 'mov' and not HIGH.search(ops) and re.search(r',\s*#', ops):
        return '%smovs%s%s%s%s%s' % (ind, sp, ops, tail, sep, comment)
    return line


def convert(text):
    out = ['.syntax unified']
    for line in text.splitlines():
        out.append(convert_line(line))
    return '\n'.join(out) + '\n'
