"""R-POLY instances: formulas of the extension tower (C04) and of the curve group law (C05) compared, as polynomial
normal forms in F_q[inputs], with the definitional arithmetic - for every input at once, and for every aliasing pattern
the signature admits (so the same runs also decide C18 at value level for these routines)."""
from .facts import walk, strip, loc_str, strip_tmpl
from . import gvn, poly, bls
from . import pathrules as pr
from .poly import Poly, F2, F6, F12, XI, ZERO, ONE, flat, sym_f2, sym_f6, sym_f12
from . import buildmodel as bm

NS = 'embedded_pairing::bls12_381::'
SYM = {'Fq2': sym_f2, 'Fq6': sym_f6, 'Fq12': sym_f12}


def type_of(prog, name):
    t = prog.types.get(NS + name)
    if t is None:
        raise bm.AnalysisBroken('type %s not found' % name)
    return t


def the_fn(prog, qn, nparams=None, pred=None):
    fs = [f for f in prog.fn_by_qn(qn) if (nparams is None or len(f['params']) == nparams) and (pred is None or pred(f))]
    if len(fs) != 1:
        raise bm.AnalysisBroken('%s: expected exactly one definition with a body, found %d' % (qn, len(fs)))
    return fs[0]


def run_member(prog, f, this_t, arg_specs, alias=None, ints=None, oracle=None):
    """arg_specs: list of (type name or None, symbol prefix).  alias: index of the argument whose object is also `this`.
    returns (machine, this object id, this type)"""
    M = gvn.Machine(prog, oracle)
    objs = []
    for (tn, name) in arg_specs:
        if tn is None:
            objs.append(None)
        else:
            objs.append(M.new_symbolic(type_of(prog, tn), name))
    if alias is not None:
        out = objs[alias]
    else:
        out = M.new_obj()
    lvs = [(o, ()) if o is not None else None for o in objs]
    M.run_fn(f, (out, ()), lvs, ints or {})
    return M, out


def compare(ctx, cfg, rule, key, site, got, want, what, sample_extra=None):
    """got/want: lists of (leaf path, Poly)"""
    gd, wd = dict(got), dict(want)
    bad = [p for p in wd if gd.get(p) != wd[p]] + [p for p in gd if p not in wd]
    msg = ''
    if bad:
        p = bad[0]
        msg = '%s: component %s is %s, the definition gives %s' % (what, '.'.join(p) or '<value>', gd.get(p), wd.get(p))
    ctx.ob(rule, not bad, key, site, msg, cfg=cfg,
           sample=dict(config=cfg, formula=key, components=len(wd), max_terms=max((v.nterms() for v in wd.values()), default=0),
                       **(sample_extra or {})))
    return not bad


# ------------------------------------------------------------------ tower (C04)
def tower_specs():
    S = []
    for T in ('Fq2', 'Fq6', 'Fq12'):
        S += [
            (T, 'add', [T, T], lambda a, b: a + b, [0]),             # b is __restrict: only out==a admitted
            (T, 'subtract', [T, T], lambda a, b: a - b, [0]),
            (T, 'multiply2', [T], lambda a: a + a, [0]),
            (T, 'negate', [T], lambda a: (a - a) - a, [0]),
            (T, 'multiply', [T, T], lambda a, b: a * b, [0, 1, 'both']),
            (T, 'square', [T], lambda a: a * a, [0]),
        ]
    S += [
        ('Fq2', 'multiply_by_nonresidue', ['Fq2'], lambda a: a * XI, [0]),
        ('Fq6', 'multiply_by_nonresidue', ['Fq6'], lambda a: a.mul_by_v(), [0]),
        ('Fq6', 'multiply_by_c1', ['Fq6', 'Fq2'], lambda a, c1: a * F6(F2(ZERO, ZERO), c1, F2(ZERO, ZERO)), [0]),
        ('Fq6', 'multiply_by_c01', ['Fq6', 'Fq2', 'Fq2'], lambda a, c0, c1: a * F6(c0, c1, F2(ZERO, ZERO)), [0]),
        ('Fq12', 'multiply_by_c014', ['Fq12', 'Fq2', 'Fq2', 'Fq2'],
         lambda a, c0, c1, c4: a * F12(F6(c0, c1, F2(ZERO, ZERO)), F6(F2(ZERO, ZERO), c4, F2(ZERO, ZERO))), [0]),
        ('Fq12', 'conjugate', ['Fq12'], lambda a: a.conj(), [0]),
    ]
    return S


def rule_tower(ctx, cfg, prog, rule='R-POLY'):
    n = 0
    names = 'abcd'
    for (T, op, argts, spec, aliases) in tower_specs():
        f = the_fn(prog, NS + T + '::' + op)
        syms = [SYM[t](names[i]) for i, t in enumerate(argts)]
        want = flat(spec(*syms))
        for al in [None] + aliases:
            if al == 'both':
                # out == a == b: one symbolic object bound to both parameters
                M = gvn.Machine(prog)
                o = M.new_symbolic(type_of(prog, T), 'a')
                try:
                    M.run_fn(f, (o, ()), [(o, ()), (o, ())], {})
                    got = M.object_leaves(o, type_of(prog, T))
                except gvn.Unsupported as e:
                    raise bm.AnalysisBroken('R-POLY cannot model %s::%s: %s' % (T, op, e))
                a = SYM[T]('a')
                w = flat(spec(a, a))
                n += 1
                compare(ctx, cfg, rule, 'poly|%s::%s|out==a==b' % (T, op), loc_str(f), got, w, '%s::%s with out == a == b' % (T, op))
                continue
            try:
                M, out = run_member(prog, f, T, [(t, names[i]) for i, t in enumerate(argts)], alias=al)
                got = M.object_leaves(out, type_of(prog, T))
            except gvn.Unsupported as e:
                raise bm.AnalysisBroken('R-POLY cannot model %s::%s: %s' % (T, op, e))
            n += 1
            pat = 'distinct' if al is None else 'out==%s' % names[al]
            compare(ctx, cfg, rule, 'poly|%s::%s|%s' % (T, op, pat), loc_str(f), got, want,
                    '%s::%s (%s)' % (T, op, pat), dict(pattern=pat))
    # Frobenius maps for every power the index expression distinguishes (and beyond the table length)
    for (T, powers, spec) in (('Fq2', range(0, 4), poly.frobenius_f2), ('Fq6', range(0, 13), poly.frobenius_f6),
                              ('Fq12', range(0, 25), poly.frobenius_f12)):
        f = the_fn(prog, NS + T + '::frobenius_map')
        for k in powers:
            for al in (None, 0):
                try:
                    M, out = run_member(prog, f, T, [(T, 'a'), (None, None)], alias=al, ints={1: k})
                    got = M.object_leaves(out, type_of(prog, T))
                except gvn.Unsupported as e:
                    raise bm.AnalysisBroken('R-POLY cannot model %s::frobenius_map(%d): %s' % (T, k, e))
                n += 1
                compare(ctx, cfg, rule, 'poly|%s::frobenius_map|%d|%s' % (T, k, 'out==a' if al == 0 else 'distinct'), loc_str(f), got,
                        flat(spec(SYM[T]('a'), k)), '%s::frobenius_map(power=%d)' % (T, k))
    # inversions: result * input == 1 given the relation of the (single) inner inversion
    for T in ('Fq2', 'Fq6', 'Fq12'):
        f = the_fn(prog, NS + T + '::inverse')
        for al in (None, 0):
            try:
                M, out = run_member(prog, f, T, [(T, 'a')], alias=al)
                got = dict(M.object_leaves(out, type_of(prog, T)))
            except gvn.Unsupported as e:
                raise bm.AnalysisBroken('R-POLY cannot model %s::inverse: %s' % (T, e))
            n += 1
            a = SYM[T]('a')
            res = rebuild(T, got)
            prod = dict(flat(res * a))
            # with every inversion symbol s replaced through its relation s * arg = 1 the product must be the unit;
            # relations are nested (inner inversions feed outer ones): eliminate from the innermost
            ok, why = unit_modulo_relations(prod, M.relations)
            ctx.ob(rule, ok, 'poly|%s::inverse|%s' % (T, 'out==a' if al == 0 else 'distinct'), loc_str(f),
                   '%s::inverse: result * a is not 1 (%s)' % (T, why), cfg=cfg,
                   sample=dict(config=cfg, formula='%s::inverse' % T, inversions=len(M.relations)))
    return n


def rebuild(T, leaves):
    def f2(p):
        return F2(leaves[p + ('c0',)], leaves[p + ('c1',)])

    def f6(p):
        return F6(f2(p + ('c0',)), f2(p + ('c1',)), f2(p + ('c2',)))
    if T == 'Fq2':
        return f2(())
    if T == 'Fq6':
        return f6(())
    return F12(f6(('c0',)), f6(('c1',)))


def unit_modulo_relations(prod, relations):
    """prod: {leaf path: Poly} of result * a.  The routine performs exactly one inversion one level down (or in the base
    field), summarised as fresh symbols J with the relation J * arg == 1 there.  result * a must be the embedding of
    J * arg (computed with the definitional arithmetic of that level) into the unit position, and zero elsewhere - which
    is 1 by the relation."""
    if len(relations) != 1:
        return False, '%d inversions performed, expected exactly one at the next lower level' % len(relations)
    sym, arg_leaves, kind = relations[0]
    if kind == 'Fq':
        lower = {(): Poly.var(sym) * arg_leaves[()]}
    else:
        J = SYM[kind](sym)
        A = rebuild(kind, arg_leaves)
        lower = dict(flat(J * A))
    depth_pad = None
    for p in prod:
        depth_pad = len(p) - len(next(iter(lower)))
        break
    for p, v in prod.items():
        head, tail = p[:depth_pad], p[depth_pad:]
        if all(h == 'c0' for h in head):
            if v != lower.get(tail):
                return False, 'component %s is not the corresponding component of (inverse * inverted quantity)' % '.'.join(p)
        elif not v.is_zero():
            return False, 'component %s is not zero' % '.'.join(p)
    return True, ''


# ------------------------------------------------------------------ curve (C05)
class Frac:
    """fraction of polynomials, never reduced; equality by cross-multiplication"""
    def __init__(self, n, d):
        self.n, self.d = n, d

    def __add__(self, o):
        return Frac(self.n * o.d + o.n * self.d, self.d * o.d)

    def __sub__(self, o):
        return Frac(self.n * o.d - o.n * self.d, self.d * o.d)

    def __mul__(self, o):
        return Frac(self.n * o.n, self.d * o.d)

    def div(self, o):
        return Frac(self.n * o.d, self.d * o.n)

    def eq(self, o):
        return self.n * o.d == o.n * self.d


def curve_oracle_generic(call, fr, M):
    """generic operands: nothing is the identity, nothing is equal to anything else, nothing is normalised"""
    return False


def rule_curve(ctx, cfg, prog, rule='R-POLY'):
    n = 0
    for base, mk in (('Fq', lambda s: Poly.var(s)), ('Fq2', None)):
        # the coordinates are elements of a commutative ring whose operations are the base field's members: for G2 the
        # ring is Fq2, whose add/subtract/multiply/square/multiply2/negate are themselves proven by rule_tower, so they are
        # treated as ring primitives here (one symbol per coordinate)
        gvn.EXTRA_LEAVES.clear()
        gvn.EXTRA_LEAVES.add(NS + base)
        ptype = prog.types.get(NS + 'Projective<' + NS + base + '>')
        if ptype is None:
            raise bm.AnalysisBroken('Projective<%s> not found' % base)
        aff_name = [nme for nme in prog.records if nme.startswith(NS + 'Affine<' + NS + base + ',')]
        ctx.require(len(aff_name) == 1, 'Affine<%s,...> record not found' % base)
        atype = prog.types[aff_name[0]]

        def coord(leaves, c):
            """coordinate c ('x','y','z') of an object as a ring element"""
            return leaves[(c,)]

        def fr_(x):
            return Frac(x)

        def ring_eq(a, b):
            return a == b

        def frac_eq(fa, fb):
            l, r = fa.n * fb.d, fb.n * fa.d
            return ring_eq(l, r)

        one = ONE
        two = one + one
        three = two + one

        def affine_of(X, Y, Z):
            z2 = Z * Z
            return Frac(X, z2), Frac(Y, z2 * Z)

        def chord(x1, y1, x2, y2):
            lam = (y2 - y1).div(x2 - x1)
            x3 = lam * lam - x1 - x2
            y3 = lam * (x1 - x3) - y1
            return x3, y3

        def tangent(x1, y1):
            lam = (Frac(three, one) * x1 * x1).div(Frac(two, one) * y1)
            x3 = lam * lam - x1 - x1
            y3 = lam * (x1 - x3) - y1
            return x3, y3

        # --- doubling
        f = the_fn(prog, NS + 'Projective<' + NS + base + '>::multiply2')
        for al in (None, 0):
            M = gvn.Machine(prog, curve_oracle_generic)
            a = M.new_symbolic(ptype, 'P')
            out = a if al == 0 else M.new_obj()
            try:
                M.run_fn(f, (out, ()), [(a, ())], {})
                L = dict(M.object_leaves(out, ptype))
            except gvn.Unsupported as e:
                raise bm.AnalysisBroken('R-POLY cannot model Projective<%s>::multiply2: %s' % (base, e))
            Ms = gvn.Machine(prog)
            s = dict(Ms.object_leaves(Ms.new_symbolic(ptype, 'P'), ptype))
            x1, y1 = affine_of(coord(s, 'x'), coord(s, 'y'), coord(s, 'z'))
            wx, wy = tangent(x1, y1)
            gx, gy = affine_of(coord(L, 'x'), coord(L, 'y'), coord(L, 'z'))
            n += 1
            ok = frac_eq(gx, wx) and frac_eq(gy, wy)
            ctx.ob(rule, ok, 'poly|Projective<%s>::multiply2|%s' % (base, 'out==a' if al == 0 else 'distinct'), loc_str(f),
                   'Projective<%s>::multiply2: the Jacobian result (X3/Z3^2, Y3/Z3^3) is not the tangent-rule double of (X/Z^2, Y/Z^3)' % base,
                   cfg=cfg, sample=dict(config=cfg, formula='Projective<%s>::multiply2' % base, check='tangent rule, cross-multiplied'))
        # --- addition, both overloads (general case: no operand is the identity, points differ)
        adds = [g for g in prog.functions.values() if 'body' in g and strip_tmpl(g['qn']) == NS + 'Projective::add' and
                g.get('parent') == NS + 'Projective<' + NS + base + '>']
        ctx.require(len(adds) == 2, 'Projective<%s>::add: expected two overloads' % base)
        for f in adds:
            mixed = 'Affine<' in f['params'][1]['t']['s']
            for al in (None, 0):
                M = gvn.Machine(prog, curve_oracle_generic)
                a = M.new_symbolic(ptype, 'P')
                b = M.new_symbolic(atype if mixed else ptype, 'Q')
                out = a if al == 0 else M.new_obj()
                try:
                    M.run_fn(f, (out, ()), [(a, ()), (b, ())], {})
                    L = dict(M.object_leaves(out, ptype))
                except gvn.Unsupported as e:
                    raise bm.AnalysisBroken('R-POLY cannot model Projective<%s>::add: %s' % (base, e))
                Ms = gvn.Machine(prog)
                sa = dict(Ms.object_leaves(Ms.new_symbolic(ptype, 'P'), ptype))
                x1, y1 = affine_of(coord(sa, 'x'), coord(sa, 'y'), coord(sa, 'z'))
                if mixed:
                    sb = dict(Ms.object_leaves(Ms.new_symbolic(atype, 'Q'), atype))
                    x2, y2 = Frac(coord(sb, 'x'), one), Frac(coord(sb, 'y'), one)
                else:
                    sb = dict(Ms.object_leaves(Ms.new_symbolic(ptype, 'Q'), ptype))
                    x2, y2 = affine_of(coord(sb, 'x'), coord(sb, 'y'), coord(sb, 'z'))
                wx, wy = chord(x1, y1, x2, y2)
                gx, gy = affine_of(coord(L, 'x'), coord(L, 'y'), coord(L, 'z'))
                n += 1
                ok = frac_eq(gx, wx) and frac_eq(gy, wy)
                kind = 'mixed' if mixed else 'projective'
                ctx.ob(rule, ok, 'poly|Projective<%s>::add|%s|%s' % (base, kind, 'out==a' if al == 0 else 'distinct'), loc_str(f),
                       'Projective<%s>::add (%s): the result is not the chord-rule sum of the affine images of its operands' % (base, kind),
                       cfg=cfg, sample=dict(config=cfg, formula='Projective<%s>::add/%s' % (base, kind), check='chord rule, cross-multiplied'))
    gvn.EXTRA_LEAVES.clear()
    return n


# ------------------------------------------------------------------ exponent domain (C01, C04, C07, C06)

# ------------------------------------------------------------------ cyclotomic squaring (C04)
def span_contains(targets, gens):
    """for each target polynomial: does it lie in the F_q-linear span of the generator polynomials (Gaussian elimination
    over F_q on coefficient vectors)"""
    Qm = poly.Q
    monos = sorted(set(m for p in list(targets) + list(gens) for m in p.t), key=str)
    idx = {m: i for i, m in enumerate(monos)}

    def vec(p):
        v = [0] * len(monos)
        for m, c in p.t.items():
            v[idx[m]] = c
        return v
    rows = [vec(g) for g in gens if not g.is_zero()]
    piv = []
    r = 0
    for c in range(len(monos)):
        if r == len(rows):
            break
        prow = None
        for i in range(r, len(rows)):
            if rows[i][c] % Qm:
                prow = i
                break
        if prow is None:
            continue
        rows[r], rows[prow] = rows[prow], rows[r]
        inv = pow(rows[r][c], -1, Qm)
        rows[r] = [(x * inv) % Qm for x in rows[r]]
        for i in range(len(rows)):
            if i != r and rows[i][c] % Qm:
                fct = rows[i][c]
                rows[i] = [(x - fct * y) % Qm for x, y in zip(rows[i], rows[r])]
        piv.append(c)
        r += 1
    res = []
    for t in targets:
        v = vec(t)
        for k, c in enumerate(piv):
            if v[c] % Qm:
                fct = v[c]
                v = [(x - fct * y) % Qm for x, y in zip(v, rows[k])]
        res.append(all(x % Qm == 0 for x in v))
    return res


def rule_cyclotomic(ctx, cfg, prog, rule='R-POLY/cyclotomic'):
    """Fq12::square_cyclotomic(a) == a^2 for every a in the cyclotomic subgroup G_{phi6(q^2)}: the difference of the routine's
    polynomial normal form and a*a lies in the F_q-linear span of the components of the two relations that hold on that
    subgroup, a*conj(a) - 1 (a^(q^6+1) = 1) and frob^4(a)*a - frob^2(a) (a^(q^4-q^2+1) = 1)."""
    f = the_fn(prog, NS + 'Fq12::square_cyclotomic')
    a = sym_f12('a')
    want = dict(flat(a * a))
    one12 = F12(F6(F2(ONE, ZERO), F2(ZERO, ZERO), F2(ZERO, ZERO)), F6(F2(ZERO, ZERO), F2(ZERO, ZERO), F2(ZERO, ZERO)))
    rel = list(dict(flat(a * a.conj() - one12)).values()) + \
        list(dict(flat(poly.frobenius_f12(a, 4) * a - poly.frobenius_f12(a, 2))).values())
    n = 0
    for al in (None, 0):
        try:
            M, out = run_member(prog, f, 'Fq12', [('Fq12', 'a')], alias=al)
            got = dict(M.object_leaves(out, type_of(prog, 'Fq12')))
        except gvn.Unsupported as e:
            raise bm.AnalysisBroken('R-POLY cannot model Fq12::square_cyclotomic: %s' % e)
        paths = sorted(want)
        diffs = [(got.get(p_) if got.get(p_) is not None else Poly()) - want[p_] for p_ in paths]
        exact = sum(1 for d in diffs if d.is_zero())
        inspan = span_contains(diffs, rel)
        bad = [paths[i] for i, okc in enumerate(inspan) if not okc]
        n += 1
        ctx.ob(rule, not bad and len(got) == len(want), 'cyclo|Fq12::square_cyclotomic|%s' % ('out==a' if al == 0 else 'distinct'), loc_str(f),
               'Fq12::square_cyclotomic(a) differs from a*a on the cyclotomic subgroup: component(s) %s of the difference are not in the '
               'span of the subgroup relations a*conj(a)=1, a^(q^4)*a=a^(q^2)' % ['.'.join(p_) for p_ in bad[:3]], cfg=cfg,
               sample=dict(config=cfg, formula='square_cyclotomic == square on G_phi6', components=len(paths), identically_equal=exact,
                           equal_modulo_subgroup_relations=len(paths) - len(bad), relation_generators=len(rel), aliased=al == 0))
    return n


def _exp_run(prog, f, leaf_recs, this_is_out=True, args=None, ints=None, names=None):
    """run f in the exponent domain; args: list of ('g', symbol) | ('obj', name) | None per parameter; returns (machine, out oid)"""
    from . import expdom
    gvn.EXTRA_LEAVES.clear()
    gvn.EXTRA_LEAVES.update(leaf_recs)
    M = expdom.ExpMachine(prog)
    M.obj_names = {}
    lvs = []
    for a in (args or []):
        if a is None:
            lvs.append(None)
        elif a[0] == 'g':
            lvs.append((M.new_element(a[1]), ()))
        elif a[0] == 'obj':
            o = M.new_obj()
            M.obj_names[o] = a[1]
            lvs.append((o, ()))
        elif a[0] == 'same':
            lvs.append(lvs[a[1]])
    return M, lvs


def rule_exponents_gt(ctx, cfg, prog, which=('final', 'cyclo', 'gtexp', 'generic'), rule='R-POLY/exp'):
    from . import expdom
    Qn, R_, X_ = bls.Q, bls.R_ORDER, bls.X
    N12 = Qn ** 12 - 1
    F12 = NS + 'Fq12'
    n = 0
    try:
        if 'final' in which:
            f = the_fn(prog, NS + 'final_exponentiation')
            want = (3 * (N12 // R_)) % N12
            for alias in (False, True):
                M, lvs = _exp_run(prog, f, {F12}, args=[('g', 'g'), ('g', 'g')])
                out, a = lvs
                if alias:
                    out = a
                else:
                    M.store[out] = None
                    M.store.pop(out, None)
                why = 'the exponent of the easy part (q^6-1)(q^2+1) times the hard part does not equal the library\'s final exponent'
                try:
                    M.run_fn(f, None, [out, a], {})
                    E = M.read_leaf(out[0], out[1])
                    got = E.t.get('g', 0) % N12 if not E.c and set(E.t) <= {'g'} else None
                except expdom.NotEquivalent as ex:
                    got, why = None, str(ex)
                n += 1
                ctx.ob(rule, got == want, 'exp|final_exponentiation|%s' % ('result==a' if alias else 'distinct'), loc_str(f),
                       'final_exponentiation(result, a) computes a^E with E != 3*(q^12-1)/r (mod q^12-1): %s' % why, cfg=cfg,
                       sample=dict(config=cfg, routine='final_exponentiation', exponent_bits=(got or 0).bit_length(),
                                   expected='3*(q^12-1)/r mod (q^12-1)', aliased=alias,
                                   cyclotomic_squarings_with_operand_proved_in_subgroup=M.cyclotomic_squarings))
        if 'cyclo' in which:
            f = the_fn(prog, NS + 'Fq12::map_to_cyclotomic')
            M, lvs = _exp_run(prog, f, {F12}, args=[('g', 'g')])
            out = (M.new_obj(), ())
            M.run_fn(f, out, lvs, {})
            E = M.read_leaf(out[0], out[1])
            n += 1
            ctx.ob(rule, (not E.c) and set(E.t) <= {'g'} and E.t.get('g', 0) % N12 == ((Qn ** 6 - 1) * (Qn ** 2 + 1)) % N12,
                   'exp|map_to_cyclotomic', loc_str(f), 'Fq12::map_to_cyclotomic does not raise to (q^6-1)(q^2+1)', cfg=cfg,
                   sample=dict(config=cfg, routine='map_to_cyclotomic', expected='(q^6-1)(q^2+1)'))
        if 'gtexp' in which:
            f = the_fn(prog, NS + 'Fq12::exponentiate_gt', pred=lambda g: 'PowersOfX' in g['params'][1]['t']['s'])
            distinct_ok = False
            for alias in (False, True):
                M, lvs = _exp_run(prog, f, {F12}, args=[('g', 'g'), ('obj', 'scalar')])
                out = lvs[0] if alias else (M.new_obj(), ())
                M.gen_cyclotomic = True          # the property quantifies over a in GT
                bad = []
                try:
                    M.run_fn(f, out, lvs, {})
                    E = M.read_leaf(out[0], out[1])
                except expdom.NotEquivalent as ex:
                    bad.append(str(ex))
                    E = expdom.Lin(0)
                except gvn.Unsupported as ex:
                    if alias and distinct_ok and 'non-linear dependence on scalar bits' in str(ex):
                        # the same routine is linear in the digit bits with a separate result: aliasing makes the accumulator feed
                        # back into what it is multiplied by (the base is overwritten while it is still in use)
                        bad.append('with the result aliasing the base the exponent stops being linear in the digit bits (%s): the base is '
                                   'overwritten while it is still in use' % ex)
                        E = expdom.Lin(0)
                        n += 1
                        ctx.ob(rule, False, 'exp|exponentiate_gt|out==a', loc_str(f),
                               'Fq12::exponentiate_gt(a, c) is not a^(c0 + c1|x| + c2|x|^2 + c3|x|^3) for a of order r: %s' % '; '.join(bad[:3]), cfg=cfg)
                        continue
                    raise
                seen = set()
                for k, v in E.t.items():
                    # k = 'bit:scalar.c.[j]#i*g'
                    if not (k.startswith('bit:scalar.c.[') and k.endswith('*g')):
                        bad.append('unexpected term %s' % k)
                        continue
                    j = int(k[len('bit:scalar.c.['):].split(']')[0])
                    i = int(k.split('#')[1].split('*')[0])
                    seen.add((j, i))
                    if v % R_ != (pow(2, i, R_) * pow(abs(X_), j, R_)) % R_:
                        bad.append('bit %d of digit %d has weight != 2^%d*|x|^%d (mod r)' % (i, j, i, j))
                if E.c % R_:
                    bad.append('constant exponent')
                missing = [(j, i) for j in range(4) for i in range(64) if (j, i) not in seen]
                if missing:
                    bad.append('bits never used: %s...' % missing[:3])
                n += 1
                if not alias and not bad:
                    distinct_ok = True
                ctx.ob(rule, not bad, 'exp|exponentiate_gt|%s' % ('out==a' if alias else 'distinct'), loc_str(f),
                       'Fq12::exponentiate_gt(a, c) is not a^(c0 + c1|x| + c2|x|^2 + c3|x|^3) for a of order r: %s' % '; '.join(bad[:3]), cfg=cfg,
                       sample=dict(config=cfg, routine='exponentiate_gt', bit_weights_checked=len(seen), aliased=alias,
                                   uses='q = x (mod r), q^6 = -1 (mod r)', flag_guards_proved_equivalent=M.flag_guards, assumptions=sorted(M.assumptions)))
        if 'generic' in which:
            # generic square-and-multiply routines: weight of bit i must be 2^i
            cands = [g for g in prog.functions.values() if 'body' in g and strip_tmpl(g['qn']) in
                     ('embedded_pairing::core::exponentiate_restrict', NS + 'Fq12::exponentiate_restrict_cyclotomic_nodiv')]
            ctx.require(len(cands) >= 3, 'generic exponentiation routines not found')
            for f in sorted(cands, key=lambda g: g['qn']):
                method = bool(f.get('method'))
                elt = (f['params'][0]['t'].get('pointee') or {}).get('rec') if not method else f.get('parent')
                bits = int(strip_tmpl_bits(f['params'][-1]['t']['s']))
                bad = []
                try:
                    if method:
                        M, lvs = _exp_run(prog, f, {elt}, args=[('g', 'g'), ('obj', 'k')])
                        M.gen_cyclotomic = 'cyclotomic' in f['qn']      # documented precondition of the *_cyclotomic_* routine
                        out = (M.new_obj(), ())
                        M.run_fn(f, out, lvs, {})
                    else:
                        M, lvs = _exp_run(prog, f, {elt}, args=[('obj', 'res'), ('g', 'g'), ('obj', 'k')])
                        out = lvs[0]
                        M.run_fn(f, None, lvs, {})
                    E = M.read_leaf(out[0], out[1])
                except expdom.NotEquivalent as ex:
                    bad.append(str(ex))
                    E = expdom.Lin(0)
                bad += [k for k, v in E.t.items() if not (k.startswith('bit:k#') and k.endswith('*g') and v == 1 << int(k.split('#')[1].split('*')[0]))]
                okc = len(E.t) == bits and not bad and not E.c
                n += 1
                ctx.ob(rule, okc, 'exp|%s' % f['qn'][-70:], loc_str(f),
                       '%s is not a -> a^k with bit i of k weighted 2^i for all %d bits (%s)' % (f['qn'], bits, bad[:2]), cfg=cfg,
                       sample=dict(config=cfg, routine=f['qn'][-70:], bits=bits, flag_guards_proved_equivalent=M.flag_guards))
    except gvn.Unsupported as e:
        raise bm.AnalysisBroken('R-POLY/exp cannot model the routine: %s' % e)
    finally:
        gvn.EXTRA_LEAVES.clear()
    return n


def strip_tmpl_bits(s):
    import re
    m = re.search(r'BigInt<(\d+)>', s)
    return m.group(1) if m else '0'


# ------------------------------------------------------------------ Miller steps and line evaluation (C01, C08)
def rule_miller_lines(ctx, cfg, prog, rule='R-POLY/line'):
    """miller_doubling_step / miller_addition_step update the running twist point by the tangent / chord rule and return line
    coefficients proportional (over the coordinate ring, i.e. by a factor in Fq2) to the tangent / chord line through the
    untwisted points, and ell multiplies the accumulator by that line evaluated at P, placed at 1, v, v*w.

    Derivation of the expected coefficients (M-type sextic twist E': y^2 = x^3 + b*xi, psi(x', y') = (x'/w^2, y'/w^3), w^2 = v,
    w^6 = xi): the line through psi(R) with slope lambda'/w evaluated at P = (xP, yP), multiplied by w^3 (an element of the
    proper subfield Fq4, removed by the final exponentiation like every Fq2 factor):
        l*w^3 = (lambda'*x' - y') + (-lambda'*xP) * v + yP * v*w.
    Tangent at Jacobian R = (X, Y, Z) (x' = X/Z^2, y' = Y/Z^3, lambda' = 3x'^2 / 2y'), denominators cleared:
        (c : b : a) = (3X^3 - 2Y^2 : -3X^2 Z^2 : 2Y Z^3)
    Chord through R and affine Q = (x2, y2), N = y2 Z^3 - Y, D = Z (x2 Z^2 - X):
        (c : b : a) = (N x2 - D y2 : -N : D)."""
    n = 0
    gvn.EXTRA_LEAVES.clear()
    gvn.EXTRA_LEAVES.add(NS + 'Fq2')
    try:
        ptype = type_of(prog, 'Projective<' + NS + 'Fq2>')
        aff_name = [nme for nme in prog.records if nme.startswith(NS + 'Affine<' + NS + 'Fq2,')]
        ctx.require(len(aff_name) == 1, 'Affine<Fq2,...> record not found')
        atype = prog.types[aff_name[0]]
        ttype = type_of(prog, 'MillerTriple')
        one = ONE
        two, three = one + one, one + one + one

        def prop(got, want):
            (c, b, a), (wc, wb, wa) = got, want
            return (c * wb - b * wc).is_zero() and (c * wa - a * wc).is_zero() and (b * wa - a * wb).is_zero() and not a.is_zero() and not c.is_zero()

        def aff(X, Y, Z):
            z2 = Z * Z
            return Frac(X, z2), Frac(Y, z2 * Z)

        def feq(fa, fb):
            return (fa.n * fb.d - fb.n * fa.d).is_zero()

        for which in ('doubling', 'addition'):
            f = the_fn(prog, NS + 'miller_' + which + '_step')
            M = gvn.Machine(prog, curve_oracle_generic)
            res = M.new_obj()
            r = M.new_symbolic(ptype, 'R')
            args = [(res, ()), (r, ())]
            if which == 'addition':
                q = M.new_symbolic(atype, 'Q')
                args.append((q, ()))
            try:
                M.run_fn(f, None, args, {})
                L = dict(M.object_leaves(res, ttype))
                Rn = dict(M.object_leaves(r, ptype))
            except gvn.Unsupported as e:
                raise bm.AnalysisBroken('R-POLY/line cannot model miller_%s_step: %s' % (which, e))
            X, Y, Z = Poly.var('R.x'), Poly.var('R.y'), Poly.var('R.z')
            x1, y1 = aff(X, Y, Z)
            if which == 'doubling':
                lam = (Frac(three, one) * x1 * x1).div(Frac(two, one) * y1)
                x3 = lam * lam - x1 - x1
                y3 = lam * (x1 - x3) - y1
                want = (three * X * X * X - two * Y * Y, -(three * X * X * Z * Z), two * Y * Z * Z * Z)
            else:
                x2, y2 = Poly.var('Q.x'), Poly.var('Q.y')
                fx2, fy2 = Frac(x2, one), Frac(y2, one)
                lam = (fy2 - y1).div(fx2 - x1)
                x3 = lam * lam - x1 - fx2
                y3 = lam * (x1 - x3) - y1
                N = y2 * Z * Z * Z - Y
                D = Z * (x2 * Z * Z - X)
                want = (N * x2 - D * y2, -N, D)
            gx, gy = aff(Rn[('x',)], Rn[('y',)], Rn[('z',)])
            n += 1
            ctx.ob(rule, feq(gx, x3) and feq(gy, y3), 'line|%s|point' % which, loc_str(f),
                   'miller_%s_step: the updated running point is not the %s of the twist points (affine images, cross-multiplied)' %
                   (which, 'tangent-rule double' if which == 'doubling' else 'chord-rule sum R + Q'), cfg=cfg,
                   sample=dict(config=cfg, formula='miller_%s_step point update' % which))
            got = (L[('c',)], L[('b',)], L[('a',)])
            n += 1
            ctx.ob(rule, prop(got, want), 'line|%s|coefficients' % which, loc_str(f),
                   'miller_%s_step: the coefficient triple (c : b : a) is not proportional to the %s line through the untwisted point(s) '
                   '%s' % (which, 'tangent' if which == 'doubling' else 'chord',
                           '(3X^3-2Y^2 : -3X^2Z^2 : 2YZ^3)' if which == 'doubling' else '(N*x2 - D*y2 : -N : D)'), cfg=cfg,
                   sample=dict(config=cfg, formula='miller_%s_step line coefficients' % which, check='pairwise cross products vanish'))
    finally:
        gvn.EXTRA_LEAVES.clear()
    # ell: accumulator *= c + (b*xP) v + (a*yP) v w   (base-field leaves)
    f = the_fn(prog, NS + 'ell')
    g1_name = [nme for nme in prog.records if nme.startswith(NS + 'Affine<' + NS + 'Fq,')]
    ctx.require(len(g1_name) == 1, 'Affine<Fq,...> record not found')
    M = gvn.Machine(prog, curve_oracle_generic)
    fo = M.new_symbolic(type_of(prog, 'Fq12'), 'f')
    co = M.new_symbolic(type_of(prog, 'MillerTriple'), 'T')
    po = M.new_symbolic(prog.types[g1_name[0]], 'P')
    try:
        M.run_fn(f, None, [(fo, ()), (co, ()), (po, ())], {})
        got = M.object_leaves(fo, type_of(prog, 'Fq12'))
    except gvn.Unsupported as e:
        raise bm.AnalysisBroken('R-POLY/line cannot model ell: %s' % e)
    xP, yP = Poly.var('P.x'), Poly.var('P.y')
    a, b, c = sym_f2('T.a'), sym_f2('T.b'), sym_f2('T.c')
    z2 = F2(ZERO, ZERO)
    line = F12(F6(c, b.scale(xP), z2), F6(z2, a.scale(yP), z2))
    n += 1
    compare(ctx, cfg, rule, 'line|ell', loc_str(f), got, flat(sym_f12('f') * line),
            'ell: accumulator times the line c + (b*xP) v + (a*yP) v*w')
    # the factors dropped above (Fq2 scalars, w^3) die in the final exponentiation: (q^4 - 1) divides 3(q^12-1)/r
    e = 3 * ((poly.Q ** 12 - 1) // bls.R_ORDER)
    n += 1
    ctx.ob(rule, (poly.Q ** 12 - 1) % bls.R_ORDER == 0 and e % (poly.Q ** 4 - 1) == 0, 'line|subfield-factors', loc_str(f),
           'the final exponent is not a multiple of q^4 - 1: Fq2 / Fq4 factors of the line values would survive', cfg=cfg)
    return n


# ------------------------------------------------------------------ Fq2 square root (C04, C09)
class _Mono:
    """c * prod atom^exp with c in {1, -1, u, -u}; atoms: 'a' and opaque sums"""

    def __init__(self, c='1', e=None):
        self.c, self.e = c, {k: v for k, v in (e or {}).items() if v}

    def mul(self, o):
        e = dict(self.e)
        for k, v in o.e.items():
            e[k] = e.get(k, 0) + v
        table = {('1', '1'): '1', ('1', 'u'): 'u', ('u', '1'): 'u', ('u', 'u'): '-1', ('-1', '1'): '-1', ('1', '-1'): '-1', ('-1', '-1'): '1',
                 ('-1', 'u'): '-u', ('u', '-1'): '-u', ('-u', '1'): '-u', ('1', '-u'): '-u', ('-u', 'u'): '1', ('u', '-u'): '1',
                 ('-u', '-1'): 'u', ('-1', '-u'): 'u', ('-u', '-u'): '-1'}
        return _Mono(table[(self.c, o.c)], e)

    def pw(self, n):
        if self.c != '1':
            raise gvn.Unsupported('power of a scaled term')
        return _Mono('1', {k: v * n for k, v in self.e.items()})

    def key(self):
        return (self.c, tuple(sorted(self.e.items())))

    def __repr__(self):
        return '%s*%s' % (self.c, '*'.join('%s^%s' % (k, hex(v)[:18]) for k, v in sorted(self.e.items())) or '1')


def rule_fq2_sqrt(ctx, cfg, prog, rule='R-POLY/sqrt'):
    """Fq2::square_root is the q = 3 (mod 4) algorithm: a1 = a^((q-3)/4), alpha = a1^2 a = a^((q-1)/2), x0 = a1 a = a^((q+1)/4);
    if alpha == -1 then x = u x0 (x^2 = -x0^2 = -a alpha = a) else x = x0 (alpha + 1)^((q-1)/2) (x^2 = a alpha (1+alpha)^(q-1) = a since
    alpha has norm 1).  The exceptional branch must be guarded by the FULL equality alpha == -1: alpha = +1 also has c1 == 0."""
    f = the_fn(prog, NS + 'Fq2::square_root')
    q = poly.Q
    env = {}          # location string -> _Mono
    sums = {}
    guards = []
    problems = []
    pn = f['params'][0]['name']

    def locof(e):
        return pr.norm_obj(pr.canon(e))

    def rd(e):
        l = locof(e)
        if l == 'P:' + pn:
            return _Mono('1', {'a': 1})
        if l in env:
            return env[l]
        if l.endswith('Fq2::one') or l.endswith('::one'):
            return _Mono('1', {})
        raise gvn.Unsupported('read of %s' % l)

    def const_int(e):
        v = None
        for x in walk(e):
            if x.get('k') == 'ref' and x.get('rk') == 'global':
                g = prog.globals.get(x['g'])
                if g is not None and 'value' in g:
                    v = consts_as_int(g['value'])
        return v

    def consts_as_int(val):
        from . import consts
        return consts.as_int(consts.decode(val))

    boolinit = {}

    def run(stmts, branch):
        for idx, s in enumerate(stmts):
            k = s.get('k')
            if k == 'compound':
                run(s['body'], branch)
            elif k == 'decl':
                for v in s['vars']:
                    init = v.get('init')
                    if init is not None and (v.get('t') or {}).get('k') == 'bool':
                        boolinit[v['id']] = init       # a named condition (its operands are not written before the branch: checked below)
                    if init is not None and init.get('k') == 'initlist':
                        names = [x['g'].split('::')[-1] for x in walk(init) if x.get('k') == 'ref' and x.get('rk') == 'global']
                        env['L%d' % v['id']] = _Mono('u', {}) if names == ['zero', 'one'] else (_Mono('1', {}) if names == ['one', 'zero'] else None)
            elif k == 'expr':
                e = strip(s['e'])
                if e.get('k') != 'call':
                    raise gvn.Unsupported('statement at %s' % loc_str(s))
                name, args = e.get('name'), e.get('args', [])
                if name == 'exponentiate':
                    n = const_int(args[2])
                    if n is None:
                        raise gvn.Unsupported('exponent at %s is not a constant' % loc_str(e))
                    env[locof(args[0])] = rd(args[1]).pw(n)
                elif e.get('this') is not None:
                    tl = locof(e['this'])
                    if name == 'square':
                        env[tl] = rd(args[0]).pw(2)
                    elif name == 'multiply':
                        a_, b_ = rd(args[0]), rd(args[1])
                        if a_ is None or b_ is None:
                            raise gvn.Unsupported('operand at %s' % loc_str(e))
                        env[tl] = a_.mul(b_)
                    elif name == 'add':
                        ks = sorted([rd(args[0]).key(), rd(args[1]).key()])
                        nm = sums.setdefault(tuple(ks), 'S%d' % (len(sums) + 1))
                        env[tl] = _Mono('1', {nm: 1})
                    elif name == 'copy':
                        env[tl] = rd(args[0])
                    else:
                        raise gvn.Unsupported('operation %s at %s' % (name, loc_str(e)))
                else:
                    raise gvn.Unsupported('call %s at %s' % (name, loc_str(e)))
            elif k == 'if':
                c = strip(s['c'])
                neg = False
                for _ in range(6):
                    while isinstance(c, dict) and c.get('k') in ('cast', 'paren', 'load'):
                        c = strip(c['e'])
                    if isinstance(c, dict) and c.get('k') == 'un' and c.get('op') == '!':
                        neg = not neg
                        c = strip(c['e'])
                        continue
                    if isinstance(c, dict) and c.get('k') == 'ref' and c.get('rk') == 'local' and c.get('id') in boolinit:
                        # only when the declaration is the statement right before the branch (nothing can change the operands in between)
                        prev = stmts[idx - 1] if idx > 0 else None
                        if not (prev is not None and prev.get('k') == 'decl' and any(v.get('id') == c['id'] for v in prev['vars'])):
                            raise gvn.Unsupported('named condition declared away from its use at %s' % loc_str(s))
                        c = strip(boolinit[c['id']])
                        continue
                    break
                if c.get('k') == 'call' and c.get('name') == 'is_zero' and locof(c['this']) == 'P:' + pn:
                    continue        # zero special case
                then_s, else_s = [s['then']], ([s['else']] if s.get('else') else [])
                took_rest = False
                tb = s['then'].get('body', []) if s['then'].get('k') == 'compound' else [s['then']]
                if not s.get('else') and tb and tb[-1].get('k') == 'return':
                    # `if (c) { A; return; } REST`: REST is the other arm
                    else_s = list(stmts[idx + 1:])
                    took_rest = True
                if neg:
                    then_s, else_s = else_s, then_s
                guards.append((c, dict(env)))
                saved = dict(env)
                run(then_s, 'then')
                results['then'] = env.get('this')
                env.clear()
                env.update(saved)
                if else_s:
                    run(else_s, 'else')
                results['else'] = env.get('this')
                if took_rest:
                    return
            elif k == 'return':
                pass
            else:
                raise gvn.Unsupported('statement %s at %s' % (k, loc_str(s)))
    results = {}
    why = []
    try:
        run([f['body']], None)
    except gvn.Unsupported as e:
        why.append('the routine left the shape of the q = 3 (mod 4) algorithm: %s' % e)
    ok = not why
    if ok:
        if len(guards) != 1:
            ok = False
            why.append('expected exactly one run-time branch (alpha == -1), found %d' % len(guards))
    if ok:
        c, envg = guards[0]
        x0 = envg.get('this')
        is_eq = c.get('k') == 'call' and c.get('name') == 'equal' and len(c.get('args', [])) == 2
        alpha = None
        if is_eq:
            ls = [locof(a) for a in c['args']]
            other = [l for l in ls if not l.endswith('negative_one')]
            if len(other) == 1 and any(l.endswith('Fq2::negative_one') for l in ls):
                alpha = envg.get(other[0])
        if alpha is None:
            ok = False
            why.append('the exceptional branch is not guarded by the full equality alpha == -1 (Fq2::equal with Fq2::negative_one): a test of one '
                       'coordinate also holds for alpha = +1, where u * x0 squares to -a')
        else:
            if alpha.key() != _Mono('1', {'a': (q - 1) // 2}).key():
                ok = False
                why.append('alpha is %r, not a^((q-1)/2)' % alpha)
            if x0 is None or x0.key() != _Mono('1', {'a': (q + 1) // 4}).key():
                ok = False
                why.append('x0 is %r, not a^((q+1)/4)' % x0)
            rt, re_ = results.get('then'), results.get('else')
            if rt is None or rt.key() != _Mono('u', {'a': (q + 1) // 4}).key():
                ok = False
                why.append('the exceptional branch yields %r, not u * a^((q+1)/4)' % rt)
            want_sum = tuple(sorted([_Mono('1', {'a': (q - 1) // 2}).key(), _Mono('1', {}).key()]))
            sname = sums.get(want_sum)
            if re_ is None or sname is None or re_.key() != _Mono('1', {'a': (q + 1) // 4, sname: (q - 1) // 2}).key():
                ok = False
                why.append('the general branch yields %r, not a^((q+1)/4) * (alpha + 1)^((q-1)/2)' % re_)
    ctx.ob(rule, ok, 'sqrt|Fq2::square_root', loc_str(f), 'Fq2::square_root: %s' % ' ;; '.join(why), cfg=cfg,
           sample=dict(config=cfg, routine='Fq2::square_root', algorithm='q = 3 mod 4 (Adj, Rodriguez-Henriquez)', exponents='(q-3)/4, (q-1)/2'))
    return 1


# ------------------------------------------------------------------ predicates of the tower (C04, C05)
def rule_tower_predicates(ctx, cfg, prog, rule='R-PRED'):
    """is_zero / is_one / equal of Fq2, Fq6, Fq12 are the conjunctions their definitions require: all coordinates zero; leading
    coordinate one and the others zero; all coordinates equal.  The bodies are expanded down to the base-field predicates."""
    n = 0
    leaves_of = {}

    def leaves(tn):
        if tn not in leaves_of:
            t = type_of(prog, tn)
            leaves_of[tn] = [p for (p, kind) in gvn.leaf_paths(prog, t) if kind == 'fq']
        return leaves_of[tn]

    def expand(f, prefix, depth=0):
        """conjunction (frozenset of atoms) computed by predicate f applied to the object at `prefix`, or None when not a pure conjunction"""
        if depth > 6:
            return None
        inits = {}
        for x in walk(f['body']):
            if x.get('k') == 'decl':
                for v in x['vars']:
                    if v.get('init') is not None:
                        inits[v['id']] = v['init']
        rets = [x for x in walk(f['body']) if x.get('k') == 'return']
        if len(rets) != 1 or rets[0].get('e') is None:
            return None

        def obj_path(e):
            """member path below this / the parameters, as a tuple, plus which operand ('this', 0, 1)"""
            e = strip(e)
            while e.get('k') == 'cast':
                e = strip(e['e'])
            path = []
            while e.get('k') == 'member':
                path.append(e['name'])
                e = strip(e['base'])
                while e.get('k') == 'cast':
                    e = strip(e['e'])
            path.reverse()
            if e.get('k') == 'this':
                return ('this', tuple(path))
            if e.get('k') == 'ref' and e.get('rk') == 'param':
                idx = [i for i, p in enumerate(f['params']) if p['name'] == e['name']]
                return (idx[0] if idx else None, tuple(path))
            if e.get('k') == 'un' and e.get('op') == '*' and strip(e['e']).get('k') == 'this':
                return ('this', tuple(path))
            return (None, tuple(path))

        def ev(e):
            e = strip(e)
            while e.get('k') == 'cast':
                e = strip(e['e'])
            k = e.get('k')
            if k == 'bin' and e.get('op') == '&&':
                a, b = ev(e['lhs']), ev(e['rhs'])
                return None if a is None or b is None else a | b
            if k == 'ref' and e.get('rk') == 'local' and e.get('id') in inits:
                return ev(inits[e['id']])
            if k == 'call':
                name = e.get('name')
                callee = prog.callee(e, f)
                if name in ('is_zero', 'is_one') and e.get('this') is not None:
                    who, path = obj_path(e['this'])
                    if who != 'this':
                        return None
                    full = prefix + path
                    parent = (callee or {}).get('parent') or ''
                    if callee is not None and 'body' in callee and parent.split('::')[-1] in ('Fq2', 'Fq6', 'Fq12'):
                        return expand(callee, full, depth + 1)
                    return frozenset({(name[3], full)})            # 'z' / 'o' of a base-field leaf
                if name == 'equal' and len(e.get('args', [])) == 2:
                    (w0, p0), (w1, p1) = obj_path(e['args'][0]), obj_path(e['args'][1])
                    if {w0, w1} != {0, 1} or p0 != p1:
                        return None
                    full = prefix + p0
                    parent = (callee or {}).get('parent') or ''
                    if callee is not None and 'body' in callee and parent.split('::')[-1] in ('Fq2', 'Fq6', 'Fq12'):
                        return expand(callee, full, depth + 1)
                    return frozenset({('e', full)})
            return None
        return ev(rets[0]['e'])
    for tn in ('Fq2', 'Fq6', 'Fq12'):
        for pname in ('is_zero', 'is_one', 'equal'):
            fs = [f for f in prog.fn_by_qn(NS + tn + '::' + pname)]
            if not fs:
                continue
            f = fs[0]
            lv = leaves(tn)
            got = expand(f, ())
            if pname == 'is_zero':
                want = frozenset(('z', p) for p in lv)
            elif pname == 'is_one':
                want = frozenset([('o', lv[0])] + [('z', p) for p in lv[1:]])
            else:
                want = frozenset(('e', p) for p in lv)
            n += 1

            def fmt(s_):
                return 'not a pure conjunction of coordinate tests' if s_ is None else ' && '.join('%s(%s)' % ({'z': 'zero', 'o': 'one', 'e': 'equal'}[a], '.'.join(p)) for a, p in sorted(s_))
            ctx.ob(rule, got == want, 'pred|%s::%s' % (tn, pname), loc_str(f),
                   '%s::%s computes [%s]; the definition requires [%s]' % (tn, pname, fmt(got)[:300], fmt(want)[:300]), cfg=cfg,
                   sample=dict(config=cfg, predicate='%s::%s' % (tn, pname), coordinates=len(lv)))
    return n
