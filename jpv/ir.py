"""E2: object-level symbol facts and LLVM-IR effect facts per configuration (nothing is linked or executed)."""
import json
import os
import re
import shutil
import subprocess
from concurrent.futures import ThreadPoolExecutor
from . import buildmodel as bm

JPIR = os.path.join(bm.BUILD, 'jpir')


def real_flags(cfg):
    """The Makefile's own optimisation/codegen flags for the configuration."""
    c = bm.configs()[cfg]
    if c['arch'] == 'armv6_m':
        # Makefile, embedded section (commented alternative): -Os ... -ffunction-sections -fdata-sections
        # -fno-builtin -fshort-enums -fno-threadsafe-statics (mcpu/mthumb/float-abi are already in the config flags)
        return ['-Os', '-ffunction-sections', '-fdata-sections', '-mno-thumb-interwork'] if False else \
               ['-Os', '-ffunction-sections', '-fdata-sections']
    return ['-Ofast', '-fno-vectorize']


def asm_flags(cfg):
    c = bm.configs()[cfg]
    if c['arch'] == 'aarch64':
        return ['--target=aarch64-none-elf']
    return []


def _run(cmd):
    p = subprocess.run(cmd, stdout=subprocess.PIPE, stderr=subprocess.PIPE, text=True)
    return p.returncode, p.stdout, p.stderr


def _nm(obj):
    rc, out, err = _run(['llvm-nm-14', obj])
    syms = []
    for line in out.splitlines():
        m = re.match(r'^([0-9a-fA-F]*)\s+(\S)\s+(\S+)$', line)
        if m:
            syms.append((m.group(2), m.group(3)))
    return syms


def _one_cpp(job):
    cfg, src, outdir = job
    tag = os.path.relpath(src, bm.REPO).replace('/', '__')
    obj = os.path.join(outdir, tag + '.o')
    ll0 = os.path.join(outdir, tag + '.O0.ll')
    ll1 = os.path.join(outdir, tag + '.m2r.ll')
    js = os.path.join(outdir, tag + '.ir.json')
    base = ['clang++'] + bm.flags_for(cfg)
    rc, out, err = _run(base + real_flags(cfg) + ['-c', src, '-o', obj])
    if rc != 0:
        return dict(src=src, error='object build failed: ' + err[-1500:])
    rc, out, err = _run(base + ['-O0', '-Xclang', '-disable-O0-optnone', '-g', '-S', '-emit-llvm', src, '-o', ll0])
    if rc != 0:
        return dict(src=src, error='IR build failed: ' + err[-1500:])
    rc, out, err = _run(['opt-14', '-passes=mem2reg', ll0, '-S', '-o', ll1])
    if rc != 0:
        return dict(src=src, error='mem2reg failed: ' + err[-1500:])
    rc, out, err = _run([JPIR, ll1])
    if rc != 0:
        return dict(src=src, error='jpir failed: ' + err[-1500:])
    ir = json.loads(out)
    for f in (ll0, ll1):
        os.unlink(f)
    rc, secs, err = _run(['llvm-objdump-14', '-h', obj])
    return dict(src=os.path.relpath(src, bm.REPO), obj=obj, syms=_nm(obj), ir=ir, sections=secs)


def _one_asm(job):
    cfg, src, outdir = job
    tag = os.path.relpath(src, bm.REPO).replace('/', '__')
    obj = os.path.join(outdir, tag + '.o')
    rc, out, err = _run(['clang'] + asm_flags(cfg) + ['-c', src, '-o', obj])
    if rc != 0:
        return dict(src=os.path.relpath(src, bm.REPO), asm_error=err[-800:])
    rc, dis, err = _run(['llvm-objdump-14', '-d', '-r', '--no-show-raw-insn', obj])
    rc, secs, err = _run(['llvm-objdump-14', '-h', obj])
    return dict(src=os.path.relpath(src, bm.REPO), obj=obj, syms=_nm(obj), disasm=dis, sections=secs)


def build(cfg, outdir):
    """Returns dict(cpp=[...], asm=[...]) of per-unit facts for one configuration."""
    if not os.path.exists(JPIR):
        raise bm.AnalysisBroken('build/jpir missing: run ./setup.sh')
    d = os.path.join(outdir, cfg)
    if os.path.isdir(d):
        shutil.rmtree(d)
    os.makedirs(d)
    cpp = bm.cpp_units(cfg)
    if not cpp:
        raise bm.AnalysisBroken('no translation units for %s' % cfg)
    with ThreadPoolExecutor(max_workers=bm.NCPU) as ex:
        cres = list(ex.map(_one_cpp, [(cfg, s, d) for s in cpp]))
        ares = list(ex.map(_one_asm, [(cfg, s, d) for s in bm.asm_units(cfg)]))  # the Makefile archives $(ARCHDIR)/*.s even with -DDISABLE_ASM
    bad = [r for r in cres if 'error' in r]
    if bad:
        raise bm.AnalysisBroken('IR/object build failed in %s: %s' % (cfg, '; '.join('%s: %s' % (b['src'], b['error']) for b in bad)))
    return dict(cpp=cres, asm=ares)


def asm_globals_from_source(path):
    """Symbols an assembly source defines and exports (.global/.globl + label), for sources that cannot be
    assembled in this image (ARMv6-M divided syntax)."""
    txt = open(path).read()
    glob = set(re.findall(r'^\s*\.glob[a]?l\s+([A-Za-z_.$][\w.$]*)', txt, re.M))
    labels = set(re.findall(r'^([A-Za-z_.$][\w.$]*):', txt, re.M))
    ext = set(re.findall(r'^\s*(?:bl|b|blx)\s+([A-Za-z_][\w]*)\s*$', txt, re.M))
    return glob & labels, ext - labels
