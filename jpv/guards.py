"""R-GUARD instances: necessary special-case guards must dominate the general-case computation.
Each instance names roles (operand, effect of the exit, kind of test) and carries its necessity argument."""
from .facts import walk, strip, loc_str, strip_tmpl
from . import pathrules as pr
from .cfg import CFG
from .ranges import writes_to as ranges_writes

NS = 'embedded_pairing::bls12_381::'


class ZCond:
    """an atomic condition from which zero-ness of an object follows: on edge `zero_label` the object is the identity/zero,
    on edge `nonzero_label` it is not (either may be None when the edge implies nothing)"""
    def __init__(self, node, zero_label, nonzero_label):
        self.node, self.id, self.zero_label, self.nonzero_label = node, node.id, zero_label, nonzero_label


def _implied(e, value, out):
    """atoms whose truth value follows from expression e having `value`"""
    e = strip(e)
    if not isinstance(e, dict):
        return
    if e.get('k') == 'un' and e.get('op') == '!':
        _implied(e['e'], not value, out)
    elif e.get('k') == 'bin' and e.get('op') == '&&':
        if value:
            _implied(e['lhs'], True, out)
            _implied(e['rhs'], True, out)
    elif e.get('k') == 'bin' and e.get('op') == '||':
        if not value:
            _implied(e['lhs'], False, out)
            _implied(e['rhs'], False, out)
    else:
        o = pr.is_zero_test(e)
        if o is not None:
            out.append((o, value))


def zero_conds(cfg):
    """{object name: [ZCond,...]} - atomic zero tests, and tests of boolean locals assigned exactly once from a
    combination of zero tests (e.g. `bool skip = a.is_zero() || b.is_zero(); if (!skip) ...`)"""
    out = {}
    fn = cfg.fn
    single = {}
    writes = {}
    for x in walk(fn['body']):
        if x.get('k') == 'decl':
            for v in x['vars']:
                if (v.get('t') or {}).get('k') == 'bool' and v.get('init') is not None and v.get('id') is not None:
                    single[v['id']] = v['init']
        if x.get('k') == 'assign' and strip(x['lhs']).get('k') == 'ref':
            writes[strip(x['lhs']).get('id')] = writes.get(strip(x['lhs']).get('id'), 0) + 1
    for n in cfg.cond_nodes():
        o = pr.is_zero_test(n.ast)
        if o is not None:
            out.setdefault(o, []).append(ZCond(n, True, False))
            continue
        e = strip(n.ast)
        if e.get('k') == 'ref' and e.get('rk') == 'local' and e.get('id') in single and not writes.get(e['id']):
            for lab in (True, False):
                atoms = []
                _implied(single[e['id']], lab, atoms)
                for (obj, val) in atoms:
                    out.setdefault(obj, []).append(ZCond(n, lab if val else None, lab if not val else None))
    return out


def guarded_by_false(cfg, conds, target):
    """target is reachable only through an edge on which the object is known to be non-zero"""
    return any(c.nonzero_label is not None and cfg.must_pass_edge(c.id, c.nonzero_label, target) for c in conds)


def on_zero_edge(cfg, conds, target):
    """target is reachable only through an edge on which the object is known to be zero"""
    return any(c.zero_label is not None and cfg.must_pass_edge(c.id, c.zero_label, target) for c in conds)


# ---------------------------------------------------------------- G1 (C01, C08)
def g1_miller_loop(ctx, cfg_name, prog, rule='R-GUARD/G1'):
    fs = [f for f in pr.functions_named(prog, NS + 'miller_loop') if len(f['params']) == 5]
    ctx.require(len(fs) == 1, 'miller_loop(Fq12&, AffinePair*, size_t, PreparedPair*, size_t) not found')
    f = fs[0]
    g = CFG(f)
    zc = zero_conds(g)
    steps = ('ell', 'miller_doubling_step', 'miller_addition_step')
    sites = 0
    init_nodes = []
    for n in g.stmt_nodes():
        for c in pr.calls(n.ast):
            if c.get('name') == 'copy' and c.get('this') is not None and pr.canon(c['this']).startswith('P:') and \
               any(pr.canon(a).startswith('G:') and pr.canon(a).endswith('::one') for a in c['args']):
                init_nodes.append(n)
    ctx.ob(rule, len(init_nodes) == 1, 'G1|init', loc_str(f),
           'miller_loop must initialise the accumulator with Fq12::one exactly once before the pair loops (empty list => 1)',
           cfg=cfg_name)
    for n in g.stmt_nodes():
        for c in pr.calls(n.ast):
            if c.get('name') not in steps:
                continue
            sites += 1
            objs = pr.arg_objects(c)
            roots = set(pr.root_local(o) for o in objs if pr.root_local(o).startswith('L'))
            # the pair object: the local every pair-derived argument hangs off
            pair_roots = [r for r in roots if any(o.startswith(r + '.g1') or o.startswith(r + '.g2') or o.startswith(r + '.r')
                                                  or o.startswith(r + '.coeff') for o in objs)]
            ok = len(pair_roots) == 1
            why = ''
            if not ok:
                why = 'cannot identify the pair object feeding %s (%s)' % (c['name'], objs)
            else:
                p = pair_roots[0]
                for member in ('g1', 'g2'):
                    conds = zc.get('%s.%s' % (p, member), [])
                    if not conds or not guarded_by_false(g, conds, n.id):
                        ok = False
                        why = 'call to %s is not control-dependent on !%s.%s->is_zero() (a pair with an infinite member must ' \
                              'contribute nothing: with z=0 the step formulas yield a line value != 1)' % (c['name'], 'pair', member)
                        break
                if ok and init_nodes:
                    if not g.must_pass_node(init_nodes[0].id, n.id):
                        ok = False
                        why = 'accumulator initialisation does not precede this step'
            ctx.ob(rule, ok, 'G1|%s|%d' % (c['name'], sites), loc_str(c), 'miller_loop: ' + why, cfg=cfg_name,
                   sample=dict(config=cfg_name, call=c['name'], site=loc_str(c), pair_args=objs))
    # today's tree has 9 call sites (the last doubling is written out after the loop); a loop that absorbs it has 6: tangent + line and
    # chord + line for plain pairs, two stored-line evaluations for prepared pairs.  Below 5 the extractor is blind.
    ctx.floor('%s step call sites[%s]' % (rule, cfg_name), sites, 5)


# ---------------------------------------------------------------- G4/G5 (C05)
ARITH = ('square', 'multiply', 'subtract', 'add', 'multiply2', 'negate', 'inverse', 'multiply_by_nonresidue')


def g4_projective_add(ctx, cfg_name, prog, rule='R-GUARD/G4'):
    fs = pr.functions_named(prog, NS + 'Projective::add')
    ctx.floor('%s Projective::add instantiations[%s]' % (rule, cfg_name), len(fs), 4)
    for f in fs:
        g = CFG(f)
        zc = zero_conds(g)
        a, b = f['params'][0]['name'], f['params'][1]['name']
        pa, pb = 'P:' + a, 'P:' + b
        tag = f['qn'].split('::Projective<')[-1][:40] + '|' + ('affine' if 'Affine<' in f['params'][1]['t']['s'] else 'projective')
        site = loc_str(f)
        # general-case nodes: arithmetic on this->x/y/z
        gen = []
        exits = {'copy_a': [], 'lift_b': [], 'double_a': []}
        lift_const_z = []     # lifting an affine b as (b.x, b.y, 1) forgets b.infinity
        for n in g.stmt_nodes():
            for c in pr.calls(n.ast):
                th = pr.canon(c['this']) if c.get('this') is not None else ''
                args = [pr.norm_obj(pr.canon(x)) for x in c.get('args', [])]
                if th == 'this' and c['name'] == 'copy' and args == [pa]:
                    exits['copy_a'].append(n)
                elif th == 'this' and c['name'] == 'copy' and args == [pb]:
                    exits['lift_b'].append(n)
                elif th.startswith('this->') and c['name'] == 'copy' and args and (args[0].startswith(pb + '.') or args[0].endswith('::one')):
                    exits['lift_b'].append(n)
                    if args[0].endswith('::one'):
                        lift_const_z.append(n)
                elif th == 'this' and c['name'] == 'from_affine' and args == [pb]:
                    # lifting b through the conversion routine (its own identity handling is G5's subject)
                    exits['lift_b'].append(n)
                elif th == 'this' and c['name'] == 'multiply2' and args == [pa]:
                    exits['double_a'].append(n)
                elif th.startswith('this->') and c['name'] in ARITH:
                    gen.append(n)
        ctx.require(gen, '%s: no general-case arithmetic found' % f['qn'])
        eq_conds = [n for n in g.cond_nodes() if strip(n.ast).get('k') == 'call' and strip(n.ast).get('name') == 'equal']
        ok = True
        why = []
        # (i) b zero -> copy a
        cb = zc.get(pb, [])
        if not (cb and exits['copy_a'] and all(on_zero_edge(g, cb, e.id) for e in exits['copy_a'])):
            ok = False
            why.append('no `%s.is_zero()` => copy of %s exit' % (b, a))
        ca = zc.get(pa, [])
        if not (ca and exits['lift_b'] and all(on_zero_edge(g, ca, e.id) for e in exits['lift_b'])):
            ok = False
            why.append('no `%s.is_zero()` => copy/lift of %s exit' % (a, b))
        for n in lift_const_z:
            if not (cb and guarded_by_false(g, cb, n.id)):
                ok = False
                why.append('the exit that lifts %s as (x, y, 1) at %s is reachable with %s at infinity: identity + affine identity would '
                           'become the finite point (%s.x, %s.y, 1)' % (b, loc_str(n.ast), b, b, b))
        if not (len(eq_conds) >= 2 and exits['double_a'] and
                all(all(g.must_pass_edge(c.id, True, e.id) for c in eq_conds[:2]) for e in exits['double_a'])):
            ok = False
            why.append('no `equal(x cross-products) && equal(y cross-products)` => doubling exit')
        for n in gen:
            if cb and not guarded_by_false(g, cb, n.id):
                ok = False
                why.append('general formula at %s reachable with %s at infinity (z3 becomes 0: result would be the identity)' % (loc_str(n.ast), b))
                break
            if ca and not guarded_by_false(g, ca, n.id):
                ok = False
                why.append('general formula at %s reachable with %s at infinity' % (loc_str(n.ast), a))
                break
            if len(eq_conds) >= 2:
                rem = []
                for c in eq_conds[:2]:
                    rem += [(c.id, y, lab) for (y, lab) in g.nodes[c.id].succ if lab is False]
                if n.id in g.reachable(removed_edges=rem):
                    ok = False
                    why.append('general formula at %s reachable for equal points (H = 0: the sum P+P would come out as the identity)' % loc_str(n.ast))
                    break
        # exits must return before the general formula
        for kind, lst in exits.items():
            for e in lst:
                reach = g.reachable(start=e.id)
                if any(n.id in reach for n in gen):
                    ok = False
                    why.append('special-case exit `%s` at %s falls through into the general formula' % (kind, loc_str(e.ast)))
        ctx.ob(rule, ok, 'G4|' + tag, site, '%s: %s' % (f['qn'], '; '.join(why)), cfg=cfg_name,
               sample=dict(config=cfg_name, function=f['qn'][:120], general_nodes=len(gen),
                           exits={k: len(v) for k, v in exits.items()}, equal_tests=len(eq_conds)))


def g5_conversions(ctx, cfg_name, prog, rule='R-GUARD/G5'):
    fs = pr.functions_named(prog, NS + 'Affine::from_projective')
    ctx.floor('%s Affine::from_projective instantiations[%s]' % (rule, cfg_name), len(fs), 2)
    for f in fs:
        g = CFG(f)
        zc = zero_conds(g)
        pa = 'P:' + f['params'][0]['name']
        inv = [n for n in g.stmt_nodes() if any(c['name'] == 'inverse' for c in pr.calls(n.ast))]
        zero_exit = [n for n in g.stmt_nodes() if any(c['name'] == 'copy' and c.get('this') is not None and pr.canon(c['this']) == 'this'
                                                      and any('::zero' in pr.canon(x) for x in c['args']) for c in pr.calls(n.ast))]
        conds = zc.get(pa, [])
        ok = bool(inv) and bool(conds) and all(guarded_by_false(g, conds, n.id) for n in inv) and \
            bool(zero_exit) and all(on_zero_edge(g, conds, e.id) for e in zero_exit) and \
            all(not any(n.id in g.reachable(start=e.id) for n in inv) for e in zero_exit)
        ctx.ob(rule, ok, 'G5|from_projective|' + f['qn'].split('Affine<')[-1][:30], loc_str(f),
               '%s: the z-inversion must be on the non-identity edge and the identity must map to Affine::zero '
               '(otherwise the identity becomes the finite point (0,0))' % f['qn'], cfg=cfg_name,
               sample=dict(config=cfg_name, function=f['qn'][:100], inverse_sites=len(inv)))
    fs = pr.functions_named(prog, NS + 'Projective::from_affine')
    ctx.floor('%s Projective::from_affine instantiations[%s]' % (rule, cfg_name), len(fs), 2)
    for f in fs:
        g = CFG(f)
        zc = zero_conds(g)
        pa = 'P:' + f['params'][0]['name']
        conds = zc.get(pa, [])
        lift = [n for n in g.stmt_nodes() if any(c['name'] == 'copy' and c.get('this') is not None and pr.canon(c['this']).startswith('this->')
                                                 for c in pr.calls(n.ast))]
        zero_exit = [n for n in g.stmt_nodes() if any(c['name'] == 'copy' and c.get('this') is not None and pr.canon(c['this']) == 'this'
                                                      and any('::zero' in pr.canon(x) for x in c['args']) for c in pr.calls(n.ast))]
        ok = bool(conds) and bool(lift) and all(guarded_by_false(g, conds, n.id) for n in lift) and bool(zero_exit) and \
            all(on_zero_edge(g, conds, e.id) for e in zero_exit)
        ctx.ob(rule, ok, 'G5|from_affine|' + f['qn'].split('Projective<')[-1][:30], loc_str(f),
               '%s: an affine point at infinity must become Projective::zero (z = 0), a finite one (x, y, 1)' % f['qn'],
               cfg=cfg_name, sample=dict(config=cfg_name, function=f['qn'][:100]))


# ---------------------------------------------------------------- G8 (C05): equality is representation independent
def _coord_taint(f, pname):
    """locals whose value derives from the x / y coordinate of parameter pname (flow-insensitive fixpoint over calls and
    initialisers)"""
    root = 'P:' + pname
    tainted = set()

    def mentions(ast):
        for x in walk(ast):
            if x.get('k') == 'member' and x.get('name') in ('x', 'y') and pr.norm_obj(pr.canon(x['base'])) == root:
                return True
            if x.get('k') == 'ref' and x.get('rk') == 'local' and x.get('id') in tainted:
                return True
        return False
    changed = True
    while changed:
        changed = False
        for x in walk(f['body']):
            tgt = None
            src = None
            if x.get('k') == 'call' and x.get('this') is not None:
                t = strip(x['this'])
                while t.get('k') == 'cast' and t.get('ck') in ('DerivedToBase', 'UncheckedDerivedToBase'):
                    t = strip(t['e'])
                if t.get('k') == 'ref' and t.get('rk') == 'local':
                    tgt, src = t['id'], x.get('args', [])
            elif x.get('k') == 'decl':
                for v in x['vars']:
                    if v.get('init') is not None and v.get('id') not in tainted and mentions(v['init']):
                        tainted.add(v['id'])
                        changed = True
            elif x.get('k') == 'assign':
                t = strip(x['lhs'])
                if t.get('k') == 'ref' and t.get('rk') == 'local':
                    tgt, src = t['id'], [x['rhs']]
            if tgt is not None and tgt not in tainted and any(mentions(a) for a in src):
                tainted.add(tgt)
                changed = True
    return tainted, mentions


def g8_equality(ctx, cfg_name, prog, rule='R-GUARD/G8'):
    """The identity has many representations (x, y, 0): the verdict of Projective::equal may depend on an operand's x / y only
    where that operand is known not to be the identity.  Necessity: (1,1,0) and (4,8,0) are both the identity (e.g. the result
    of P + (-P) is (r^2, -r^3, 0), not (0,1,0)); a coordinate comparison outside the guards calls them different."""
    fs = pr.functions_named(prog, NS + 'Projective::equal')
    ctx.floor('%s Projective::equal instantiations[%s]' % (rule, cfg_name), len(fs), 2)
    for f in fs:
        g = CFG(f)
        zc = zero_conds(g)
        tag = f['qn'].split('Projective<')[-1][:24]
        for p in f['params'][:2]:
            name = 'P:' + p['name']
            tainted, mentions = _coord_taint(f, p['name'])
            conds = zc.get(name, [])
            decisions = [n for n in g.cond_nodes() if mentions(n.ast)] + \
                        [n for n in g.stmt_nodes() if n.ast.get('k') == 'return' and mentions(n.ast)]
            bad = [n for n in decisions if not guarded_by_false(g, conds, n.id)]
            ctx.ob(rule, bool(decisions) and not bad, 'G8|equal|%s|%s' % (tag, p['name']), loc_str(bad[0].ast) if bad else loc_str(f),
                   '%s: the verdict depends on the x/y coordinates of `%s` at %s without `%s` being known non-identity there (z != 0): two '
                   'representations (x, y, 0), (x\', y\', 0) of the identity would compare unequal' %
                   (f['qn'], p['name'], loc_str(bad[0].ast) if bad else '?', p['name']), cfg=cfg_name,
                   sample=dict(config=cfg_name, function=f['qn'][:100], operand=p['name'], coordinate_decisions=len(decisions)))
    # the verdict when an operand IS the identity: equal exactly when both are
    for f in pr.functions_named(prog, NS + 'Projective::equal'):
        g = CFG(f)
        tag = f['qn'].split('Projective<')[-1][:24]
        pn = [q['name'] for q in f['params'][:2]]
        inits = {}
        for x in walk(f['body']):
            if x.get('k') == 'decl':
                for v in x['vars']:
                    if v.get('init') is not None and (v.get('t') or {}).get('k') == 'bool':
                        inits[v['id']] = v['init']

        def bev(e, env, depth=0):
            e = strip(e)
            while isinstance(e, dict) and e.get('k') in ('cast', 'load', 'paren'):
                e = strip(e['e'])
            if not isinstance(e, dict) or depth > 8:
                return None
            o = pr.is_zero_test(e)
            if o is not None and o in env:
                return env[o]
            if e.get('k') == 'lit' and 'bool' in e:
                return bool(e['bool'])
            if 'cv' in e and e.get('k') != 'ref':
                return bool(int(e['cv']))
            if e.get('k') == 'ref' and e.get('rk') == 'local' and e.get('id') in inits and not ranges_writes(f['body'], e['id']):
                return bev(inits[e['id']], env, depth + 1)
            if e.get('k') == 'un' and e.get('op') == '!':
                v = bev(e['e'], env, depth + 1)
                return None if v is None else (not v)
            if e.get('k') == 'bin' and e.get('op') in ('&&', '||'):
                a = bev(e['lhs'], env, depth + 1)
                if e['op'] == '&&' and a is False:
                    return False
                if e['op'] == '||' and a is True:
                    return True
                b = bev(e['rhs'], env, depth + 1)
                if a is None or b is None:
                    return None
                return (a and b) if e['op'] == '&&' else (a or b)
            if e.get('k') == 'bin' and e.get('op') in ('==', '!='):
                a, b = bev(e['lhs'], env, depth + 1), bev(e['rhs'], env, depth + 1)
                if a is None or b is None:
                    return None
                return (a == b) if e['op'] == '==' else (a != b)
            return None
        bad = None
        decided = 0
        for (az, bz) in ((True, False), (False, True), (True, True)):
            env = {'P:' + pn[0]: az, 'P:' + pn[1]: bz}
            cur = g.entry.id
            verdict = None
            steps = 0
            while cur is not None and steps < 400:
                steps += 1
                n = g.nodes[cur]
                if n.kind == 'stmt' and n.ast is not None and n.ast.get('k') == 'return':
                    verdict = bev(n.ast.get('e'), env) if n.ast.get('e') is not None else None
                    break
                if not n.succ:
                    break
                if n.kind == 'cond':
                    v = bev(n.ast, env)
                    if v is None:
                        cur = None      # a coordinate comparison with an identity operand: the first part of the rule reports it
                        break
                    nxt = [y for (y, lab) in n.succ if lab == v]
                    cur = nxt[0] if nxt else None
                else:
                    cur = n.succ[0][0]
            if verdict is None:
                continue
            decided += 1
            if verdict != (az and bz) and bad is None:
                bad = (az, bz, verdict)
        ctx.ob(rule, bad is None, 'G8|equal-identity|%s' % tag, loc_str(f),
               '%s: with %s %s the identity and %s %s the identity the verdict is %s (the identity equals only the identity)' %
               ((f['qn'], pn[0], 'being' if bad[0] else 'not', pn[1], 'being' if bad[1] else 'not', bad[2]) if bad else (f['qn'], '', '', '', '', '')),
               cfg=cfg_name, sample=dict(config=cfg_name, function=f['qn'][:100], identity_cases_decided=decided))
    # Affine::equal: truth table of the returned expression over (a.infinity, b.infinity, x equal, y equal)
    fs = pr.functions_named(prog, NS + 'Affine::equal')
    ctx.floor('%s Affine::equal instantiations[%s]' % (rule, cfg_name), len(fs), 2)
    for f in fs:
        rets = [x for x in walk(f['body']) if x.get('k') == 'return']
        inits = {}
        for x in walk(f['body']):
            if x.get('k') == 'decl':
                for v in x['vars']:
                    if v.get('init') is not None:
                        inits[v['id']] = v['init']
        pn = [q['name'] for q in f['params'][:2]]

        def ev(e, env):
            e = strip(e)
            if not isinstance(e, dict):
                return None
            k = e.get('k')
            if 'cv' in e and k != 'ref':
                return int(e['cv'])
            if 'bool' in e and k not in ('ref', 'member'):
                return int(bool(e['bool']))
            if k == 'ref' and e.get('rk') == 'local' and e.get('id') in inits:
                return ev(inits[e['id']], env)
            if k == 'member' and e.get('name') == 'infinity':
                b = pr.norm_obj(pr.canon(e['base']))
                return env.get('inf:' + b)
            if k == 'call' and e.get('name') == 'is_zero' and e.get('this') is not None:
                return env.get('inf:' + pr.norm_obj(pr.canon(e['this'])))
            if k == 'call' and e.get('name') == 'equal' and len(e.get('args', [])) == 2:
                a0, a1 = [pr.norm_obj(pr.canon(a)) for a in e['args']]
                for c in ('x', 'y'):
                    if {a0, a1} == {'P:%s.%s' % (pn[0], c), 'P:%s.%s' % (pn[1], c)}:
                        return env[c]
                return None
            if k == 'un' and e.get('op') == '!':
                v = ev(e['e'], env)
                return None if v is None else int(not v)
            if k == 'bin':
                a = ev(e['lhs'], env)
                if e['op'] == '&&':
                    if a == 0:
                        return 0
                    b = ev(e['rhs'], env)
                    return None if (a is None or b is None) else int(bool(a) and bool(b))
                if e['op'] == '||':
                    if a:
                        return 1
                    b = ev(e['rhs'], env)
                    return None if (a is None or b is None) else int(bool(a) or bool(b))
                b = ev(e['rhs'], env)
                if a is None or b is None:
                    return None
                return {'==': int(a == b), '!=': int(a != b), '&': a & b, '|': a | b, '^': a ^ b}.get(e['op'])
            if k == 'cond':
                c = ev(e['c'], env)
                if c is None:
                    return None
                return ev(e['then'] if c else e['else'], env)
            return None
        ok = len(rets) == 1 and rets[0].get('e') is not None
        bad_row = None
        if ok:
            for ai in (0, 1):
                for bi in (0, 1):
                    for xe in (0, 1):
                        for ye in (0, 1):
                            env = {'inf:P:' + pn[0]: ai, 'inf:P:' + pn[1]: bi, 'x': xe, 'y': ye}
                            got = ev(rets[0]['e'], env)
                            want = int(ai == bi and (ai == 1 or (xe and ye)))
                            if got != want and bad_row is None:
                                bad_row = (ai, bi, xe, ye, got, want)
            ok = bad_row is None
        ctx.ob(rule, ok, 'G8|affine-equal|' + f['qn'].split('Affine<')[-1][:24], loc_str(f),
               '%s: verdict table over (a.infinity, b.infinity, x equal, y equal) differs from "both infinite, or both finite with equal '
               'coordinates" at %s (got, want = last two; None = not a single-return boolean expression the rule can evaluate)' %
               (f['qn'], bad_row), cfg=cfg_name, sample=dict(config=cfg_name, function=f['qn'][:100], rows=16))


# ---------------------------------------------------------------- G2/G3/G7 (C02)
def g237_field_zero_cases(ctx, cfg_name, prog, rule='R-GUARD'):
    # G2: fp_inverse
    fs = pr.functions_named(prog, 'embedded_pairing::core::fp_inverse')
    ctx.floor('%s/G2 fp_inverse instantiations[%s]' % (rule, cfg_name), len(fs), 1)
    for f in fs:
        g = CFG(f)
        zc = zero_conds(g)
        pa = 'P:' + f['params'][1]['name']
        conds = zc.get(pa, [])
        loops = [h for (h, s) in g.loops]
        ok = bool(conds) and bool(loops) and all(guarded_by_false(g, conds, h) for h in loops)
        ctx.ob(rule + '/G2', ok, 'G2|fp_inverse|' + f['qn'][-40:], loc_str(f),
               '%s: the binary-Euclid loop does not terminate for a = 0; it must be on the non-zero edge of `%s.is_zero()`' % (
                   f['qn'], f['params'][1]['name']), cfg=cfg_name, sample=dict(config=cfg_name, function=f['qn'][:100], loops=len(loops)))
        # and the zero edge produces zero
        setz = [n for n in g.stmt_nodes() if any(c['name'] == 'set_zero' for c in pr.calls(n.ast))]
        ok2 = bool(conds) and any(on_zero_edge(g, conds, n.id) for n in setz)
        ctx.ob(rule + '/G2', ok2, 'G2z|fp_inverse|' + f['qn'][-40:], loc_str(f),
               '%s: inverting zero must yield zero (set_zero on the zero edge)' % f['qn'], cfg=cfg_name)
    # G3: FpBase::negate
    fs = pr.functions_named(prog, 'embedded_pairing::core::FpBase::negate')
    ctx.floor('%s/G3 FpBase::negate instantiations[%s]' % (rule, cfg_name), len(fs), 2)
    for f in fs:
        g = CFG(f)
        zc = zero_conds(g)
        pa = 'P:' + f['params'][0]['name']
        conds = [c for o, cs in zc.items() if o.startswith(pa) for c in cs]
        subs = [n for n in g.stmt_nodes() if any(c['name'] == 'subtract' and pr.norm_obj(pr.canon(c['args'][0])).startswith('P:' + f['params'][1]['name'])
                                                 for c in pr.calls(n.ast) if c.get('args'))]
        ok = bool(conds) and bool(subs) and all(guarded_by_false(g, conds, n.id) for n in subs)
        ctx.ob(rule + '/G3', ok, 'G3|negate|' + f['qn'][-20:], loc_str(f),
               '%s: p - a must be computed only for a != 0 (else the result is p, a non-canonical zero)' % f['qn'], cfg=cfg_name,
               sample=dict(config=cfg_name, function=f['qn'], subtract_sites=len(subs)))
    # G7: Fr::square_root
    fs = pr.functions_named(prog, NS + 'Fr::square_root')
    ctx.floor('%s/G7 Fr::square_root[%s]' % (rule, cfg_name), len(fs), 1)
    for f in fs:
        g = CFG(f)
        zc = zero_conds(g)
        pa = 'P:' + f['params'][0]['name']
        conds = zc.get(pa, [])
        loops = [h for (h, s) in g.loops]
        ok = bool(conds) and bool(loops) and all(guarded_by_false(g, conds, h) for h in loops)
        ctx.ob(rule + '/G7', ok, 'G7|Fr::square_root', loc_str(f),
               'Fr::square_root: for a = 0 the Tonelli-Shanks loop `while (!t.is_one())` never ends (t stays 0); it must be '
               'on the non-zero edge of a.is_zero()', cfg=cfg_name, sample=dict(config=cfg_name, loops=len(loops)))


# ---------------------------------------------------------------- R-CANON (C02): conditional final subtraction / add-back
def _walk_cfg(g, start, oracle):
    """follow the CFG from `start` with `oracle(cond node) -> bool`; returns the list of visited node ids (functions here are loop-free)"""
    seen = []
    cur = start
    steps = 0
    while cur is not None and steps < 500:
        steps += 1
        seen.append(cur)
        n = g.nodes[cur]
        if not n.succ:
            break
        if n.kind == 'cond':
            v = oracle(n)
            nxt = [y for (y, lab) in n.succ if lab == v]
            cur = nxt[0] if nxt else None
        else:
            cur = n.succ[0][0]
    return seen


def canon_tables(ctx, cfg_name, prog, rule='R-CANON'):
    from .reject import cond_with_call_value
    specs = [
        # (function, name of the call that must be conditional, arg role check, expected predicate over (cmp, flag))
        ('embedded_pairing::core::FpBase::add', 'subtract', lambda cmp, fl: cmp >= 0 or fl),
        ('embedded_pairing::core::FpBase::multiply2', 'subtract', lambda cmp, fl: cmp >= 0 or fl),
        ('embedded_pairing::core::FpBase::subtract', 'add', lambda cmp, fl: fl),
        ('embedded_pairing::core::FpBase::reduce', 'subtract', lambda cmp, fl: cmp >= 0),
    ]
    n = 0
    for qn, fix, want in specs:
        fs = [f for f in pr.functions_named(prog, qn) if not any(c.get('externC') and 'body' not in (prog.callee(c, f) or {'body': 1})
                                                                 for c in []) ]
        fs = [f for f in fs if not all((prog.callee(c, f) or {}).get('externC') for c in pr.calls(f['body']) or [{}])]
        for f in fs:
            # a helper of the same record that is not itself one of the decided operations is part of the operation that calls it
            decided = {q for q, _, _ in specs}
            g = CFG(f, inline_this=lambda cal, f=f: cal.get('parent') == f.get('parent') and strip_tmpl(cal.get('qn', '')) not in decided)
            pname = f['params'][-1]['name'] if qn.endswith('reduce') else [p['name'] for p in f['params'] if p['name'] == 'p'][0]
            fixes = [nd for nd in g.stmt_nodes() for c in pr.calls(nd.ast)
                     if c['name'] == fix and pr.canon(c['this']) == 'this->val' and pr.norm_obj(pr.canon(c['args'][-1])) == 'P:' + pname]
            if not fixes:
                ctx.ob(rule, False, 'canon|%s|missing' % f['qn'][-30:], loc_str(f),
                       '%s has no `%s(..., p)` correction step' % (f['qn'], fix), cfg=cfg_name)
                continue
            n += 1
            # boolean local flags (carry / borrow / shift_out)
            bad = []
            for cmpv in (-1, 0, 1):
                for flag in (0, 1):
                    def oracle(nd):
                        e = strip(nd.ast)
                        cs = [c for c in pr.calls(e) if c['name'] == 'compare']
                        if cs:
                            return bool(cond_with_call_value(e, cs[0], cmpv))
                        # flag test: a local (possibly compared with 0)
                        if e.get('k') == 'ref':
                            return bool(flag)
                        if e.get('k') == 'bin' and e.get('op') in ('!=', '==') and 'cv' in strip(e['rhs']):
                            v = (flag != int(strip(e['rhs'])['cv'])) if e['op'] == '!=' else (flag == int(strip(e['rhs'])['cv']))
                            return bool(v)
                        raise ValueError('unrecognised condition at %s' % loc_str(nd.ast))
                    try:
                        visited = _walk_cfg(g, g.entry.id, oracle)
                    except ValueError as ex:
                        bad.append(str(ex))
                        continue
                    reached = any(fx.id in visited for fx in fixes)
                    if reached != bool(want(cmpv, flag)):
                        bad.append('compare=%d, carry/borrow=%d: correction %s' % (cmpv, flag, 'applied' if reached else 'skipped'))
            ctx.ob(rule, not bad, 'canon|%s' % f['qn'].replace('embedded_pairing::core::', ''), loc_str(f),
                   '%s: the `%s p` correction must be applied exactly when the intermediate result is >= p (or the carry/borrow is set), '
                   'else results are not the canonical representative: %s' % (f['qn'], fix, '; '.join(bad[:3])), cfg=cfg_name,
                   sample=dict(config=cfg_name, function=f['qn'], correction=fix, cases_checked=6))
    ctx.floor('%s correction steps[%s]' % (rule, cfg_name), n, 4)


# ---------------------------------------------------------------- R-DEFOUT: accumulators are written on every path
def accumulation_functions(prog):
    """functions that fold into an output inside a loop: X.op(X, Y) with X the output slot (this / non-const reference)"""
    out = []
    for f in prog.functions.values():
        if 'body' not in f or not f['l'][0].startswith(('src/bls12_381', 'include/bls12_381', 'include/core')):
            continue
        outs = set()
        if f.get('method') and not f.get('static_method') and not f.get('const_method'):
            outs.add('this')
            outs.add('*this')
        for p in f['params']:
            if p.get('indirect') == 'ref' and not p.get('pointee_const') and (p['t'].get('pointee') or {}).get('k') in ('record', 'union'):
                outs.add('P:' + p['name'])
        acc = None
        for n in walk(f['body']):
            if n.get('k') in ('for', 'while', 'do'):
                for c in pr.calls(n['body']):
                    if c.get('name') in ('add', 'multiply') and c.get('this') is not None and c.get('args'):
                        th = pr.canon(c['this'])
                        if th in outs and pr.canon(c['args'][0]) in (th, '*' + th, th.lstrip('*')):
                            acc = 'this' if th in ('this', '*this') else th
        if acc:
            out.append((f, acc))
    return out


def curve_result_methods(prog):
    """out-of-place operations of the curve layer: non-const, non-static void member functions of the point classes that take at least
    one argument (the result is *this)"""
    out = []
    for f in prog.functions.values():
        if 'body' not in f or not f.get('method') or f.get('static_method') or f.get('const_method'):
            continue
        if not f['l'][0].startswith(('include/bls12_381/curve.hpp', 'src/bls12_381/curve')):
            continue
        if not f.get('params') or (f.get('ret') or {}).get('k') not in (None, 'void'):
            continue
        if not any((p['t'].get('pointee') or {}).get('k') in ('record', 'union') for p in f['params']):
            continue
        # the group operations of the generic point classes (Projective<F>, Affine<F>): add, multiply2, negate, conversions, copy
        par = f.get('parent') or f['qn'].rsplit('::', 1)[0]
        if not (par.startswith(NS + 'Projective<') or par.startswith(NS + 'Affine<')):
            continue
        out.append((f, 'this'))
    return sorted(out, key=lambda fa: fa[0]['qn'])


def rule_defout(ctx, cfg_name, prog, name_filter=None, rule='R-DEFOUT', functions=None, what=None):
    n = 0
    for (f, acc) in (accumulation_functions(prog) if functions is None else functions):
        if name_filter and not name_filter(f):
            continue
        n += 1
        g = CFG(f)
        accs = {acc, '*' + acc} if acc != 'this' else {'this', '*this'}
        # tracked boolean locals: assigned only literals
        bools = {}
        for x in walk(f['body']):
            if x.get('k') == 'decl':
                for v in x['vars']:
                    if (v.get('t') or {}).get('k') == 'bool' and v.get('id') is not None:
                        bools[v['id']] = True
        for x in walk(f['body']):
            if x.get('k') == 'assign':
                l = strip(x['lhs'])
                if l.get('k') == 'ref' and l.get('id') in bools and strip(x['rhs']).get('bool') is None:
                    bools[l['id']] = False
            if x.get('k') == 'decl':
                for v in x['vars']:
                    if v.get('id') in bools and v.get('init') is not None and strip(v['init']).get('bool') is None:
                        bools[v['id']] = False
        tracked = sorted(k for k, v in bools.items() if v)

        def writes(node):
            for x in walk(node.ast):
                if functions is not None and x.get('k') == 'call' and x.get('this') is not None and \
                   pr.norm_obj(pr.canon(x['this'])).startswith('this.') and not (prog.callee(x, f) or {}).get('const_method'):
                    return True             # a coordinate of the result is written
                if functions is not None and x.get('k') == 'call' and x.get('name') in ('memcpy', 'memmove', 'memset') and x.get('args') and \
                   pr.norm_obj(pr.canon(x['args'][0])).lstrip('&').split('.')[0] == 'this':
                    return True             # the result object is overwritten as a whole
                if x.get('k') == 'call' and x.get('this') is not None and pr.canon(x['this']) in accs and \
                   not (prog.callee(x, f) or {}).get('const_method'):
                    return True
                if x.get('k') == 'assign' and pr.canon(x['lhs']).split('.')[0].split('->')[0] in accs:
                    return True
                if x.get('k') == 'call' and (prog.callee(x, f) is not None) and any(
                        pr.canon(a) in accs and i < len(prog.callee(x, f)['params']) and not prog.callee(x, f)['params'][i].get('pointee_const')
                        and prog.callee(x, f)['params'][i].get('indirect') for i, a in enumerate(x.get('args', []))):
                    return True
            return False

        start = (g.entry.id, tuple([None] * len(tracked)), False)
        seen = {start}
        work = [start]
        bad = None
        while work:
            (nid, env, written) = work.pop()
            nd = g.nodes[nid]
            if nid == g.exit.id:
                if not written:
                    bad = env
                continue
            env2 = list(env)
            w2 = written
            if nd.kind == 'stmt' and nd.ast is not None:
                if writes(nd):
                    w2 = True
                for x in walk(nd.ast):
                    if x.get('k') == 'assign' and strip(x['lhs']).get('id') in tracked and strip(x['rhs']).get('bool') is not None:
                        env2[tracked.index(strip(x['lhs'])['id'])] = strip(x['rhs'])['bool']
                    if x.get('k') == 'decl':
                        for v in x['vars']:
                            if v.get('id') in tracked and v.get('init') is not None:
                                env2[tracked.index(v['id'])] = strip(v['init']).get('bool')
            elif nd.kind == 'cond' and writes(nd):
                w2 = True
            for (y, lab) in nd.succ:
                w3 = w2
                if nd.kind == 'cond' and lab is not None:
                    e = strip(nd.ast)
                    if e.get('k') == 'ref' and e.get('id') in tracked:
                        v = env2[tracked.index(e['id'])]
                        if v is not None and v != lab:
                            continue
                    if functions is not None and e.get('k') == 'bin' and e.get('op') in ('==', '!='):
                        sides = {pr.canon(e['lhs']), pr.canon(e['rhs'])}
                        if 'this' in sides and any(x.startswith('&P:') for x in sides) and lab == (e['op'] == '=='):
                            w3 = True       # the result IS the argument on this edge: nothing to write
                st = (y, tuple(env2), w3)
                if st not in seen:
                    seen.add(st)
                    work.append(st)
        ctx.ob(rule, bad is None, 'defout|%s' % (strip_tmpl(f['qn']) if functions is None else f['qn'][:110]), loc_str(f),
               (what or '%s accumulates into %s inside a digit loop but there is a path to the end on which %s is never written (all digits zero / '
                'no iteration): the caller gets stale contents instead of the identity') % (f['qn'], acc, acc), cfg=cfg_name,
               sample=dict(config=cfg_name, function=f['qn'][:100], accumulator=acc, states=len(seen)))
    return n
