"""R-REJECT: a sampling loop's only exit is the "in range" edge of a comparison with the right modulus (C07, C10)."""
from .facts import walk, strip, loc_str, strip_tmpl
from . import pathrules as pr
from . import consts, bls
from .marshal import ceval

NS = 'embedded_pairing::bls12_381::'


def global_int(prog, expr):
    """integer value of the constant object an expression designates (follows reference members like Fr::p_value)"""
    for x in walk(expr):
        if x.get('k') == 'ref' and x.get('rk') == 'global':
            g = prog.globals.get(x['g'])
            if g is None or 'value' not in g:
                # reference static member declared in a class template: resolve through its initializer
                if g is not None and 'init' in g:
                    return global_int(prog, g['init'])
                continue
            v = consts.decode(g['value'])
            if isinstance(v, tuple) and v[0] == 'lvalue':
                t = prog.globals.get(v[1])
                if t is not None and 'value' in t:
                    v = consts.decode(t['value'])
            v = consts.as_int(v)
            if isinstance(v, int):
                return v
    return None


def cond_with_call_value(cond, call, value):
    """evaluate the loop condition with the comparison call replaced by `value`"""
    def ev(e):
        if e is call:
            return value
        if not isinstance(e, dict):
            return None
        k = e.get('k')
        if k in ('load', 'cast'):
            inner = ev(e['e'])
            if k == 'cast' and inner is not None and (e.get('t') or {}).get('k') == 'bool':
                return 1 if inner else 0
            return inner
        if 'cv' in e:
            return int(e['cv'])
        if k == 'un':
            v = ev(e['e'])
            if v is None:
                return None
            return {'!': (0 if v else 1), '-': -v}.get(e['op'])
        if k == 'bin':
            a, b = ev(e['lhs']), ev(e['rhs'])
            if a is None or b is None:
                return None
            return {'==': int(a == b), '!=': int(a != b), '<': int(a < b), '<=': int(a <= b), '>': int(a > b), '>=': int(a >= b),
                    '&&': int(bool(a) and bool(b)), '||': int(bool(a) or bool(b))}.get(e['op'])
        return None
    return ev(cond)


def check_compare_loop(ctx, cfg, prog, f, loop, want_mod, what, key, sample_written_by=('random', 'multiply', 'add', 'icall')):
    """loop: a do/while node.  Continue exactly when compare(sample, MOD) in {0, 1}; no other exit."""
    site = loc_str(loop)
    body = loop['body']
    exits = [x for x in walk(body) if x.get('k') in ('break', 'return')]
    # break inside a nested loop belongs to that loop
    nested = [x for x in walk(body) if x.get('k') in ('for', 'while', 'do')]
    nested_exits = [y for n in nested for y in walk(n['body']) if y.get('k') == 'break']
    exits = [x for x in exits if not any(x is y for y in nested_exits)]
    cond = loop['c']
    cmps = [c for c in pr.calls(cond) if c['name'] == 'compare']
    ok = not exits and len(cmps) == 1
    why = 'the loop has an exit other than its condition' if exits else ('the condition is not a single comparison' if len(cmps) != 1 else '')
    if ok:
        c = cmps[0]
        table = {v: cond_with_call_value(cond, c, v) for v in (-1, 0, 1)}
        if any(r is None for r in table.values()):
            ok = False
            why = 'the loop condition depends on more than the comparison (e.g. a retry counter): the loop can exit with an out-of-range sample'
        elif not (table[-1] == 0 and table[0] == 1 and table[1] == 1):
            ok = False
            why = 'the loop continues for compare results %s (must continue exactly for 0 and 1, i.e. sample >= modulus)' % \
                  [v for v, r in table.items() if r]
        mod = global_int(prog, c['args'][1]) if len(c['args']) > 1 else None
        if ok and mod != want_mod:
            ok = False
            why = 'the comparison is against %s, not against %s' % (hex(mod) if mod is not None else pr.canon(c['args'][1]), what)
        sample = pr.norm_obj(pr.canon(c['args'][0]))
        if ok:
            written = False
            for x in walk(body):
                if x.get('k') == 'call' and x.get('this') is not None and pr.norm_obj(pr.canon(x['this'])) == sample and not (prog.callee(x, f) or {}).get('const_method'):
                    written = True
                if x.get('k') == 'icall' and any(sample in pr.norm_obj(pr.canon(a)) for a in x.get('args', [])):
                    written = True
            if not written:
                ok = False
                why = 'the compared object %s is not the one the loop body samples' % sample
    ctx.ob('R-REJECT', ok, key, site, '%s: rejection loop at %s: %s' % (f['qn'], site, why), cfg=cfg,
           sample=dict(config=cfg, function=f['qn'][:90], loop=site, modulus=what))
    return ok


def check_point_loop(ctx, cfg, prog, f, loop, key):
    """while(!X.get_point_from_x(x, ., true)): continue exactly when no point exists; the check flag is literally true"""
    cond = loop['c']
    calls = [c for c in pr.calls(cond) if c['name'] == 'get_point_from_x']
    ok = len(calls) == 1
    why = 'condition is not one get_point_from_x call'
    if ok:
        c = calls[0]
        table = {v: cond_with_call_value(cond, c, v) for v in (0, 1)}
        flag = ceval(c['args'][2], {}) if len(c['args']) > 2 else None
        exits = [x for x in walk(loop['body']) if x.get('k') in ('break', 'return')]
        if not (table[0] == 1 and table[1] == 0):
            ok, why = False, 'the loop does not continue exactly while get_point_from_x fails'
        elif flag != 1:
            ok, why = False, 'get_point_from_x is called without validation (checked != true): an x with no matching y is accepted'
        elif exits:
            ok, why = False, 'the loop has an exit other than its condition'
    ctx.ob('R-REJECT', ok, key, loc_str(loop), '%s: %s' % (f['qn'], why), cfg=cfg,
           sample=dict(config=cfg, function=f['qn'][:90], loop=loc_str(loop)))


def loops_of(f, kinds=('do', 'while')):
    out = []

    def rec(s, depth):
        if isinstance(s, dict):
            if s.get('k') in kinds:
                out.append((depth, s))
                rec(s.get('body'), depth + 1)
                return
            for k in ('body', 'then', 'else', 'taken', 'sub'):
                v = s.get(k)
                if isinstance(v, dict):
                    rec(v, depth + (1 if s.get('k') == 'for' and k == 'body' else 0))
                elif isinstance(v, list):
                    for x in v:
                        rec(x, depth)
        elif isinstance(s, list):
            for x in s:
                rec(x, depth)
    rec(f['body'], 0)
    return out


def rule_field_sampling(ctx, cfg, prog):
    for fname, mod, what in ((NS + 'Fq::random', bls.Q, 'q'), (NS + 'Fr::random', bls.R_ORDER, 'r')):
        fs = prog.fn_by_qn(fname)
        ctx.require(len(fs) == 1, '%s not found' % fname)
        lps = loops_of(fs[0])
        ctx.require(len(lps) == 1, '%s: expected one sampling loop' % fname)
        ok = check_compare_loop(ctx, cfg, prog, fs[0], lps[0][1], mod, what, 'reject|' + fname.split('::', 2)[-1])
        # the mask is applied before the comparison: last statement of the body
        body = lps[0][1]['body'].get('body', [])
        masked = bool(body) and any(x.get('k') == 'assign' and x.get('op') == '&=' for x in walk(body[-1]))
        ctx.ob('R-REJECT', masked, 'reject|mask-last|' + fname.split('::', 2)[-1], loc_str(lps[0][1]),
               '%s: the unused top bits must be masked after the bytes are drawn and before the comparison' % fname, cfg=cfg)


def rule_hash_reduce(ctx, cfg, prog):
    for fname, mod, what in ((NS + 'Fq::hash_reduce', bls.Q, 'q'), (NS + 'Fr::hash_reduce', bls.R_ORDER, 'r')):
        fs = prog.fn_by_qn(fname)
        ctx.require(len(fs) == 1, '%s not found' % fname)
        f = fs[0]
        from .cfg import CFG
        g = CFG(f)
        cmps = [n for n in g.cond_nodes() if any(c['name'] == 'compare' for c in pr.calls(n.ast))]
        subs = [n for n in g.stmt_nodes() if any(c['name'] == 'subtract' for c in pr.calls(n.ast))]
        ok = len(cmps) == 1 and len(subs) >= 1
        why = 'expected one comparison and a conditional subtraction'
        if ok:
            cn = cmps[0]
            c = [c for c in pr.calls(cn.ast) if c['name'] == 'compare'][0]
            table = {v: cond_with_call_value(strip(cn.ast), c, v) for v in (-1, 0, 1)}
            mod_ok = global_int(prog, c['args'][1]) == mod
            # the subtraction happens exactly on the edge where value >= modulus
            lab_ge = None
            if table[-1] is not None and table[0] == table[1] and table[0] != table[-1]:
                lab_ge = bool(table[0])
            sub_ok = lab_ge is not None and all(g.must_pass_edge(cn.id, lab_ge, s.id) for s in subs)
            subc = [c2 for s in subs for c2 in pr.calls(s.ast) if c2['name'] == 'subtract'][0]
            sub_mod = global_int(prog, subc['args'][1]) == mod if len(subc['args']) > 1 else False
            ok = mod_ok and sub_ok and sub_mod
            why = 'modulus ok=%s, subtraction on the >= edge=%s, subtracts the modulus=%s' % (mod_ok, sub_ok, sub_mod)
            # mask precedes the comparison
            masks = [n for n in g.stmt_nodes() if any(x.get('k') == 'assign' and x.get('op') == '&=' for x in walk(n.ast))]
            ok = ok and bool(masks) and all(g.must_pass_node(mk.id, cn.id) for mk in masks)
        ctx.ob('R-REJECT', ok, 'hashreduce|' + fname.split('::', 2)[-1], loc_str(f),
               '%s must mask the unused top bits, then subtract %s exactly when the value is >= %s (%s)' % (fname, what, what, why), cfg=cfg,
               sample=dict(config=cfg, function=fname, shape=why))
    # callers reduce the object they just read, after the read
    sites = 0
    for f in prog.functions.values():
        if 'body' not in f:
            continue
        reads = [c for c in pr.calls(f['body']) if c['name'] == 'read_big_endian']
        if not reads or not any(c['name'] == 'hash_reduce' for c in pr.calls(f['body'])):
            continue
        from .cfg import CFG
        g = CFG(f)
        for hr in [c for c in pr.calls(f['body']) if c['name'] == 'hash_reduce']:
            sites += 1
            obj = pr.norm_obj(pr.canon(hr['this']))
            hn = [n for n in g.stmt_nodes() if any(x is hr for x in walk(n.ast))]
            rn = [n for n in g.stmt_nodes() for c in pr.calls(n.ast) if c['name'] == 'read_big_endian' and
                  (pr.norm_obj(pr.canon(c['this'])) == obj or pr.norm_obj(pr.canon(c['this'])).startswith(obj + '.'))]
            ok = bool(hn) and bool(rn) and all(g.must_pass_node(r.id, hn[0].id) for r in rn) and g.must_pass_node(hn[0].id, g.exit.id)
            ctx.ob('R-REJECT', ok, 'hashreduce-caller|%s' % strip_tmpl(f['qn']), loc_str(hr),
                   '%s must reduce (%s.hash_reduce()) the object it just read, after the read, on every path' % (f['qn'], obj), cfg=cfg)
    # functions that read hash bytes into a scalar/field and are documented to reduce must call hash_reduce at all
    for qn in ('embedded_pairing_bls12_381_zp_from_hash', NS + 'Affine::from_hash', 'embedded_pairing::wkdibe::scalar_hash_reduce'):
        fs = [f for f in prog.functions.values() if 'body' in f and strip_tmpl(f['qn']) == qn]
        ctx.require(fs, '%s not found' % qn)
        for f in fs:
            ctx.ob('R-REJECT', any(c['name'] == 'hash_reduce' for c in pr.calls(f['body'])), 'hashreduce-present|' + strip_tmpl(f['qn']),
                   loc_str(f), '%s no longer reduces the hash output: a scalar/coordinate >= modulus can result' % f['qn'], cfg=cfg)
    return sites


def rule_point_sampling(ctx, cfg, prog):
    fs = pr.functions_named(prog, NS + 'sample_random_generator')
    ctx.floor('sample_random_generator instantiations[%s]' % cfg, len(fs), 2)
    for f in fs:
        lps = loops_of(f, kinds=('do', 'while'))
        tag = f['qn'].split('<')[1][:30]
        # loops are identified by role (what their condition tests), not by nesting position
        inner = [l for d, l in lps if any(c['name'] == 'get_point_from_x' for c in pr.calls(l['c']))]
        outer = [l for d, l in lps if any(c['name'] == 'is_zero' for c in pr.calls(l['c']))]
        ctx.ob('R-REJECT', len(inner) == 1, 'reject|point|' + tag + '|present', loc_str(f),
               '%s has no (single) loop that redraws x until get_point_from_x finds a curve point' % f['qn'], cfg=cfg)
        if len(inner) == 1:
            check_point_loop(ctx, cfg, prog, f, inner[0], 'reject|point|' + tag)
        # outer: continue exactly while the result is the identity
        if len(outer) != 1:
            ctx.ob('R-REJECT', False, 'reject|nonidentity|' + tag, loc_str(f),
                   '%s must retry while the cofactor-cleared result is the identity: no loop conditioned on result.is_zero() exists, so a '
                   'sampled point of order dividing the cofactor yields the identity' % f['qn'], cfg=cfg)
            scope = f['body']
        else:
            outer = outer[0]
            scope = outer['body']
            z = [c for c in pr.calls(outer['c']) if c['name'] == 'is_zero']
            ok = len(z) == 1 and cond_with_call_value(outer['c'], z[0], 1) == 1 and cond_with_call_value(outer['c'], z[0], 0) == 0 and \
                pr.canon(z[0]['this']).startswith('P:') and not [x for x in walk(outer['body']) if x.get('k') in ('return',)]
            if ok and len(inner) == 1:
                # the redraw and the cofactor clearing are inside the retried region
                ok = any(x is inner[0] for x in walk(outer['body']))
            ctx.ob('R-REJECT', ok, 'reject|nonidentity|' + tag, loc_str(outer),
                   '%s must retry (redraw and clear the cofactor again) while the cofactor-cleared result is the identity' % f['qn'], cfg=cfg)
        cof = [c for c in pr.calls(scope) if c['name'].startswith('multiply') and any('cofactor' in pr.canon(a) for a in c['args'])]
        ctx.ob('R-REJECT', len(cof) == 1 and pr.canon(cof[0]['this']).startswith('P:'), 'reject|cofactor|' + tag, loc_str(f),
               '%s must clear the cofactor of the sampled curve point into the result' % f['qn'], cfg=cfg)
    fs = pr.functions_named(prog, NS + 'Affine::try_and_increment')
    ctx.floor('try_and_increment instantiations[%s]' % cfg, len(fs), 1)
    for f in fs:
        lps = loops_of(f, kinds=('do', 'while'))
        ctx.require(len(lps) == 1, '%s: expected one loop' % f['qn'])
        tag = f['qn'].split('Affine<')[-1][:30]
        check_point_loop(ctx, cfg, prog, f, lps[0][1], 'reject|tryinc|' + tag)
        incs = [c for c in pr.calls(lps[0][1]['body']) if c['name'] == 'add']
        ok = len(incs) == 1 and pr.canon(incs[0]['this']) == pr.canon(incs[0]['args'][0]) and pr.canon(incs[0]['args'][1]).endswith('::one')
        ctx.ob('R-REJECT', ok, 'reject|tryinc-step|' + tag, loc_str(lps[0][1]),
               '%s must step the candidate x by exactly one field unit (first curve point met when incrementing)' % f['qn'], cfg=cfg)


def rule_powers_of_x(ctx, cfg, prog):
    fs = prog.fn_by_qn(NS + 'PowersOfX::random')
    ctx.require(len(fs) == 1, 'PowersOfX::random not found')
    f = fs[0]
    lps = loops_of(f, kinds=('do', 'while'))
    # rejection loops are identified by role: the constant their condition compares the sample with

    def cmp_mod(l):
        for c in pr.calls(l['c']):
            if c['name'] == 'compare' and len(c['args']) > 1:
                return global_int(prog, c['args'][1])
        return None
    digit = [l for d, l in lps if cmp_mod(l) == abs(bls.X)]
    whole = [l for d, l in lps if cmp_mod(l) == bls.R_ORDER]
    other = [l for d, l in lps if not any(l is y for y in digit + whole) and any(c['name'] == 'compare' for c in pr.calls(l['c']))]
    if len(digit) == 1:
        check_compare_loop(ctx, cfg, prog, f, digit[0], abs(bls.X), '|x|', 'reject|powers|digit')
    else:
        ctx.ob('R-REJECT', False, 'reject|powers|digit', loc_str(f),
               'PowersOfX::random: no (single) rejection loop keeps each base-|x| digit below |x| (%d loops compare with |x|): digits in [|x|, 2^64) '
               'give one y several representations, so y is not uniform on [0, r)' % len(digit), cfg=cfg)
    if len(whole) == 1:
        check_compare_loop(ctx, cfg, prog, f, whole[0], bls.R_ORDER, 'r', 'reject|powers|y')
    else:
        ctx.ob('R-REJECT', False, 'reject|powers|y', loc_str(f),
               'PowersOfX::random: no (single) rejection loop keeps y below r (%d loops compare with r)' % len(whole), cfg=cfg)
    for l in other:
        check_compare_loop(ctx, cfg, prog, f, l, None, 'a recognised modulus (|x| or r)', 'reject|powers|other@' + loc_str(l))
    outer = whole[0] if len(whole) == 1 else dict(body=f['body'])
    if len(digit) == 1 and len(whole) == 1:
        ctx.ob('R-REJECT', any(x is digit[0] for x in walk(whole[0]['body'])), 'reject|powers|nesting', loc_str(whole[0]),
               'PowersOfX::random: the digits must be redrawn inside the y >= r retry loop', cfg=cfg)
    # all four digits are drawn: the digit loop covers [0, extent of c)
    fors = [x for x in walk(outer['body']) if x.get('k') == 'for']
    ext = [fl['t'].get('n') for fl in prog.records[NS + 'PowersOfX']['fields'] if fl['name'] == 'c'][0]
    from . import ranges
    iv = ranges.for_iv(fors[0], {}) if fors else None
    ctx.ob('R-REJECT', iv is not None and (iv[1], iv[2]) == (0, ext - 1), 'reject|powers|alldigits', loc_str(f),
           'PowersOfX::random must draw all %d digits' % ext, cfg=cfg)
    # recombination constants: c[k] is multiplied by |x|^k
    ok = True
    seen = {}
    for c in pr.calls(outer['body']):
        if c['name'] == 'multiply' and len(c['args']) == 2:
            a0 = pr.norm_obj(pr.canon(c['args'][0]))
            if a0.startswith('this.c[#'):
                k = int(a0.split('#')[1].rstrip(']'))
                v = global_int(prog, c['args'][1])
                seen[k] = v
    ok = seen == {1: abs(bls.X), 2: abs(bls.X) ** 2, 3: abs(bls.X) ** 3}
    ctx.ob('R-CONST', ok, 'powers|recombination', loc_str(f),
           'PowersOfX::random must recombine y = c0 + c1|x| + c2|x|^2 + c3|x|^3: digit k is multiplied by %s' % {k: hex(v) if v else v for k, v in seen.items()},
           cfg=cfg, sample=dict(config=cfg, relation='digit k scaled by |x|^k', digits=sorted(seen)))
