"""R-WORDALG for the ARMv6-M (Thumb-1) sources: the same integer-polynomial word algebra as asmsem.py with 32-bit words.
The sources are rewritten to unified syntax (thumbconv.py, trusted), assembled with clang for thumbv6m and the DISASSEMBLY is
interpreted, so the flag-setting behaviour of every instruction is the one of its encoding.

Instruction subset (all the shipped routines use): push/pop/ldm/stm/ldr/str, adds/adcs/subs/sbcs/rsbs #0, muls, lsls/lsrs #imm, uxth,
eors r,r, mov, add/sub with sp, bl (only to the C++ reduce trampoline), bx lr / pop {pc}.  No conditional control flow.
Flags: C is tracked as a polynomial bit; adds/adcs/subs/sbcs/rsbs define it; lsls/lsrs #n define it as the last bit shifted out (only
when that bit is a tracked 0/1 value, otherwise unknown); muls/eors/uxth/loads/stores leave it unchanged (ARMv6-M ARM A6.7);
`mov` between two low registers makes it UNKNOWN (GNU as encodes it as adds #0 in divided syntax for pre-v6 cores, as MOV for v6)."""
import re, os, subprocess
from .asmsem import (ZPoly, ZERO, ONE, World, State, X86Machine, A64Machine, PathResult, Unsupported, StaleFlag, big, operand_words,
                     check_exact, _leftover_ok)
from . import asmcheck, thumbconv
from . import buildmodel as bm

LOW = ['r%d' % i for i in range(8)]
ALLREGS = ['r%d' % i for i in range(13)] + ['sp', 'lr']


def reglist(op):
    m = re.match(r'^\{(.*)\}$', op.strip())
    if not m:
        raise Unsupported('register list %s' % op)
    out = []
    for part in m.group(1).split(','):
        part = part.strip()
        if '-' in part:
            a, b = part.split('-')
            for i in range(int(a[1:]), int(b[1:]) + 1):
                out.append('r%d' % i)
        elif part:
            out.append(part)
    return out


def thumb_ops(rest):
    """split operands at top-level commas (register lists and address brackets stay whole)"""
    out, depth, cur = [], 0, ''
    for ch in rest:
        if ch in '{[':
            depth += 1
        elif ch in '}]':
            depth -= 1
        if ch == ',' and depth == 0:
            out.append(cur.strip())
            cur = ''
        else:
            cur += ch
    if cur.strip():
        out.append(cur.strip())
    return out


def disassemble(obj):
    out = subprocess.run(['llvm-objdump-14', '-d', '-r', '--no-show-raw-insn', obj], stdout=subprocess.PIPE, text=True).stdout
    insns, syms, order = {}, {}, []
    last = None
    for line in out.splitlines():
        m = re.match(r'^([0-9a-f]+) <(.+)>:$', line)
        if m:
            syms[m.group(2)] = int(m.group(1), 16)
            continue
        m = re.match(r'^\s*([0-9a-f]+):\s+(R_ARM_\S+)\s+(\S+)', line)
        if m and last is not None:
            last.reloc = m.group(3)
            continue
        m = re.match(r'^\s*([0-9a-f]+):\s+(\S+)\s*(.*)$', line)
        if m:
            addr = int(m.group(1), 16)
            ins = asmcheck.Insn(addr, m.group(2), thumb_ops(m.group(3).strip()), line.strip())
            insns[addr] = ins
            order.append(addr)
            last = ins
    for i, a in enumerate(order):
        insns[a].size = (order[i + 1] - a) if i + 1 < len(order) else 2
    return insns, syms, order


class TState(State):
    def __init__(self):
        super().__init__()
        self.call = None
        self.retinfo = None

    def fork(self):
        s = TState()
        s.__dict__.update(State.fork(self).__dict__)
        s.call, s.retinfo = self.call, self.retinfo
        return s


class ThumbMachine(A64Machine):
    RET = 'r0'
    ARCH = 'armv6_m'
    W = 1 << 32
    WB = 4
    TRAMPOLINE = 'embedded_pairing_core_arch_armv6_m_fpbase_384_reduce'

    def __init__(self, insns, order, entry, args, alias=None, max_paths=4):
        super().__init__(insns, order, entry, args, alias=alias, max_paths=max_paths)
        self.splits = {}
        self.world.deep = 2

    def run(self):
        st = TState()
        for r in ALLREGS:
            st.regs[r] = ('cs', r)
        nreg = 0
        self.stack_args = {}
        for i, kind in enumerate(self.args):
            v = ('p', i, 0) if kind == 'ptr' else self.world.input('I%d' % i, self.W - 1)
            if i < 4:
                st.regs['r%d' % i] = v
            else:
                self.stack_args[4 * (i - 4)] = v
        st.regs['sp'] = ('sp', 0)
        self.go(st, self.entry)
        return self.finals

    # ---- values ----
    def split(self, v, bits):
        """(lo, hi): v == lo + 2^bits * hi with 0 <= lo < 2^bits, for a value known to lie in [0, 2^32)"""
        lo_, hi_ = self.world.rng(v)
        if lo_ < 0:
            raise Unsupported('split of a possibly negative value')
        if hi_ < (1 << bits):
            return v, ZERO
        key = (v, bits)
        if key in self.splits:
            return self.splits[key]
        m = 1 << bits
        # written as 2^bits * H + L with 0 <= L < 2^bits already (Euclidean division is unique): look one definition deep
        for cand in (v, self._unfold1(v)):
            if cand is None:
                continue
            H = ZPoly({mm: c // m for mm, c in cand.t.items() if c % m == 0})
            L = ZPoly({mm: c for mm, c in cand.t.items() if c % m != 0})
            l0, l1 = self.world.rng(L)
            if l0 >= 0 and l1 < m and not H.is_zero():
                h0, h1 = self.world.rng(H)
                if h0 >= 0 or True:
                    # H = (v - L) / 2^bits = floor(v / 2^bits) >= 0 because v >= 0 and 0 <= L < 2^bits
                    if H.single_atom() is None and not H.is_const():
                        hn = self.world.new('v', 'val', 0, hi_ >> bits, defn=H)
                        Hv = ZPoly.var(hn)
                    else:
                        Hv = H
                    self.splits[key] = (L, Hv)
                    return self.splits[key]
        # the quotient behaves like a (multi-valued) carry of the remainder: remainder = v - 2^bits * quotient >= 0
        hn = self.world.new('s', 'carry', 0, hi_ >> bits, weight=m, exact=True)
        ln = self.world.new('v', 'val', 0, m - 1, defn=v - ZPoly.var(hn) * m)
        self.world.atoms[hn]['comp'] = ln
        self.splits[key] = (ZPoly.var(ln), ZPoly.var(hn))
        return self.splits[key]

    def _unfold1(self, v):
        a = v.single_atom()
        if a is not None and v == ZPoly.var(a):
            d = self.world.atoms[a].get('defn')
            if d is not None and self.world.atoms[a]['kind'] == 'val':
                return d
        return None

    def mul32(self, x, y, ins):
        prod = x * y
        lo, hi = self.world.rng(prod)
        if lo >= 0 and hi < self.W:
            return prod if (prod.is_const() or len(prod.t) <= 4) else self.value(prod)
        key = frozenset([x, y])
        if key not in self.world.products:
            un = self.world.new('u', 'trunc', 0, self.W - 1, rel=(x, y))
            self.world.products[key] = ZPoly.var(un)
        return self.world.products[key]

    # ---- memory ----
    def ptr(self, st, r, ins):
        v = st.regs.get(r)
        if isinstance(v, tuple) and v[0] in ('p', 'sp'):
            return v
        raise Unsupported('memory access through an untracked pointer %s at %#x (%s)' % (r, ins.addr, ins.text))

    def ld(self, st, base, off, ins):
        if base[0] == 'sp':
            a = base[1] + off
            if ('sp', a) in st.mem:
                return st.mem[('sp', a)]
            if a >= 0:
                # the caller's frame: stack-passed arguments, anything else is an unknown word
                if a in self.stack_args:
                    return self.stack_args[a]
                return self.world.input('STK_%d' % a, self.W - 1)
            raise Unsupported('read of an unwritten stack slot sp%+d at %#x' % (a, ins.addr))
        a = base[2] + off
        key = (self.region(base[1]), a)
        if key in st.mem:
            return st.mem[key]
        return self.word_atom(base[1], a)

    def stw(self, st, base, off, val, ins):
        if base[0] == 'sp':
            a = base[1] + off
            if a >= 0:
                raise Unsupported('store into the caller\'s frame at %#x (%s)' % (ins.addr, ins.text))
            st.mem[('sp', a)] = val
            return
        a = base[2] + off
        if a % 4:
            raise Unsupported('unaligned store at %#x' % ins.addr)
        if not isinstance(val, ZPoly):
            raise Unsupported('store of a non-integer value at %#x (%s)' % (ins.addr, ins.text))
        st.mem[(self.region(base[1]), a)] = val

    @staticmethod
    def bump(p, n):
        return ('sp', p[1] + n) if p[0] == 'sp' else ('p', p[1], p[2] + n)

    def memop(self, op, ins):
        m = re.match(r'^\[(\w+)(?:,\s*#(-?(?:0x)?[0-9a-f]+))?\]$', op)
        if not m:
            raise Unsupported('addressing mode %s at %#x' % (op, ins.addr))
        return m.group(1), int(m.group(2), 0) if m.group(2) else 0

    def ival(self, st, op, ins):
        if op.startswith('#'):
            return ZPoly.const(int(op[1:], 0) % self.W)
        v = st.regs.get(op)
        if isinstance(v, ZPoly):
            return v
        raise Unsupported('register %s does not hold a tracked integer at %#x (%s)' % (op, ins.addr, ins.text))

    # ---- control ----
    def go(self, st, addr):
        while True:
            ins = self.insns.get(addr)
            if ins is None:
                raise Unsupported('control flow leaves the object at %#x' % addr)
            nxt = self.order[self.idx[addr] + 1] if self.idx[addr] + 1 < len(self.order) else None
            mn, ops = ins.mnem, ins.ops
            if mn == 'bx':
                if st.regs.get(ops[0]) != ('cs', 'lr'):
                    raise Unsupported('bx through a register that is not the return address at %#x' % addr)
                st.retinfo = dict(sp=st.regs.get('sp'), regs={r: st.regs.get(r) for r in ALLREGS})
                self.finals.append(st)
                return
            if mn == 'pop' and 'pc' in reglist(ops[0]):
                self.step(st, ins)
                st.retinfo = dict(sp=st.regs.get('sp'), regs={r: st.regs.get(r) for r in ALLREGS}, pc=st.regs.get('pc'))
                self.finals.append(st)
                return
            if mn.startswith('b') and mn not in ('bl', 'bics'):
                raise Unsupported('branch %s at %#x' % (mn, addr))
            self.step(st, ins)
            addr = nxt

    def step(self, st, ins):
        mn, ops = ins.mnem, ins.ops
        w = self.world
        if mn == 'push':
            regs = reglist(ops[0])
            sp = self.ptr(st, 'sp', ins)
            sp = self.bump(sp, -4 * len(regs))
            for i, r in enumerate(regs):
                st.mem[('sp', sp[1] + 4 * i)] = st.regs.get(r)
            st.regs['sp'] = sp
            return
        if mn == 'pop':
            regs = reglist(ops[0])
            sp = self.ptr(st, 'sp', ins)
            for i, r in enumerate(regs):
                a = sp[1] + 4 * i
                if ('sp', a) not in st.mem:
                    raise Unsupported('pop of an unwritten slot at %#x' % ins.addr)
                st.regs[r] = st.mem[('sp', a)]
            st.regs['sp'] = self.bump(sp, 4 * len(regs))
            return
        if mn in ('ldm', 'ldmia'):
            base = ops[0].rstrip('!')
            regs = reglist(ops[1])
            p = self.ptr(st, base, ins)
            for i, r in enumerate(regs):
                st.regs[r] = self.ld(st, p, 4 * i, ins)
            if ops[0].endswith('!') or base not in regs:
                if base not in regs:
                    st.regs[base] = self.bump(p, 4 * len(regs))
            return
        if mn in ('stm', 'stmia'):
            base = ops[0].rstrip('!')
            regs = reglist(ops[1])
            p = self.ptr(st, base, ins)
            for i, r in enumerate(regs):
                self.stw(st, p, 4 * i, st.regs.get(r), ins)
            st.regs[base] = self.bump(p, 4 * len(regs))
            return
        if mn == 'ldr':
            b, off = self.memop(ops[1], ins)
            st.regs[ops[0]] = self.ld(st, self.ptr(st, b, ins), off, ins)
            return
        if mn == 'str':
            b, off = self.memop(ops[1], ins)
            self.stw(st, self.ptr(st, b, ins), off, st.regs.get(ops[0]), ins)
            return
        if mn == 'mov':
            st.regs[ops[0]] = st.regs.get(ops[1])
            if ops[0] in LOW and ops[1] in LOW:
                st.cf = st.zf = None
            return
        if mn == 'movs':
            st.regs[ops[0]] = self.ival(st, ops[1], ins)
            st.zf = st.regs[ops[0]]
            if not ops[1].startswith('#'):
                st.cf = None
            return
        if mn in ('add', 'sub') and (ops[0] == 'sp' or (len(ops) == 3 and ops[1] == 'sp')):
            # add sp, #n / sub sp, #n / add rd, sp, #n
            if len(ops) == 2:
                d, b, imm = 'sp', 'sp', ops[1]
            else:
                d, b, imm = ops[0], ops[1], ops[2]
            if not imm.startswith('#'):
                raise Unsupported('sp arithmetic with a register at %#x' % ins.addr)
            n = int(imm[1:], 0)
            st.regs[d] = self.bump(self.ptr(st, b, ins), n if mn == 'add' else -n)
            return
        if mn in ('adds', 'adcs'):
            if len(ops) == 2:
                d, x, y = ops[0], self.ival(st, ops[0], ins), self.ival(st, ops[1], ins)
            else:
                d, x, y = ops[0], self.ival(st, ops[1], ins), self.ival(st, ops[2], ins)
            cin = self.need_flag(st.cf, 'C', ins) if mn == 'adcs' else ZERO
            v, k = self.add_(st, x, y, cin, ins)
            st.regs[d] = v
            st.cf, st.zf = k, v
            return
        if mn == 'sbcs' and len(ops) == 2 and ops[0] == ops[1]:
            # sbcs r, r : r = -(1 - C) = (2^32 - 1) * borrow ; the new C equals the old one
            c = self.need_flag(st.cf, 'C', ins)
            st.regs[ops[0]] = (ONE - c) * (self.W - 1)
            st.zf = None
            return
        if mn in ('subs', 'sbcs', 'rsbs', 'cmp'):
            if mn == 'rsbs':
                if ops[2] != '#0':
                    raise Unsupported('rsbs with a non-zero immediate at %#x' % ins.addr)
                d, x, y = ops[0], ZERO, self.ival(st, ops[1], ins)
            elif mn == 'cmp':
                d, x, y = None, self.ival(st, ops[0], ins), self.ival(st, ops[1], ins)
            elif len(ops) == 2:
                d, x, y = ops[0], self.ival(st, ops[0], ins), self.ival(st, ops[1], ins)
            else:
                d, x, y = ops[0], self.ival(st, ops[1], ins), self.ival(st, ops[2], ins)
            if mn == 'sbcs' and len(ops) == 2 and ops[0] == ops[1]:
                # sbcs r, r : r = -(1 - C) = (2^32 - 1) * borrow ; C unchanged in value (borrow again)
                c = self.need_flag(st.cf, 'C', ins)
                st.regs[d] = (ONE - c) * (self.W - 1)
                st.zf = None
                return
            if mn == 'rsbs':
                # negating (2^32 - 1) * bit gives the bit
                if len(y.t) >= 1 and all(c % (self.W - 1) == 0 for c in y.t.values()):
                    b = ZPoly({m_: c // (self.W - 1) for m_, c in y.t.items()})
                    lo, hi = w.rng(b)
                    if lo >= 0 and hi <= 1:
                        st.regs[d] = b
                        st.cf, st.zf = ONE - b, b
                        return
            bin_ = (ONE - self.need_flag(st.cf, 'C', ins)) if mn == 'sbcs' else ZERO
            v, k = self.sub_(st, x, y, bin_, ins)
            if d is not None:
                st.regs[d] = v
            st.cf, st.zf = ONE - k, v
            return
        if mn == 'muls':
            x, y = self.ival(st, ops[1], ins), self.ival(st, ops[2] if len(ops) == 3 else ops[0], ins)
            st.regs[ops[0]] = self.mul32(x, y, ins)
            st.zf = None
            return
        if mn == 'uxth':
            st.regs[ops[0]] = self.split(self.ival(st, ops[1], ins), 16)[0]
            return
        if mn in ('lsls', 'lsrs'):
            if len(ops) != 3 or not ops[2].startswith('#'):
                raise Unsupported('shift by a register at %#x' % ins.addr)
            n = int(ops[2][1:], 0)
            x = self.ival(st, ops[1], ins)
            if n == 0 or n >= 32:
                raise Unsupported('shift amount %d at %#x' % (n, ins.addr))
            if mn == 'lsls':
                lo, hi = self.split(x, 32 - n)
                st.regs[ops[0]] = lo * (1 << n)
                h0, h1 = w.rng(hi)
                st.cf = hi if (h0 >= 0 and h1 <= 1) else None
            else:
                lo, hi = self.split(x, n)
                st.regs[ops[0]] = hi
                l0, l1 = w.rng(lo)
                st.cf = lo if (n == 1 and l0 >= 0 and l1 <= 1) else None
            st.zf = None
            return
        if mn == 'eors':
            a, b = (ops[0], ops[1]) if len(ops) == 2 else (ops[1], ops[2])
            if a == b:
                st.regs[ops[0]] = ZERO
                st.zf = ZERO
                return
            raise Unsupported('eors of distinct registers at %#x' % ins.addr)
        if mn == 'bl':
            tgt = getattr(ins, 'reloc', None)
            if tgt != self.TRAMPOLINE:
                raise Unsupported('call to %s at %#x' % (tgt, ins.addr))
            if st.call is not None:
                raise Unsupported('second call at %#x' % ins.addr)
            r0, r1, r2 = st.regs.get('r0'), st.regs.get('r1'), st.regs.get('r2')
            if not (isinstance(r1, tuple) and r1[0] == 'sp'):
                raise Unsupported('the value handed to the final reduction is not on the stack at %#x' % ins.addr)
            V = [st.mem.get(('sp', r1[1] + 4 * i)) for i in range(12)]
            st.call = dict(res=r0, V=V, p=r2, addr=ins.addr, sp=st.regs.get('sp'), V_ptr=r1)
            for r in ('r0', 'r1', 'r2', 'r3', 'r12', 'lr'):
                st.regs[r] = ('clobbered', r)
            st.cf = st.zf = None
            return
        raise Unsupported('instruction %s at %#x (%s)' % (mn, ins.addr, ins.text))


# ---------------------------------------------------------------------------------------------- specifications
def frame_ok(st, has_lr_pop):
    """callee-saved registers and the stack pointer are restored at the return"""
    ri = st.retinfo or {}
    msgs = []
    if ri.get('sp') != ('sp', 0):
        msgs.append('the stack pointer is not restored at the return (%r)' % (ri.get('sp'),))
    for r in ['r%d' % i for i in range(4, 12)]:
        if (ri.get('regs') or {}).get(r) != ('cs', r):
            msgs.append('callee-saved register %s is not restored at the return' % r)
    if 'pc' in ri and ri['pc'] != ('cs', 'lr'):
        msgs.append('the routine does not return to its caller (pc is loaded with %r)' % (ri['pc'],))
    return msgs


def check_montgomery_thumb(pr, m, st, T, parg, inv):
    """at the call of the reduce trampoline:  2^384 * V + Z == T + U * p  (mod 2^768), V the twelve words handed to the trampoline,
    u_i = lo32(inv * t_i) the quotient words, Z the twelve discarded low words, each of which is  t_i + u_i * p[0]  modulo 2^32 (hence 0
    when inv * p[0] == -1 mod 2^32); the trampoline receives (res, V, p)"""
    w = pr.w
    n = 12
    c = st.call
    if c is None:
        return False, 'the routine never calls the final reduction'
    if c['res'] != ('p', 0, 0):
        return False, 'the final reduction is not given the result pointer (r0 = %r)' % (c['res'],)
    if c['p'] != ('p', parg, 0):
        return False, 'the final reduction is not given the modulus pointer (r2 = %r)' % (c['p'],)
    if any(not isinstance(v, ZPoly) for v in c['V']):
        return False, 'a word of the value handed to the final reduction was never written'
    pw = operand_words(m, parg, n)
    P = big(pw, m.W)
    us = []
    for name, at in w.atoms.items():
        if at['kind'] == 'trunc' and at.get('rel') is not None:
            x, y = at['rel']
            if x == inv or y == inv:
                us.append((name, y if x == inv else x))
    if len(us) != n:
        return False, 'expected %d quotient words u_i = lo32(inv * t_i), found %d' % (n, len(us))
    U = big([ZPoly.var(un) for (un, t) in us], m.W)
    V = pr.x(big(c['V'], m.W))
    Pn = pr.x(P)
    S = pr.x(T) + pr.x(U) * Pn - V * (m.W ** n)
    # the discarded word of row i: an addition one of whose operands is t_i and whose result is t_i + u_i * p[0] modulo 2^32
    p0 = pr.x(pw[0])
    zs = []
    for (un, t) in us:
        want = pr.x(t) + pr.x(ZPoly.var(un)) * p0
        found = None
        seen = 0
        useq = w._seq(un)
        for e in pr.events():
            if e['op'] != 'add':
                continue
            va = e['v'].single_atom()
            if va is None or w._seq(va) < useq:
                continue
            # the first column of the row: the additions that follow the computation of u_i
            seen += 1
            if seen > 8:
                break
            d = pr.x(e['v']) - want
            if d.is_zero() or d.coeff_gcd_divisible(m.W):
                found = e['v']
        if found is None:
            return False, 'row of quotient word %s: no addition computes  t_i + u_i * p[0]  (mod 2^32), the word the reduction is meant to cancel' % un
        zs.append(found)
    Z = pr.x(big(zs, m.W))
    ok, why = _leftover_ok(pr, S - Z, 2 * n)
    if not ok:
        return False, '2^384 * V + (cancelled low words) differs from T + U*p (modulo 2^768) by %s' % why[:400]
    return True, why


THUMB_SPECS = {
    'bigint_384_add': (('ptr', 'ptr', 'ptr'), 12, 'add', [{}, {0: 1}, {0: 2}, {0: 1, 2: 1}]),
    'bigint_384_subtract': (('ptr', 'ptr', 'ptr'), 12, 'sub', [{}, {0: 1}, {0: 2}, {0: 1, 2: 1}]),
    'bigint_384_multiply2': (('ptr', 'ptr'), 12, 'dbl', [{}, {0: 1}]),
    'bigint_768_multiply': (('ptr', 'ptr', 'ptr'), 24, 'mul', [{}, {2: 1}]),
    'bigint_768_square': (('ptr', 'ptr'), 24, 'sqr', [{}]),
    'fpbase_384_multiply': (('ptr', 'ptr', 'ptr', 'ptr', 'int'), 12, 'mulredc', [{}, {0: 1}, {0: 2}, {2: 1}]),
    'fpbase_384_square': (('ptr', 'ptr', 'ptr', 'int'), 12, 'sqrredc', [{}, {0: 1}]),
    'fpbase_384_montgomery_reduce': (('ptr', 'ptr', 'ptr', 'int'), 12, 'redc', [{}]),
}

THUMB_SPEC_TEXT = {
    'bigint_384_add': 'res + 2^384 * returned carry == a + b',
    'bigint_384_subtract': 'res - 2^384 * returned borrow == a - b',
    'bigint_384_multiply2': 'res + 2^384 * returned bit == 2a',
    'bigint_768_multiply': 'res == a * b (all 24 words)',
    'bigint_768_square': 'res == a * a (all 24 words)',
    'fpbase_384_multiply': 'at the call of the C++ reduce trampoline: 2^384 * V + Z == a*b + U*p (mod 2^768), Z the discarded words t_i + u_i p[0] (mod 2^32), '
                           'u_i = lo32(inv * t_i); the trampoline gets (res, V, p); registers and stack restored',
    'fpbase_384_square': 'as fpbase_384_multiply with a*a',
    'fpbase_384_montgomery_reduce': 'as fpbase_384_multiply with the 768-bit argument T',
}


def spec_for(name):
    for suf, sp in THUMB_SPECS.items():
        if name.endswith(suf):
            return suf, sp
    return None, None


def analyse_routine(insns, order, entry, name):
    suf, sp = spec_for(name)
    if sp is None:
        return None
    kinds, nres, which, patterns = sp
    out = []
    for pat in patterns:
        m = ThumbMachine(insns, order, entry, kinds, alias=pat)
        finals = m.run()
        msgs = []
        for st in finals:
            pr = PathResult(m, st, nres)
            NW = 12
            A = big(operand_words(m, 1, NW), m.W)
            if which in ('add', 'sub', 'mul', 'mulredc'):
                B = big(operand_words(m, 2, NW), m.W)
            if which == 'add':
                ok, why = check_exact(pr, NW, A + B, ret_weight=1, what='a + b')
            elif which == 'sub':
                ok, why = check_exact(pr, NW, A - B, ret_weight=-1, what='a - b')
            elif which == 'dbl':
                ok, why = check_exact(pr, NW, A + A, ret_weight=1, what='2a')
            elif which == 'mul':
                ok, why = check_exact(pr, 2 * NW, A * B, what='a * b')
            elif which == 'sqr':
                ok, why = check_exact(pr, 2 * NW, A * A, what='a * a')
            elif which == 'mulredc':
                ok, why = check_montgomery_thumb(pr, m, st, A * B, 3, m.stack_args[0])
            elif which == 'sqrredc':
                ok, why = check_montgomery_thumb(pr, m, st, A * A, 2, st_input(m, 3))
            elif which == 'redc':
                T = big([m.world.input('A%d_%d' % (m.region(1), i), m.W - 1) for i in range(24)], m.W)
                ok, why = check_montgomery_thumb(pr, m, st, T, 2, st_input(m, 3))
            if not ok:
                msgs.append(why)
            msgs += frame_ok(st, True)
        out.append((pat, not msgs, msgs, len(finals), [], len(m.world.atoms)))
    return out


def st_input(m, i):
    return m.world.input('I%d' % i, m.W - 1)


def build_tables(cfg, outdir):
    os.makedirs(outdir, exist_ok=True)
    tbl = {}
    for s in bm.asm_units(cfg):
        uni = os.path.join(outdir, cfg + '_' + os.path.basename(s) + '.unified.s')
        obj = uni + '.o'
        open(uni, 'w').write(thumbconv.convert(open(s).read()))
        p = subprocess.run(['clang', '--target=thumbv6m-none-eabi', '-mcpu=cortex-m0plus', '-c', uni, '-o', obj], stdout=subprocess.PIPE, stderr=subprocess.PIPE, text=True)
        if p.returncode != 0:
            raise bm.AnalysisBroken('cannot assemble %s after the syntax rewrite: %s' % (s, p.stderr[-400:]))
        insns, syms, order = disassemble(obj)
        for name, addr in syms.items():
            tbl[name] = (insns, order, addr)
        os.unlink(obj)
        os.unlink(uni)
    return tbl


def trampoline_ok(prog):
    """the C++ function the fused routines call last forwards (res, a, p) to FpBase<384>::reduce(a, p) on res, and does nothing else"""
    from .facts import walk, strip
    from . import pathrules as pr
    fs = [f for f in prog.functions.values() if 'body' in f and f['qn'] == ThumbMachine.TRAMPOLINE]
    if len(fs) != 1:
        return None, 'definition not found'
    f = fs[0]
    binds = {}
    for nd in walk(f['body']):
        if nd.get('k') == 'decl':
            for v in nd['vars']:
                if v.get('init') is not None:
                    roots = [x for x in walk(v['init']) if x.get('k') == 'ref' and x.get('rk') == 'param']
                    if len(roots) == 1:
                        binds[v['id']] = roots[0]['name']
    cs = pr.calls(f['body'])
    if len(cs) != 1 or cs[0].get('name') != 'reduce' or cs[0].get('this') is None:
        return f, 'the body is not a single call of reduce'

    def root(e):
        ids = [x for x in walk(e) if x.get('k') == 'ref' and x.get('rk') in ('local', 'param')]
        if len(ids) != 1:
            return None
        return binds.get(ids[0].get('id'), ids[0].get('name'))
    names = [p['name'] for p in f['params']]
    got = [root(cs[0]['this'])] + [root(a) for a in cs[0].get('args', [])]
    if got != names[:3]:
        return f, 'reduce is called as %s.reduce(%s), expected %s.reduce(%s, %s)' % (got[0], ', '.join(str(x) for x in got[1:]), names[0], names[1], names[2])
    callee = prog.callee(cs[0], f)
    if callee is None or not callee['qn'].startswith('embedded_pairing::core::FpBase<384>::reduce'):
        return f, 'the callee is %s, expected FpBase<384>::reduce' % (callee or {}).get('qn')
    return f, None


def rule_wordalg_thumb(ctx, cfg, outdir, rule='R-WORDALG', prog=None):
    arch = bm.configs()[cfg]['arch']
    if arch != 'armv6_m' or not bm.configs()[cfg]['asm']:
        return 0
    tbl = build_tables(cfg, outdir)
    n = 0
    if prog is not None:
        from .facts import loc_str
        f, why = trampoline_ok(prog)
        if f is None:
            raise bm.AnalysisBroken('R-WORDALG: %s: %s' % (ThumbMachine.TRAMPOLINE, why))
        n += 1
        ctx.ob(rule, why is None, 'wordalg|trampoline', loc_str(f), '%s: %s' % (ThumbMachine.TRAMPOLINE, why), cfg=cfg,
               sample=dict(config=cfg, routine=ThumbMachine.TRAMPOLINE, specification='forwards (res, a, p) to FpBase<384>::reduce, itself decided by R-WORDALG/c++'))
    for name in sorted(tbl):
        suf, sp = spec_for(name)
        if sp is None:
            continue
        insns, order, addr = tbl[name]
        try:
            res = analyse_routine(insns, order, addr, name)
        except StaleFlag as e:
            n += 1
            ctx.ob(rule, False, 'wordalg|%s|flags' % name, name, '%s: %s' % (name, e), cfg=cfg)
            continue
        except Unsupported as e:
            raise bm.AnalysisBroken('R-WORDALG cannot model %s: %s' % (name, e))
        for (pat, ok, msgs, npaths, notes, natoms) in res:
            n += 1
            pname = 'distinct' if not pat else ','.join('arg%d==arg%d' % (a, b) for a, b in sorted(pat.items()))
            ctx.ob(rule, ok, 'wordalg|%s|%s' % (name, pname), name,
                   '%s (%s): %s' % (name, pname, ' ;; '.join(x[:900] for x in msgs[:2])), cfg=cfg,
                   sample=dict(config=cfg, routine=name, aliasing=pname, paths=npaths, atoms=natoms, specification=THUMB_SPEC_TEXT[suf]))
    return n


# ---------------------------------------------------------------------------------------------- footprint view (R-ASM, R-SIBLING/asm, R-ALIAS)
class FootprintThumb(ThumbMachine):
    """the same interpreter, logging every memory access and register write in the form asmcheck.Routine expects"""

    def __init__(self, insns, order, entry, args, R):
        super().__init__(insns, order, entry, args)
        self.R = R
        self.cur = None

    def ld(self, st, base, off, ins):
        self.log('R', base, off, ins)
        return super().ld(st, base, off, ins)

    def stw(self, st, base, off, val, ins):
        self.log('W', base, off, ins)
        if base[0] != 'sp' and not isinstance(val, ZPoly):
            # saving a callee-saved register into an argument object would be flagged by the value analysis; here only the footprint
            st.mem[(self.region(base[1]), base[2] + off)] = ZERO
            return
        return super().stw(st, base, off, val, ins)

    def log(self, kind, base, off, ins):
        if base[0] == 'sp':
            self.R.accesses.append(asmcheck.Access(ins.addr, kind, 'sp', base[1] + off, 4, ins.text.split('\t', 1)[-1].strip()))
            self.R.min_sp = min(self.R.min_sp, base[1] + off)
        else:
            self.R.accesses.append(asmcheck.Access(ins.addr, kind, 'arg%d' % base[1], base[2] + off, 4, ins.text.split('\t', 1)[-1].strip()))

    def step(self, st, ins):
        before = dict(st.regs)
        if ins.mnem == 'bl' and getattr(ins, 'reloc', None) == self.TRAMPOLINE:
            # effect of the trampoline (FpBase<384>::reduce(res, a, p)): reads a and p, writes every byte of res
            r0, r1, r2 = st.regs.get('r0'), st.regs.get('r1'), st.regs.get('r2')
            for (kind, ptr) in (('R', r1), ('R', r2), ('W', r0)):
                if isinstance(ptr, tuple) and ptr[0] in ('p', 'sp'):
                    for i in range(12):
                        self.log(kind, ptr, 4 * i, ins)
                else:
                    self.R.problems.append('the final reduction is called with an untracked pointer at %#x' % ins.addr)
        super().step(st, ins)
        sp = st.regs.get('sp')
        if isinstance(sp, tuple) and sp[0] == 'sp':
            self.R.min_sp = min(self.R.min_sp, sp[1])
        w = set()
        fw = {}
        for r, v in st.regs.items():
            if before.get(r) is not v and before.get(r) != v:
                w.add(r)
                if isinstance(v, ZPoly) and not v.is_const() and all(self.world.atoms[a]['kind'] in ('carry', 'borrow') for a in v.atoms()):
                    lo, hi = self.world.rng(v)
                    fw[r] = bool(lo >= 0 and hi <= 1)
        # a register rewritten with an equal value still counts as written when it is a destination operand
        if ins.ops and ins.mnem not in ('str', 'stm', 'push', 'cmp', 'bl', 'bx') and ins.ops[0].rstrip('!') in st.regs and ins.mnem not in ('ldm',):
            d = ins.ops[0]
            w.add(d)
            v = st.regs.get(d)
            if isinstance(v, ZPoly) and not v.is_const() and all(self.world.atoms[a]['kind'] in ('carry', 'borrow') for a in v.atoms()):
                lo, hi = self.world.rng(v)
                fw[d] = bool(lo >= 0 and hi <= 1)
        self.R.regw[ins.addr] = w
        self.R.flagw[ins.addr] = fw


def analyse_thumb(insns, order, entry, name):
    R = asmcheck.Routine(name)
    suf, sp = spec_for(name)
    kinds = sp[0] if sp is not None else ('ptr', 'ptr', 'ptr', 'ptr')
    m = FootprintThumb(insns, order, entry, kinds, R)
    try:
        finals = m.run()
    except (Unsupported, StaleFlag) as e:
        R.problems.append('not modelled: %s' % e)
        return R
    idx = {a: i for i, a in enumerate(order)}
    # straight-line flow from the entry to the return
    a = entry
    end = None
    st = finals[0]
    while a is not None:
        ins = insns[a]
        R.insn_count += 1
        nxt = order[idx[a] + 1] if idx[a] + 1 < len(order) else None
        if ins.mnem == 'bx' or (ins.mnem == 'pop' and 'pc' in reglist(ins.ops[0])):
            R.succ[a] = []
            R.ret_addrs.append(a)
            R.rets += 1
            R.regw.setdefault(a, set())
            break
        R.succ[a] = [nxt] if nxt is not None else []
        R.regw.setdefault(a, set())
        a = nxt
    R.problems += frame_ok(st, True)
    # words of the caller's frame that are read: stack-passed arguments (AAPCS: the fifth word argument is at the entry sp), and loads
    # whose value reaches nothing the routine produces
    R.stack_arg_bytes = 4 * max(0, len(kinds) - 4)
    outs = [v for (k, v) in st.mem.items() if k[0] != 'sp' and isinstance(v, ZPoly)]
    if isinstance(st.regs.get('r0'), ZPoly):
        outs.append(st.regs['r0'])
    if st.call:
        outs += [v for v in st.call['V'] if isinstance(v, ZPoly)]
    used = set()
    for v in outs:
        used |= m.world.expand(v).atoms()
    R.dead_caller_reads = {acc.off for acc in R.accesses if acc.base == 'sp' and acc.kind == 'R' and acc.off >= R.stack_arg_bytes and ('STK_%d' % acc.off) not in used}
    R.notes = []
    if st.call and isinstance(st.call.get('V_ptr'), tuple) and st.call['V_ptr'][0] == 'sp':
        off = st.call['V_ptr'][1]
        R.notes.append('%s hands the C++ reduce trampoline a value at entry_sp%+d, i.e. %d modulo 8 for the 8-byte aligned stack pointer of a public '
                       'entry (AAPCS); the trampoline reads it as a BigInt<384>' % (name, off, off % 8))
    return R
