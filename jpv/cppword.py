import os
"""R-WORDALG for the portable C++ multi-precision layer: the same word-level algebra as jpv/asmsem.py, with the resolved,
instantiated AST as front end.

A BigInt is byte-addressed memory of word cells (its union views `words`, `dwords`, `bytes` are offsets into the same
cells; a double-word access is lo + 2^W * hi of two cells).  Unsigned arithmetic in a C type of width w is exact integer
arithmetic followed by one wrap: v = x + y + c - 2^w * k (carry atom), v = x - y - c + 2^w * b (borrow atom), truncation and
shifts split a value into lo + 2^s * hi atoms.  Loops have compile-time bounds and are unrolled.  The carry idiom
`carry = (sum < addend)` / `(sum <= addend)` is DECIDED, not pattern-matched: the comparison is evaluated for every value of
the carry atoms it mentions by interval arithmetic on the expanded difference; when both arms of `if (carry == 0) ... else ...`
leave identical states they are merged, otherwise the path forks and carries the fact.  Comparisons of input words (the
compare routine) fork with a relational fact, from which the correction tails are decided exactly as for the assembly."""
from .facts import walk, strip, loc_str, strip_tmpl
from .asmsem import ZPoly, World, ZERO, ONE, big, Unsupported


class NeedFork(Exception):
    """an undecided comparison is needed as a value: the statement is re-executed once per outcome"""

    def __init__(self, cmp):
        self.cmp = cmp


class Path:
    """one abstract state"""

    def __init__(self):
        self.mem = {}        # (objid, byte offset) -> ZPoly (one word cell)
        self.bits = {}       # carry/borrow atom -> 0/1
        self.rels = []       # (x poly, y poly, set of relations) facts from forked word comparisons
        self.trace = []      # human-readable branch decisions
        self.forced = {}     # (op, x, y) -> bool: comparisons the path has forked on
        self.ranges = {}     # atom -> (lo, hi) refinements established by the path's facts

    def fork(self):
        p = Path()
        p.mem = dict(self.mem)
        p.bits = dict(self.bits)
        p.rels = list(self.rels)
        p.trace = list(self.trace)
        p.forced = dict(self.forced)
        p.ranges = dict(self.ranges)
        return p

    def same_as(self, o):
        return self.mem == o.mem and self.rels == o.rels and self.forced == o.forced and self.ranges == o.ranges


class Frame:
    def __init__(self, fn, this):
        self.fn = fn
        self.this = this       # (objid, offset) or None
        self.vars = {}         # local/param id -> ZPoly | ('obj', objid, off)
        self.ret = None
        self.returned = False
        self.ctl = None        # 'break' / 'continue' on the way to the enclosing loop

    def copy(self):
        f = Frame(self.fn, self.this)
        f.vars = dict(self.vars)
        f.ret, f.returned, f.ctl = self.ret, self.returned, self.ctl
        return f


class St:
    """path + frame stack (copied together)"""

    def __init__(self, path, frames):
        self.p, self.frames = path, frames

    def fork(self):
        return St(self.p.fork(), [f.copy() for f in self.frames])

    @property
    def fr(self):
        return self.frames[-1]

    def equal_state(self, o):
        if not self.p.same_as(o.p) or len(self.frames) != len(o.frames):
            return False
        for a, b in zip(self.frames, o.frames):
            if a.vars != b.vars or a.ret != b.ret or a.returned != b.returned or a.ctl != b.ctl:
                return False
        return True


class CppMachine:
    def __init__(self, prog, wordbits, inputs):
        """inputs: {objid: number of words} for the input objects"""
        self.prog = prog
        self.wb = wordbits // 8
        self.W = 1 << wordbits
        self.wordbits = wordbits
        self.world = World()
        self.inputs = inputs
        self.nlocal = 0
        self.splits = {}
        self.steps = 0
        self.max_states = 4000

    def rng(self, v):
        ov = getattr(self, 'cur_ranges', None)
        if not ov:
            return self.world.rng(v)
        saved = {}
        for a, (lo, hi) in ov.items():
            at = self.world.atoms.get(a)
            if at is not None:
                saved[a] = (at['lo'], at['hi'])
                at['lo'], at['hi'] = max(at['lo'], lo), min(at['hi'], hi)
        try:
            return self.world.rng(v)
        finally:
            for a, (lo, hi) in saved.items():
                self.world.atoms[a]['lo'], self.world.atoms[a]['hi'] = lo, hi

    # ---------------- memory ----------------
    def rd_word(self, st, obj, off):
        key = (obj, off)
        if key in st.p.mem:
            return st.p.mem[key]
        if obj in self.inputs:
            if off % self.wb or off // self.wb >= self.inputs[obj] or off < 0:
                raise Unsupported('access to input %s at byte %d outside / across its words' % (obj, off))
            name = '%s_%d' % (obj, off // self.wb)
            v = self.world.input(name)
            self.world.atoms[name]['hi'] = self.W - 1
            return v
        if isinstance(obj, tuple) and obj and obj[0] == 'G':
            return self.global_word(obj[1], off, self.wb)
        if getattr(self, 'junk_locals', False) and isinstance(obj, str) and obj.startswith('loc') and off % self.wb == 0:
            # never-written bytes of a local object (the upper half of BigInt<64>'s double-word view): an arbitrary word
            self.njunk = getattr(self, 'njunk', 0) + 1
            nm = 'JUNK%d' % self.njunk
            v = self.world.input(nm)
            self.world.atoms[nm]['hi'] = self.W - 1
            st.p.mem[key] = v
            return v
        raise Unsupported('read of uninitialised memory %s+%d' % (obj, off))

    def rd(self, st, obj, off, size):
        if obj in getattr(self, 'scalars', ()):
            if (obj, off) not in st.p.mem:
                raise Unsupported('read of the unset scalar %s' % obj)
            return st.p.mem[(obj, off)]
        if size == self.wb:
            return self.rd_word(st, obj, off)
        if size == 2 * self.wb:
            return self.rd_word(st, obj, off) + self.rd_word(st, obj, off + self.wb) * self.W
        if 0 < size < self.wb and (off % self.wb) + size <= self.wb:
            # bytes of a word (little-endian in every configuration): (word >> 8k) mod 2^(8 size)
            k = off % self.wb
            word = self.rd_word(st, obj, off - k)
            hi = self.split(word, 8 * k)[1] if k else word
            return self.split(hi, 8 * size)[0]
        raise Unsupported('memory read of %d bytes' % size)

    def wr(self, st, obj, off, size, val):
        if obj in getattr(self, 'scalars', ()):
            # a cell of its own; a possibly negative value is the signed reading of the stored bits and is kept as it is
            st.p.mem[(obj, off)] = self.trunc(val, 8 * size) if (size and self.rng(val)[0] >= 0) else val
            return
        if size == self.wb:
            lo, hi = self.split(val, self.wordbits)
            st.p.mem[(obj, off)] = lo
            return
        if size == 2 * self.wb:
            v = self.trunc(val, 2 * self.wordbits)
            lo, hi = self.split(v, self.wordbits)
            st.p.mem[(obj, off)] = lo
            st.p.mem[(obj, off + self.wb)] = hi
            return
        if 0 < size < self.wb and (off % self.wb) + size <= self.wb:
            k = off % self.wb
            word = self.rd_word(st, obj, off - k)
            low = self.split(word, 8 * k)[0] if k else ZERO
            high = self.split(word, 8 * (k + size))[1] if k + size < self.wb else ZERO
            v = self.trunc(val, 8 * size) if self.rng(val)[0] >= 0 else self.wrap(val, 8 * size)
            st.p.mem[(obj, off - k)] = low + v * (1 << (8 * k)) + high * (1 << (8 * (k + size)))
            return
        raise Unsupported('memory write of %d bytes' % size)

    # ---------------- value helpers ----------------
    def split(self, v, bits):
        """(lo, hi) with v == lo + 2^bits * hi, 0 <= lo < 2^bits (v must be known non-negative)"""
        lo_, hi_ = self.rng(v)
        if lo_ < 0:
            raise Unsupported('split of a possibly negative value')
        if hi_ < (1 << bits):
            return v, ZERO
        # lo + 2^bits * hi written that way already?
        key = (v, bits)
        if key in self.splits:
            return self.splits[key]
        # v = L + 2^w * H with 0 <= L < 2^w (a double word read as two words): split H instead, so that word-level and
        # double-word-level shifts of the same data share their atoms
        w = self.wordbits
        if bits > w:
            Hc = {m_: c for m_, c in v.t.items() if c % (1 << w) == 0}
            Lc = {m_: c for m_, c in v.t.items() if c % (1 << w) != 0}
            if Hc and Lc:
                L = ZPoly(Lc)
                l0, l1 = self.rng(L)
                if l0 >= 0 and l1 < (1 << w):
                    H = ZPoly({m_: c >> w for m_, c in Hc.items()})
                    lo2, hi2 = self.split(H, bits - w)
                    r = (L + lo2 * (1 << w), hi2)
                    self.splits[key] = r
                    return r
        # v == L + 2^bits * H with 0 <= L < 2^bits as written (Euclidean division is unique and v >= 0, so H is the quotient)
        r = self._split_as_written(v, bits)
        if r is not None:
            self.splits[key] = r
            return r
        # cuts of one value at several positions share their pieces: the larger cut is the smaller one plus a cut of its quotient
        cuts = self.__dict__.setdefault('cuts', {})
        lower = [a for a in cuts.get(v, ()) if a < bits]
        if lower:
            a = max(lower)
            lo_a, hi_a = self.split(v, a)
            mid, hi_b = self.split(hi_a, bits - a)
            r = (lo_a + mid * (1 << a), hi_b)
            self.splits[key] = r
            cuts.setdefault(v, set()).add(bits)
            return r
        higher = [a for a in cuts.get(v, ()) if a > bits]
        if higher:
            c = min(higher)
            lo_c, hi_c = self.split(v, c)
            l, mid = self.split(lo_c, bits)
            r = (l, mid + hi_c * (1 << (c - bits)))
            self.splits[key] = r
            cuts.setdefault(v, set()).add(bits)
            return r
        # ... or after undoing the latest computations (c - (c mod 32) is a multiple of 32 once the remainder is written out)
        cur = v
        for _ in range(8):
            cur, more = self.expand_newest(cur)
            if not more:
                break
            r = self._split_as_written(cur, bits, vtop=hi_)
            if r is not None:
                self.splits[key] = r
                return r
        cuts.setdefault(v, set()).add(bits)
        va = v.single_atom()
        if va is not None and v == ZPoly.var(va) and self.world.atoms[va].get('defn') is None and getattr(self, 'topdown_splits', False):
            # a free word cut into two pieces: the word is DEFINED as lo + 2^bits * hi with both pieces free, so that every expression
            # in it is rewritten in terms of the finer pieces (relations between several cuts become syntactic)
            hn = self.world.new('h', 'hi', 0, hi_ >> bits, weight=1 << bits)
            ln = self.world.new('p', 'val', 0, (1 << bits) - 1)
            self.world.atoms[va]['defn'] = ZPoly.var(ln) + ZPoly.var(hn) * (1 << bits)
            self.world._exp = {}
            if (hi_ & (hi_ + 1)) != 0:
                # the pieces inherit the bound of the whole as a fact (their own ranges are independent)
                self.__dict__.setdefault('global_facts', []).append((ZPoly.var(ln) + ZPoly.var(hn) * (1 << bits), ZPoly.const(hi_), frozenset({'lt', 'eq'}), 'range'))
            r = (ZPoly.var(ln), ZPoly.var(hn))
            self.splits[key] = r
            return r
        # syntactic shortcut: v = a + 2^bits * b with a in range
        hn = self.world.new('h', 'hi', 0, hi_ >> bits, weight=1 << bits)
        ln = self.world.new('l', 'lo', 0, (1 << bits) - 1, defn=v - ZPoly.var(hn) * (1 << bits), partner=hn, weight=1 << bits)
        self.world.atoms[hn]['partner'] = ln
        r = (ZPoly.var(ln), ZPoly.var(hn))
        self.splits[key] = r
        return r

    def _split_as_written(self, v, bits, vtop=None):
        m_ = 1 << bits
        Hc = {mm: c // m_ for mm, c in v.t.items() if c % m_ == 0}
        Lc = {mm: c for mm, c in v.t.items() if c % m_ != 0}
        # the constant term is divided with remainder
        c0 = v.t.get((), 0)
        if c0 % m_:
            Lc[()] = c0 % m_
            if c0 // m_:
                Hc[()] = c0 // m_
        if not Hc:
            return None
        L = ZPoly(Lc)
        l0, l1 = self.rng(L)
        if l0 >= 0 and l1 < m_:
            H = ZPoly(Hc)
            h0, h1 = self.rng(H)
            top = (self.rng(v)[1] if vtop is None else vtop) >> bits
            if not (h0 >= 0 and h1 <= top):
                # the quotient is known to lie in [0, max(v) >> bits]; keep that range with it
                hn = self.world.new('v', 'val', 0, max(top, 0), defn=H)
                H = ZPoly.var(hn)
            return (L, H)
        if l0 >= 0 and l1 < 2 * m_ and getattr(self, 'topdown_splits', False):
            # the low part overflows its width at most once: one carry moves from it into the quotient
            kn = self.world.new('k', 'carry', 0, 1, weight=m_)
            vn = self.world.new('v', 'val', 0, m_ - 1, defn=L - ZPoly.var(kn) * m_)
            self.world.atoms[kn]['comp'] = vn
            top = (self.rng(v)[1] if vtop is None else vtop) >> bits
            hn = self.world.new('v', 'val', 0, max(top, 0), defn=ZPoly(Hc) + ZPoly.var(kn))
            return (ZPoly.var(vn), ZPoly.var(hn))
        return None

    def trunc(self, v, bits):
        return self.split(v, bits)[0]

    def wrap(self, v, bits, node=None):
        """value of an unsigned expression of width `bits` whose exact integer value is v"""
        lo_, hi_ = self.rng(v)
        m = 1 << bits
        if lo_ >= 0 and hi_ < m:
            return v
        if lo_ < 0 or hi_ >= m:
            # every rewriting of v through the defining identities has the same value: take the best interval among a few of them
            cur = v
            for _ in range(8):
                cur, more = self.expand_newest(cur)
                if not more:
                    break
                l2, h2 = self.rng(cur)
                lo_, hi_ = max(lo_, l2), min(hi_, h2)
            if lo_ >= 0 and hi_ < m:
                if v.is_const() or v.single_atom() is not None:
                    return v
                vn = self.world.new('v', 'val', lo_, hi_, defn=v)
                return ZPoly.var(vn)
        if lo_ >= 0:
            if hi_ < 2 * m:
                kn = self.world.new('k', 'carry', 0, 1, weight=m)
                vn = self.world.new('v', 'val', 0, m - 1, defn=v - ZPoly.var(kn) * m)
                self.world.atoms[kn]['comp'] = vn
                return ZPoly.var(vn)
            return self.trunc(v, bits)
        if hi_ < m and lo_ >= -m:
            bn = self.world.new('b', 'borrow', 0, 1, weight=m)
            vn = self.world.new('v', 'val', 0, m - 1, defn=v + ZPoly.var(bn) * m)
            self.world.atoms[bn]['comp'] = vn
            return ZPoly.var(vn)
        raise Unsupported('arithmetic that can wrap both ways at %s' % (loc_str(node) if node else '?'))

    def subst(self, st, v):
        if not st.p.bits:
            return v
        return v.subs({a: ZPoly.const(b) for a, b in st.p.bits.items()})

    # ---------------- comparisons ----------------
    def expand_newest(self, p):
        """replace the most recently created defined atom of p by its definition (undo the latest computation first)"""
        best = None
        for a in p.atoms():
            if self.world.atoms[a].get('defn') is not None:
                q = self.world._seq(a)
                if best is None or q > best[0]:
                    best = (q, a)
        if best is None:
            return p, False
        return p.subs({best[1]: self.world.atoms[best[1]]['defn']}), True

    def decide_cmp(self, st, op, x, y):
        """truth value of x op y as a 0/1 polynomial when the bit atoms decide it, else None.  The difference is expanded
        through the defining identities one atom at a time, newest first: too little expansion hides the relation between a
        sum and its addend, too much loses the range of intermediate words"""
        fk = (op, x, y)
        if fk in st.p.forced:
            return ZPoly.const(1 if st.p.forced[fk] else 0)
        D = self.subst(st, x - y)
        for depth in range(0, 40):
            r = self._decide_at(op, D)
            if r is not None:
                return r
            D, more = self.expand_newest(D)
            D = self.subst(st, D)
            if not more:
                break
        return None

    def _decide_at(self, op, D):
        ats = [a for a in D.atoms() if (self.world.atoms[a]['lo'], self.world.atoms[a]['hi']) == (0, 1)
               and all(e == 1 for m_ in D.t for (b, e) in m_ if b == a)]
        if len(ats) > 4:
            return None

        def truth(lo, hi):
            if op == '<':
                return True if hi < 0 else (False if lo >= 0 else None)
            if op == '<=':
                return True if hi <= 0 else (False if lo > 0 else None)
            if op == '>':
                return True if lo > 0 else (False if hi <= 0 else None)
            if op == '>=':
                return True if lo >= 0 else (False if hi < 0 else None)
            if op == '==':
                return True if lo == hi == 0 else (False if (lo > 0 or hi < 0) else None)
            if op == '!=':
                return False if lo == hi == 0 else (True if (lo > 0 or hi < 0) else None)
            return None
        table = {}
        n = len(ats)
        for mask in range(1 << n):
            asg = {a: ZPoly.const((mask >> i) & 1) for i, a in enumerate(ats)}
            lo, hi = self.rng(D.subs(asg))
            t = truth(lo, hi)
            if t is None:
                return None
            table[mask] = int(t)
        vals = set(table.values())
        if len(vals) == 1:
            return ZPoly.const(vals.pop())
        for i, a in enumerate(ats):
            if all(table[m] == ((m >> i) & 1) for m in table):
                return ZPoly.var(a)
            if all(table[m] == 1 - ((m >> i) & 1) for m in table):
                return ONE - ZPoly.var(a)
        return None

    # ---------------- expressions ----------------
    def tbits(self, e):
        t = e.get('t') or {}
        return 8 * (t.get('size') or 0), bool(t.get('signed'))

    def lvalue(self, st, e):
        """(objid, byte offset) of an lvalue expression"""
        e = strip(e) if e.get('k') == 'load' else e
        k = e.get('k')
        if k == 'ref':
            v = st.fr.vars.get(e.get('id')) if e.get('rk') in ('local', 'param') else None
            if isinstance(v, tuple) and v[0] == 'obj':
                return (v[1], v[2])
            if e.get('rk') == 'global':
                return (('G', e['g']), 0)
            raise Unsupported('reference to %s at %s' % (e.get('name'), loc_str(e)))
        if k == 'this':
            return st.fr.this
        if k == 'member':
            b = self.pointer(st, e['base']) if e.get('arrow') else self.lvalue(st, e['base'])
            return (b[0], b[1] + (e.get('off') or 0))
        if k == 'index':
            b = self.pointer(st, e['base'])
            i = self.int_const(st, e['idx'])
            es = ((e.get('t') or {}).get('size')) or 1
            return (b[0], b[1] + i * es)
        if k == 'un' and e.get('op') == '*':
            return self.pointer(st, e['e'])
        if k == 'cast':
            return self.lvalue(st, e['e'])
        raise Unsupported('lvalue %s at %s' % (k, loc_str(e)))

    def pointer(self, st, e):
        k = e.get('k')
        if k == 'this':
            return st.fr.this
        if k == 'cast':
            if e.get('ck') == 'ArrayToPointerDecay':
                return self.lvalue(st, e['e'])
            return self.pointer(st, e['e'])
        if k == 'un' and e.get('op') == '&':
            return self.lvalue(st, e['e'])
        if k == 'load':
            inner = e['e']
            if inner.get('k') == 'ref':
                v = st.fr.vars.get(inner.get('id'))
                if isinstance(v, tuple) and v[0] == 'obj':
                    return (v[1], v[2])
            if isinstance(inner, dict) and inner.get('k') == 'un' and inner.get('op') in ('++', '--'):
                return self.pointer(st, inner)
            raise Unsupported('pointer loaded from memory at %s' % loc_str(e))
        if k == 'un' and e.get('op') in ('++', '--'):
            # *--p / *p++ : the pointer local is stepped, the expression is its new (prefix) or old (postfix) value
            l = strip(e['e'])
            cur = st.fr.vars.get(l.get('id')) if l.get('k') == 'ref' else None
            if isinstance(cur, tuple) and cur[0] == 'obj' and (l.get('t') or {}).get('k') == 'ptr':
                old = (cur[1], cur[2])
                self.eval(st, e)
                new = st.fr.vars[l['id']]
                return old if e.get('post') else (new[1], new[2])
            raise Unsupported('step of a pointer that is not a local at %s' % loc_str(e))
        if k == 'bin' and e.get('op') in ('+', '-'):
            b = self.pointer(st, e['lhs'])
            i = self.int_const(st, e['rhs'])
            es = (((e.get('t') or {}).get('pointee') or {}).get('size')) or 1
            return (b[0], b[1] + (i if e['op'] == '+' else -i) * es)
        raise Unsupported('pointer expression %s at %s' % (k, loc_str(e)))

    def int_const(self, st, e):
        v = self.subst(st, self.eval(st, e))
        if not v.is_const():
            raise Unsupported('index / bound is not a compile-time value at %s' % loc_str(e))
        return v.const_value()

    def bit_or(self, a, b, e=None):
        """a | b for operands whose set bits cannot overlap: one of them is a multiple of 2^k and the other is below 2^k, or one is a
        single constant bit that is clear in the other"""
        for (x, y) in ((a, b), (b, a)):
            lo, hi = self.rng(y)
            sh = hi.bit_length()
            if lo >= 0 and (x.is_zero() or x.coeff_gcd_divisible(1 << sh)):
                return x + y
        for (x, y) in ((a, b), (b, a)):
            if y.is_const() and y.const_value() > 0 and (y.const_value() & (y.const_value() - 1)) == 0:
                bpos = y.const_value().bit_length() - 1
                lo_, hi_ = self.split(x, bpos)
                bitv, rest = self.split(hi_, 1)
                return x + (ONE - bitv) * y.const_value()
        raise Unsupported('bitwise or of overlapping values at %s (%r | %r)' % (loc_str(e or {}), a, b))

    def divmod_const(self, a, d, e=None):
        """quotient and remainder of a non-negative value by a positive constant:  a == d*q + r,  0 <= r < d  (one pair of atoms per
        distinct dividend, so that `a / d` and `a % d` written separately agree)"""
        lo, hi = self.rng(a)
        if lo < 0:
            raise Unsupported('division of a possibly negative value at %s' % loc_str(e or {}))
        if hi < d:
            return ZERO, a
        cache = self.__dict__.setdefault('_divcache', {})
        key = (a, d)
        if key not in cache:
            qn = self.world.new('q', 'quot', lo // d, hi // d, weight=d)
            rn = self.world.new('r', 'val', 0, min(d - 1, hi), defn=a - ZPoly.var(qn) * d)
            cache[key] = (ZPoly.var(qn), ZPoly.var(rn))
        return cache[key]

    def eval(self, st, e, nowrap=False):
        """exact value of an integer expression as a polynomial (wrapped to its type unless nowrap)"""
        k = e.get('k')
        if k == 'load':
            inner = e['e']
            if inner.get('k') == 'ref' and inner.get('rk') in ('local', 'param'):
                v = st.fr.vars.get(inner['id'])
                if isinstance(v, ZPoly):
                    return v
                if v is None and 'cv' in e:
                    return ZPoly.const(int(e['cv']))
                raise Unsupported('read of %s at %s' % (inner.get('name'), loc_str(e)))
            if inner.get('k') == 'ref' and inner.get('rk') == 'global':
                if 'cv' in e:
                    return ZPoly.const(int(e['cv']))
                if 'cv' in inner:
                    return ZPoly.const(int(inner['cv']))
                from . import consts
                g = self.prog.globals.get(inner.get('g'))
                if g is not None and 'value' in g:
                    v = consts.as_int(consts.decode(g['value']))
                    if isinstance(v, int):
                        return ZPoly.const(v)
                # static constexpr members of a class template instantiated on demand: evaluate the initialiser
                if g is not None and 'init' in g:
                    try:
                        return self.eval(st, g['init'])
                    except Unsupported:
                        pass
                raise Unsupported('global %s has no constant value' % inner.get('g'))
            obj, off = self.lvalue(st, inner)
            size = ((e.get('t') or {}).get('size')) or 0
            if isinstance(obj, tuple) and obj and obj[0] == 'G':
                return self.global_word(obj[1], off, size)
            return self.rd(st, obj, off, size)
        if 'cv' in e and k in ('lit', 'sizeof', 'ref', 'bin', 'cast', 'un'):
            return ZPoly.const(int(e['cv']))
        if 'bool' in e and k == 'lit':
            return ZPoly.const(int(bool(e['bool'])))
        if k == 'cast':
            v = self.eval(st, e['e'])
            bits, signed = self.tbits(e)
            t = e.get('t') or {}
            if t.get('k') == 'bool':
                return self.truthy(st, v)
            if t.get('k') in ('int', 'enum') and bits and not signed:
                lo, hi = self.rng(v)
                if lo < 0:
                    return self.wrap(v, bits, e)
                return self.trunc(v, bits)
            return v
        if k == 'bin':
            op = e['op']
            bits, signed = self.tbits(e)
            if op in ('+', '-', '*'):
                same = lambda c: c.get('k') == 'bin' and c.get('op') in ('+', '-') and (c.get('t') or {}).get('s') == (e.get('t') or {}).get('s')
                a = self.eval(st, e['lhs'], nowrap=same(e['lhs']) and op in ('+', '-'))
                b = self.eval(st, e['rhs'], nowrap=same(e['rhs']) and op == '+')
                v = {'+': a + b, '-': a - b, '*': a * b}[op]
                if signed or nowrap or not bits:
                    return v
                if op == '*':
                    lo, hi = self.rng(v)
                    if hi >= (1 << bits):
                        return self.trunc_product(a, b, bits)
                    return v
                return self.wrap(v, bits, e)
            if op in ('<', '<=', '>', '>=', '==', '!=') and ((strip(e['lhs']).get('t') or {}).get('k') == 'ptr' or (strip(e['rhs']).get('t') or {}).get('k') == 'ptr'):
                pa, pb = self.pointer(st, e['lhs']), self.pointer(st, e['rhs'])
                if pa[0] != pb[0]:
                    raise Unsupported('comparison of pointers into different objects at %s' % loc_str(e))
                r = {'<': pa[1] < pb[1], '<=': pa[1] <= pb[1], '>': pa[1] > pb[1], '>=': pa[1] >= pb[1], '==': pa[1] == pb[1], '!=': pa[1] != pb[1]}[op]
                return ZPoly.const(1 if r else 0)
            if op in ('<', '<=', '>', '>=', '==', '!='):
                a, b = self.eval(st, e['lhs']), self.eval(st, e['rhs'])
                r = self.decide_cmp(st, op, a, b)
                if r is not None:
                    return r
                return ('cmp', op, a, b)
            if op == '>>':
                a = self.eval(st, e['lhs'])
                c = self.int_const(st, e['rhs'])
                return self.split(a, c)[1] if c else a
            if op == '<<':
                a = self.eval(st, e['lhs'])
                c = self.int_const(st, e['rhs'])
                if signed or not bits:
                    return a * (1 << c)
                lo, hi = self.split(a, bits - c)
                return lo * (1 << c)
            if op == '|':
                a, b = self.eval(st, e['lhs']), self.eval(st, e['rhs'])
                for (x, y) in ((a, b), (b, a)):
                    hi = self.rng(y)[1]
                    sh = hi.bit_length()
                    if self.rng(y)[0] >= 0 and (x.is_zero() or x.coeff_gcd_divisible(1 << sh)):
                        return x + y
                raise Unsupported('bitwise or of overlapping values at %s (%r [%s] | %r [%s])' % (loc_str(e), a, self.rng(a), b, self.rng(b)))
            if op == '&':
                a, b = self.eval(st, e['lhs']), self.eval(st, e['rhs'])
                for (x, y) in ((a, b), (b, a)):
                    if y.is_const():
                        m = y.const_value()
                        if m < 0 and bits:
                            m %= (1 << bits)
                        if m >= 0 and (m & (m + 1)) == 0:
                            return self.trunc(x, m.bit_length())
                        if m >= 0 and self.rng(x)[0] >= 0:
                            # a general constant mask: the sum of the fields it selects
                            top = self.rng(x)[1].bit_length()
                            out = ZPoly()
                            pos = 0
                            while pos < top:
                                if (m >> pos) & 1:
                                    end_ = pos
                                    while (m >> end_) & 1 and end_ < top:
                                        end_ += 1
                                    hi_ = self.split(x, pos)[1] if pos else x
                                    out = out + self.split(hi_, end_ - pos)[0] * (1 << pos)
                                    pos = end_
                                else:
                                    pos += 1
                            return out
                raise Unsupported('bitwise and at %s' % loc_str(e))
            if op in ('&&', '||'):
                raise Unsupported('logical operator as a value at %s' % loc_str(e))
            if op in ('/', '%'):
                a, b = self.eval(st, e['lhs']), self.eval(st, e['rhs'])
                if a.is_const() and b.is_const() and b.const_value():
                    return ZPoly.const(a.const_value() // b.const_value() if op == '/' else a.const_value() % b.const_value())
                if b.is_const() and b.const_value() > 0 and not signed:
                    q, r = self.divmod_const(a, b.const_value(), e)
                    return q if op == '/' else r
            raise Unsupported('operator %s at %s' % (op, loc_str(e)))
        if k == 'cond':
            c = self.eval(st, e['c'])
            c = self.as_bit(st, c)
            a, b = self.eval(st, e['then']), self.eval(st, e['else'])
            if c is not None and isinstance(a, ZPoly) and isinstance(b, ZPoly):
                if c.is_const():
                    return a if c.const_value() else b
                return c * a + (ONE - c) * b
            cv = self.eval(st, e['c'])
            if isinstance(cv, tuple) and cv[0] == 'cmp':
                raise NeedFork(cv)
            raise Unsupported('conditional expression on run-time data at %s' % loc_str(e))
        if k == 'un' and e.get('op') in ('++', '--'):
            l = strip(e['e'])
            cur = st.fr.vars.get(l.get('id')) if l.get('k') == 'ref' else None
            if isinstance(cur, tuple) and cur[0] == 'obj' and (l.get('t') or {}).get('k') == 'ptr':
                esz = ((l['t'].get('pointee') or {}).get('size')) or 0
                if not esz:
                    raise Unsupported('pointer step over an incomplete type at %s' % loc_str(e))
                st.fr.vars[l['id']] = ('obj', cur[1], cur[2] + (esz if e['op'] == '++' else -esz))
                return ZERO
            if not isinstance(cur, ZPoly):
                raise Unsupported('increment of a non-local at %s' % loc_str(e))
            new_ = cur + (1 if e['op'] == '++' else -1)
            st.fr.vars[l['id']] = new_
            return cur if e.get('post') else new_
        if k == 'un':
            if e['op'] == '-':
                return -self.eval(st, e['e'])
            if e['op'] == '!':
                v = self.as_bit(st, self.eval(st, e['e']))
                if v is None:
                    raise Unsupported('negation of an undecided condition at %s' % loc_str(e))
                return ONE - v
        if k == 'call':
            sts = self.call(st, e)
            if len(sts) != 1:
                raise Unsupported('call with several outcomes inside an expression at %s' % loc_str(e))
            r = sts[0].fr.ret_from_call
            st.p, st.frames = sts[0].p, sts[0].frames
            return r
        raise Unsupported('expression %s at %s' % (k, loc_str(e)))

    def trunc_product(self, a, b, bits):
        prod = a * b
        key = ('tp', prod, bits)
        if key in self.splits:
            return self.splits[key]
        un = self.world.new('u', 'trunc', 0, (1 << bits) - 1, rel=(a, b))
        self.splits[key] = ZPoly.var(un)
        return ZPoly.var(un)

    def global_word(self, gid, off, size):
        from . import consts
        g = self.prog.globals.get(gid)
        hops = 0
        while g is not None and isinstance(g.get('value'), dict) and 'lvalue' in g['value'] and hops < 8:
            # a constexpr reference (Fp::p_value) names another constant
            off += g['value'].get('offset') or 0
            gid = g['value']['lvalue']
            g = self.prog.globals.get(gid)
            hops += 1
        if g is None or 'value' not in g:
            raise Unsupported('constant %s has no compile-time value' % gid)
        v = consts.as_int(consts.decode(g['value']))
        if not isinstance(v, int):
            raise Unsupported('constant %s is not an integer' % gid)
        return ZPoly.const((v >> (8 * off)) & ((1 << (8 * size)) - 1))

    def truthy(self, st, v):
        if isinstance(v, tuple):
            return v
        v = self.subst(st, v)
        if v.is_const():
            return ZPoly.const(1 if v.const_value() else 0)
        lo, hi = self.rng(v)
        if (lo, hi) == (0, 1) or (lo >= 0 and hi <= 1):
            return v
        r = self.decide_cmp(st, '!=', v, ZERO)
        if r is not None:
            return r
        return ('cmp', '!=', v, ZERO)

    def as_bit(self, st, v):
        """0/1 polynomial or None"""
        if isinstance(v, tuple):
            return None
        v = self.subst(st, v)
        if v.is_const():
            return ZPoly.const(1 if v.const_value() else 0)
        lo, hi = self.rng(v)
        if lo >= 0 and hi <= 1:
            return v
        return None

    # ---------------- conditions: returns [(outcome, state)] ----------------
    def cond(self, st, e):
        e0 = e
        while isinstance(e, dict) and e.get('k') == 'cast' and e.get('ck') in ('NoOp', 'IntegralCast', 'IntegralToBoolean'):
            e = e['e']
        k = e.get('k')
        if k == 'bin' and e.get('op') == '&&':
            out = []
            for (r, s) in self.cond(st, e['lhs']):
                if not r:
                    out.append((False, s))
                else:
                    out += self.cond(s, e['rhs'])
            return out
        if k == 'bin' and e.get('op') == '||':
            out = []
            for (r, s) in self.cond(st, e['lhs']):
                if r:
                    out.append((True, s))
                else:
                    out += self.cond(s, e['rhs'])
            return out
        if k == 'un' and e.get('op') == '!':
            return [(not r, s) for (r, s) in self.cond(st, e['e'])]
        if k == 'call' or (k == 'cast' and strip(e['e']).get('k') == 'call'):
            c = e if k == 'call' else strip(e['e'])
            out = []
            for s in self.call(st, c):
                v = s.fr.ret_from_call
                out += self.branch_on(s, v, e0)
            return out
        if k == 'bin' and e.get('op') in ('<', '<=', '>', '>=', '==', '!=') and any(x.get('k') == 'call' for x in walk(e)):
            # comparison of a call result with a constant (compare(...) >= 0)
            calls = [x for x in (strip(e['lhs']), strip(e['rhs'])) if x.get('k') == 'call']
            if len(calls) == 1:
                out = []
                for s in self.call(st, calls[0]):
                    rv = s.fr.ret_from_call
                    other = e['rhs'] if strip(e['lhs']) is calls[0] else e['lhs']
                    ov = self.eval(s, other)
                    a, b = (rv, ov) if strip(e['lhs']) is calls[0] else (ov, rv)
                    r = self.decide_cmp(s, e['op'], a, b)
                    out += self.branch_on(s, r if r is not None else ('cmp', e['op'], a, b), e0)
                return out
        v = self.eval(st, e)
        if isinstance(v, ZPoly):
            v = self.truthy(st, v)
        return self.branch_on(st, v, e0)

    def branch_on(self, st, v, node):
        if isinstance(v, tuple) and v[0] == 'cmp':
            _, op, a, b = v
            outs = []
            for val in (True, False):
                s2 = st.fork()
                rel = {'<': {'lt'}, '<=': {'lt', 'eq'}, '>': {'gt'}, '>=': {'gt', 'eq'}, '==': {'eq'}, '!=': {'lt', 'gt'}}[op]
                if not val:
                    rel = {'lt', 'eq', 'gt'} - rel
                s2.p.rels.append((a, b, frozenset(rel)))
                s2.p.trace.append('%s %s at %s' % (op, 'holds' if val else 'fails', loc_str(node)))
                if self.rels_consistent(s2):
                    outs.append((val, s2))
            return outs
        b = self.as_bit(st, v)
        if b is None:
            raise Unsupported('condition is neither decided nor a carry bit at %s' % loc_str(node))
        if b.is_const():
            return [(bool(b.const_value()), st)]
        a = list(b.atoms())
        if len(a) != 1:
            raise Unsupported('condition mixes several carry bits at %s' % loc_str(node))
        outs = []
        for val in (1, 0):
            s2 = st.fork()
            s2.p.bits[a[0]] = val
            r = b.subs({a[0]: ZPoly.const(val)}).const_value()
            s2.p.trace.append('%s=%d at %s' % (a[0], val, loc_str(node)))
            outs.append((bool(r), s2))
        return outs

    def rels_consistent(self, st):
        seen = {}
        for (a, b, r) in st.p.rels:
            key = (a, b)
            cur = seen.get(key, frozenset({'lt', 'eq', 'gt'})) & r
            if not cur:
                return False
            seen[key] = cur
        return True

    # ---------------- statements: each returns a list of states ----------------
    def exec(self, st, s):
        if s is None or st.fr.returned or st.fr.ctl:
            return [st]
        if s.get('k') in ('expr', 'decl', 'return'):
            try:
                snap = st.fork()
                return self.exec1(st, s)
            except NeedFork as nf:
                _, op, a, b = nf.cmp
                outs = []
                for val in (True, False):
                    s2 = snap.fork()
                    s2.p.forced[(op, a, b)] = val
                    rel = {'<': {'lt'}, '<=': {'lt', 'eq'}, '>': {'gt'}, '>=': {'gt', 'eq'}, '==': {'eq'}, '!=': {'lt', 'gt'}}[op]
                    if not val:
                        rel = {'lt', 'eq', 'gt'} - rel
                    s2.p.rels.append((a, b, frozenset(rel)))
                    s2.p.trace.append('%s %s at %s' % (op, 'holds' if val else 'fails', loc_str(s)))
                    if self.rels_consistent(s2):
                        outs += self.exec(s2, s)
                return outs
        return self.exec1(st, s)

    def exec1(self, st, s):
        self.cur_ranges = st.p.ranges
        self.cur_bits = st.p.bits
        self.steps += 1
        if self.steps > 2000000:
            raise Unsupported('too many steps')
        if (self.steps & 255) == 0:
            _check_budget(self)
        k = s.get('k')
        if k == 'compound':
            sts = [st]
            for c in s['body']:
                nxt = []
                for x in sts:
                    nxt += self.exec(x, c)
                sts = self.merge(nxt)
                if len(sts) > self.max_states:
                    raise Unsupported('state explosion')
            return sts
        if k == 'constexpr_if':
            return self.exec(st, s.get('taken'))
        if k == 'decl':
            if len(s['vars']) == 1 and (s['vars'][0].get('t') or {}).get('k') == 'ref' and s['vars'][0].get('init') is not None:
                # `const T& r = c ? a : b;`: one state per outcome, the reference bound to the chosen object
                v = s['vars'][0]
                ini = v['init']
                while isinstance(ini, dict) and ini.get('k') in ('cast', 'paren', 'bind', 'materialize') and isinstance(ini.get('e'), dict):
                    ini = ini['e']
                if isinstance(ini, dict) and ini.get('k') == 'cond':
                    outs = []
                    for (r, s2) in self.cond(st, ini['c']):
                        o = self.lvalue(s2, ini['then'] if r else ini['else'])
                        s2.fr.vars[v['id']] = ('obj', o[0], o[1])
                        outs.append(s2)
                    return outs
            if len(s['vars']) == 1 and (s['vars'][0].get('t') or {}).get('k') == 'bool' and s['vars'][0].get('init') is not None:
                # a boolean local: one state per outcome of its initialiser
                v = s['vars'][0]
                snap = st.fork()
                try:
                    self.decl(st, v)
                    return [st]
                except Unsupported as ex:
                    if 'undecided comparison' not in str(ex) and 'several outcomes' not in str(ex):
                        raise
                outs = []
                for (r, s2) in self.cond(snap, v['init']):
                    s2.fr.vars[v['id']] = ZPoly.const(1 if r else 0)
                    outs.append(s2)
                return outs
            for v in s['vars']:
                self.decl(st, v)
            return [st]
        if k == 'expr':
            return self.expr_stmt(st, s['e'])
        if k == 'return':
            if s.get('e') is not None:
                e = s['e']
                e0 = strip(e)
                while isinstance(e0, dict) and e0.get('k') == 'cast' and e0.get('ck') in ('NoOp', 'IntegralCast', 'IntegralToBoolean', 'LValueToRValue'):
                    e0 = strip(e0['e'])
                if isinstance(e0, dict) and e0.get('k') == 'bin' and e0.get('op') in ('==', '!=', '<', '<=', '>', '>=') and \
                        any(isinstance(x, dict) and x.get('k') == 'call' for x in walk(e0)):
                    outs = []
                    for (r, s2) in self.cond(st, e0):
                        s2.fr.ret = ZPoly.const(1 if r else 0)
                        s2.fr.returned = True
                        outs.append(s2)
                    return outs
                if isinstance(e0, dict) and e0.get('k') == 'call':
                    # `return f(...)` where f has several outcomes: one returning state per outcome
                    outs = []
                    depth = len(st.frames)
                    for s2 in self.call(st, e0):
                        rv = s2.fr.ret_from_call
                        if isinstance(rv, tuple):
                            for (r, s3) in self.branch_on(s2, rv, e):
                                s3.fr.ret = ZPoly.const(1 if r else 0)
                                s3.fr.returned = True
                                outs.append(s3)
                            continue
                        s2.fr.ret = rv
                        s2.fr.returned = True
                        outs.append(s2)
                    return outs
                try:
                    v = self.eval(st, e)
                except Unsupported:
                    raise
                if isinstance(v, tuple):
                    outs = []
                    for (r, s2) in self.branch_on(st, v, e):
                        s2.fr.ret = ZPoly.const(1 if r else 0)
                        s2.fr.returned = True
                        outs.append(s2)
                    return outs
                st.fr.ret = v
            st.fr.returned = True
            return [st]
        if k == 'if':
            outs = []
            for (r, s2) in self.cond(st, s['c']):
                outs += self.exec(s2, s['then'] if r else s.get('else'))
            return self.merge(outs)
        if k == 'for' and id(s) in getattr(self, 'loop_summaries', {}):
            return self.loop_summaries[id(s)](st)
        if k == 'for':
            sts = self.exec(st, s.get('init')) if s.get('init') else [st]
            done = []
            for _ in range(5000):
                nxt = []
                for x in sts:
                    if x.fr.returned:
                        done.append(x)
                        continue
                    if s.get('c') is None:
                        raise Unsupported('unbounded loop at %s' % loc_str(s))
                    for (r, x2) in self.cond(x, s['c']):
                        if not r:
                            done.append(x2)
                            continue
                        for y in self.exec(x2, s['body']):
                            if y.fr.ctl == 'break':
                                y.fr.ctl = None
                                done.append(y)
                                continue
                            y.fr.ctl = None
                            if s.get('inc') is not None and not y.fr.returned:
                                nxt += self.expr_stmt(y, s['inc'])
                            else:
                                nxt.append(y)
                sts = self.merge(nxt)
                if not sts:
                    return self.merge(done)
                if len(sts) + len(done) > self.max_states:
                    raise Unsupported('state explosion in loop at %s' % loc_str(s))
            raise Unsupported('loop bound at %s' % loc_str(s))
        if k in ('while', 'do') and id(s) in getattr(self, 'loop_summaries', {}):
            return self.loop_summaries[id(s)](st)
        if k in ('while', 'do'):
            # unrolled like `for`: every iteration's condition must be decided or forked on
            sts = [st]
            done = []
            first = (k == 'do')
            for _ in range(5000):
                nxt = []
                for x in sts:
                    if x.fr.returned:
                        done.append(x)
                        continue
                    for (r, x2) in ([(True, x)] if first else self.cond(x, s['c'])):
                        if not r:
                            done.append(x2)
                            continue
                        for y in self.exec(x2, s['body']):
                            if y.fr.ctl == 'break':
                                y.fr.ctl = None
                                done.append(y)
                                continue
                            y.fr.ctl = None
                            nxt.append(y)
                first = False
                sts = self.merge(nxt)
                if not sts:
                    return self.merge(done)
                if len(sts) + len(done) > self.max_states:
                    raise Unsupported('state explosion in loop at %s' % loc_str(s))
            raise Unsupported('loop bound at %s' % loc_str(s))
        if k in ('null',):
            return [st]
        if k in ('break', 'continue'):
            st.fr.ctl = k
            return [st]
        raise Unsupported('statement %s at %s' % (k, loc_str(s)))

    def merge(self, sts):
        """drop the path facts that no longer matter: states that are equal up to the facts that led to them are one state"""
        out = []
        for s in sts:
            for o in out:
                if s.equal_state(o):
                    # keep only the facts both agree on
                    o.p.bits = {a: v for a, v in o.p.bits.items() if s.p.bits.get(a) == v}
                    break
            else:
                out.append(s)
        return out

    def decl(self, st, v):
        t = v.get('t') or {}
        init = v.get('init')
        k = t.get('k')
        if k in ('record', 'union', 'array'):
            self.nlocal += 1
            obj = 'loc%d' % self.nlocal
            st.fr.vars[v['id']] = ('obj', obj, 0)
            if init is not None and init.get('k') in ('copyctor', 'load', 'member', 'ref', 'cast') and (init.get('t') or {}).get('k') in ('record', 'union'):
                # copy-initialisation from an lvalue of the same type
                x = init
                while isinstance(x, dict) and x.get('k') in ('copyctor', 'load', 'cast') and x.get('e') is not None:
                    x = x['e']
                src = self.lvalue(st, x)
                size = t.get('size') or 0
                for woff in range(0, size, self.wb):
                    st.p.mem[(obj, woff)] = self.rd_word(st, src[0], src[1] + woff)
                return
            if init is not None and init.get('k') not in ('defaultinit',):
                cells = {}
                self.init_cells(st, init, 0, cells)
                size = t.get('size') or 0
                for woff in range(0, size, self.wb):
                    acc = ZPoly()
                    for (off, (sz, val)) in cells.items():
                        if woff <= off < woff + self.wb:
                            if off + sz > woff + self.wb:
                                raise Unsupported('initialiser cell across words at %s' % loc_str(v))
                            acc = acc + val * (1 << (8 * (off - woff)))
                    st.p.mem[(obj, woff)] = acc
            return
        if k == 'ref':
            o = self.lvalue(st, init)
            st.fr.vars[v['id']] = ('obj', o[0], o[1])
            return
        if k == 'ptr':
            o = self.pointer(st, init)
            st.fr.vars[v['id']] = ('obj', o[0], o[1])
            return
        if init is not None:
            val = self.eval(st, init)
            if isinstance(val, tuple):
                raise Unsupported('boolean local from an undecided comparison at %s' % loc_str(v))
            st.fr.vars[v['id']] = val

    def init_cells(self, st, init, off, cells):
        """byte-addressed scalar cells of a brace initialiser (the rest of the object is zero)"""
        t = init.get('t') or {}
        if init.get('k') == 'initlist':
            if t.get('k') == 'array':
                esz = (t.get('elem') or {}).get('size') or 0
                for i, x in enumerate(init.get('inits', [])):
                    self.init_cells(st, x, off + i * esz, cells)
                return
            if t.get('k') == 'union':
                for x in init.get('inits', [])[:1]:
                    self.init_cells(st, x, off, cells)
                return
            if t.get('k') == 'record':
                rec = self.prog.records.get(t.get('rec')) or {}
                fields = rec.get('fields') or []
                for x, f in zip(init.get('inits', []), fields):
                    self.init_cells(st, x, off + f['off'], cells)
                if len(init.get('inits', [])) > len(fields):
                    raise Unsupported('initialiser with bases at %s' % loc_str(init))
                return
            raise Unsupported('initialiser list of %s at %s' % (t.get('k'), loc_str(init)))
        if t.get('k') in ('int', 'enum', 'bool'):
            v = self.eval(st, init)
            if isinstance(v, tuple):
                raise Unsupported('initialiser from an undecided comparison at %s' % loc_str(init))
            cells[off] = (t.get('size') or 0, v)
            return
        raise Unsupported('initialiser of %s at %s' % (t.get('k'), loc_str(init)))

    def expr_stmt(self, st, e):
        e = strip(e)
        k = e.get('k')
        if k == 'bin' and e.get('op') == ',':
            # `a++, b++`: one after the other
            outs = []
            for s1 in self.expr_stmt(st, e['lhs']):
                outs += self.expr_stmt(s1, e['rhs'])
            return outs
        if k == 'call':
            return self.call(st, e)
        if k == 'assign':
            l = strip(e['lhs'])
            op = e.get('op')
            if l.get('k') == 'ref' and l.get('rk') in ('local', 'param') and (l.get('t') or {}).get('k') == 'ptr' and op == '=' and \
                    (isinstance(st.fr.vars.get(l['id']), tuple) or l['id'] not in st.fr.vars):
                # a pointer local is re-aimed
                o = self.pointer(st, e['rhs'])
                st.fr.vars[l['id']] = ('obj', o[0], o[1])
                return [st]
            if l.get('k') == 'ref' and l.get('rk') in ('local', 'param') and not isinstance(st.fr.vars.get(l['id']), tuple):
                if op == '=' and (l.get('t') or {}).get('k') == 'bool' and any(x.get('k') == 'call' for x in walk(e['rhs'])):
                    # a boolean computed from a call that the machine summarises with several outcomes (compare): one state each
                    outs = []
                    for (r, s2) in self.cond(st, e['rhs']):
                        s2.fr.vars[l['id']] = ZPoly.const(1 if r else 0)
                        outs.append(s2)
                    return outs
                if op == '=':
                    v = self.eval(st, e['rhs'])
                else:
                    cur = st.fr.vars.get(l['id'])
                    r = self.eval(st, e['rhs'])
                    bits, signed = self.tbits(l)
                    v = None
                    if op == '+=':
                        v = cur + r
                    elif op == '-=':
                        v = cur - r
                    elif op == '<<=' and r.is_const() and 0 <= r.const_value() < 4096:
                        v = cur * (1 << r.const_value())
                    if op == '<<=' and not signed and bits:
                        v = self.split(cur, bits - r.const_value())[0] * (1 << r.const_value())
                    if op == '>>=':
                        v = self.split(cur, r.const_value())[1]
                    if op == '|=':
                        v = self.bit_or(cur, r, e)
                    if v is None:
                        raise Unsupported('compound assignment %s at %s' % (op, loc_str(e)))
                    if not signed and bits and op in ('+=', '-='):
                        v = self.wrap(v, bits, e)
                if isinstance(v, tuple):
                    # boolean from an undecided comparison: fork
                    outs = []
                    for (r, s2) in self.branch_on(st, v, e):
                        s2.fr.vars[l['id']] = ZPoly.const(1 if r else 0)
                        outs.append(s2)
                    return outs
                st.fr.vars[l['id']] = v
                return [st]
            obj, off = self.lvalue(st, e['lhs'])
            size = ((e['lhs'].get('t') or {}).get('size')) or 0
            if op == '=':
                v = self.eval(st, e['rhs'])
            else:
                cur = self.rd(st, obj, off, size)
                r = self.eval(st, e['rhs'])
                if op == '<<=':
                    v = self.split(cur, 8 * size - r.const_value())[0] * (1 << r.const_value())
                elif op == '>>=' and r.is_const() and 0 <= r.const_value() < 8 * size and self.rng(cur)[0] >= 0:
                    v = self.split(cur, r.const_value())[1] if r.const_value() else cur
                elif op == '+=':
                    v = self.wrap(cur + r, 8 * size, e)
                elif op == '-=':
                    v = self.wrap(cur - r, 8 * size, e)
                elif op == '|=' and r.is_const() and r.const_value() > 0 and (r.const_value() & (r.const_value() - 1)) == 0:
                    # setting one bit that is known to be clear
                    b = r.const_value().bit_length() - 1
                    lo, hi = self.split(cur, b)
                    if not (self.rng(hi)[1] == 0):
                        # bit b and above: the bit itself must be zero
                        bitv, rest = self.split(hi, 1)
                        if self.rng(bitv)[1] != 0:
                            # the bit may be set already: it becomes one either way
                            v = cur + (ONE - bitv) * r.const_value()
                            self.wr(st, obj, off, size, v)
                            return [st]
                    v = cur + r
                else:
                    raise Unsupported('compound assignment %s at %s' % (op, loc_str(e)))
            if isinstance(v, tuple):
                raise Unsupported('store of an undecided comparison at %s' % loc_str(e))
            self.wr(st, obj, off, size, v)
            return [st]
        if k == 'un' and e.get('op') in ('++', '--'):
            l = strip(e['e'])
            cur = st.fr.vars.get(l.get('id'))
            if isinstance(cur, tuple) and cur[0] == 'obj' and (l.get('t') or {}).get('k') == 'ptr':
                self.eval(st, e)
                return [st]
            if not isinstance(cur, ZPoly):
                raise Unsupported('increment at %s' % loc_str(e))
            st.fr.vars[l['id']] = cur + (1 if e['op'] == '++' else -1)
            return [st]
        self.eval(st, e)
        return [st]

    # ---------------- calls ----------------
    def call(self, st, e):
        callee = self.prog.callee(e, st.fr.fn)
        name = e.get('name')
        args = e.get('args', [])
        if name in ('memcpy', 'memmove') and (callee is None or 'body' not in callee):
            n = self.int_const(st, args[2])
            d, s_ = self.pointer(st, args[0]), self.pointer(st, args[1])
            vals = [self.rd_word(st, s_[0], s_[1] + i) for i in range(0, n, self.wb)]
            for i, v in zip(range(0, n, self.wb), vals):
                st.p.mem[(d[0], d[1] + i)] = v
            st.fr.ret_from_call = None
            return [st]
        if name == 'memcmp' and (callee is None or 'body' not in callee):
            # used only as an equality test: two outcomes, `all words equal` (with the facts) and `some word differs` (value 1)
            n = self.int_const(st, args[2])
            d, s_ = self.pointer(st, args[0]), self.pointer(st, args[1])
            if n % self.wb:
                raise Unsupported('memcmp over a partial word at %s' % loc_str(e))
            pairs = [(self.rd_word(st, d[0], d[1] + i), self.rd_word(st, s_[0], s_[1] + i)) for i in range(0, n, self.wb)]
            outs = []
            s_eq = st.fork()
            feasible = True
            for (x, y) in pairs:
                dd = self.subst(s_eq, x - y)
                if dd.is_const():
                    if dd.const_value() != 0:
                        feasible = False
                    continue
                s_eq.p.rels.append((x, y, frozenset({'eq'})))
            if feasible:
                s_eq.p.trace.append('memcmp==0 at %s' % loc_str(e))
                s_eq.fr.ret_from_call = ZERO
                outs.append(s_eq)
            if not all(self.subst(st, x - y).is_zero() for (x, y) in pairs):
                s_ne = st.fork()
                s_ne.p.trace.append('memcmp!=0 at %s' % loc_str(e))
                s_ne.fr.ret_from_call = ONE
                outs.append(s_ne)
            return outs
        if name == 'memset' and (callee is None or 'body' not in callee):
            n = self.int_const(st, args[2])
            d = self.pointer(st, args[0])
            if self.int_const(st, args[1]) != 0:
                raise Unsupported('memset with a non-zero byte')
            for i in range(0, n, self.wb):
                st.p.mem[(d[0], d[1] + i)] = ZERO
            st.fr.ret_from_call = None
            return [st]
        if (callee is None or 'body' not in callee) and name and self.extern_summary(st, name, args, e):
            return [st]
        if callee is None or 'body' not in callee:
            raise Unsupported('call to %s without a body at %s' % (name, loc_str(e)))
        fr = Frame(callee, None)
        th = e.get('this')
        if th is not None:
            fr.this = self.pointer(st, th) if e.get('arrow') else self.lvalue(st, th)
        for i, a in enumerate(args):
            if i >= len(callee['params']):
                break
            p = callee['params'][i]
            pt = p['t']
            if pt.get('k') == 'ref':
                x = a
                while isinstance(x, dict) and x.get('k') == 'cast' and x.get('ck') in ('NoOp', 'DerivedToBase', 'UncheckedDerivedToBase'):
                    x = x['e']
                o = self.lvalue(st, x)
                fr.vars[p['id']] = ('obj', o[0], o[1])
            elif pt.get('k') == 'ptr':
                o = self.pointer(st, a)
                fr.vars[p['id']] = ('obj', o[0], o[1])
            else:
                v = self.eval(st, a)
                if isinstance(v, tuple):
                    raise Unsupported('undecided comparison passed as an argument at %s' % loc_str(e))
                fr.vars[p['id']] = v
        st.frames.append(fr)
        outs = self.exec(st, callee['body'])
        res = []
        for s in outs:
            f = s.frames.pop()
            s.fr.ret_from_call = f.ret
            res.append(s)
        return self.merge(res)


Frame.ret_from_call = None


def _extern_summary(self, st, name, args, e):
    """assembly routines are summarised by the specification R-WORDALG proves for them (word-serial add / subtract / double)"""
    import re
    m = re.search(r'_bigint_(\d+)_(add|subtract|multiply2)$', name)
    if not m:
        return False
    bits, op = int(m.group(1)), m.group(2)
    n = bits // self.wordbits
    res = self.pointer(st, args[0])
    a = self.pointer(st, args[1])
    b = self.pointer(st, args[2]) if op != 'multiply2' else a
    aw = [self.rd_word(st, a[0], a[1] + i * self.wb) for i in range(n)]
    bw = [self.rd_word(st, b[0], b[1] + i * self.wb) for i in range(n)]
    c = ZERO
    for i in range(n):
        if op == 'subtract':
            tot = aw[i] - bw[i] - c
            lo_, hi_ = self.world.rng(tot)
            if lo_ >= 0:
                v, c = tot, ZERO
            else:
                bn = self.world.new('b', 'borrow', 0, 1, weight=self.W)
                vn = self.world.new('v', 'val', 0, self.W - 1, defn=tot + ZPoly.var(bn) * self.W)
                self.world.atoms[bn]['comp'] = vn
                v, c = ZPoly.var(vn), ZPoly.var(bn)
        else:
            tot = aw[i] + bw[i] + c
            lo_, hi_ = self.world.rng(tot)
            if hi_ < self.W:
                v, c = tot, ZERO
            else:
                kn = self.world.new('k', 'carry', 0, 1, weight=self.W)
                vn = self.world.new('v', 'val', 0, self.W - 1, defn=tot - ZPoly.var(kn) * self.W)
                self.world.atoms[kn]['comp'] = vn
                v, c = ZPoly.var(vn), ZPoly.var(kn)
        st.p.mem[(res[0], res[1] + i * self.wb)] = v
    st.fr.ret_from_call = c
    return True


CppMachine.extern_summary = _extern_summary


def run_function(prog, fn, wordbits, this_words, arg_specs, alias=None):
    """arg_specs: list of ('obj', nwords) | ('int', name) per parameter.  Objects are named A0 (this), A1, ... ; `alias` maps an
    object index to the object index it shares storage with.  Returns (machine, [final states])."""
    alias = alias or {}
    inputs = {}
    names = []
    objs = [('obj', this_words)] + list(arg_specs)
    for i, sp in enumerate(objs):
        if sp[0] == 'obj':
            r = alias.get(i, i)
            names.append('A%d' % r)
            inputs['A%d' % r] = max(inputs.get('A%d' % r, 0), sp[1])
        else:
            names.append(None)
    m = CppMachine(prog, wordbits, inputs)
    st = St(Path(), [Frame(fn, (names[0], 0))])
    for i, p in enumerate(fn['params']):
        sp = arg_specs[i]
        if sp[0] == 'obj':
            st.fr.vars[p['id']] = ('obj', names[i + 1], 0)
        else:
            st.fr.vars[p['id']] = m.world.input(sp[1])
            if len(sp) > 2:
                m.world.atoms[sp[1]]['hi'] = sp[2]
    finals = m.exec(st, fn['body'])
    return m, finals, names


# ---------------------------------------------------------------------------------------------- summaries and specifications
def _is_bigint_compare(callee):
    return callee is not None and strip_tmpl(callee.get('qn', '')) == 'embedded_pairing::core::BigInt::compare'


_orig_call = CppMachine.call


def _call_with_compare_summary(self, st, e):
    """BigInt::compare is summarised at its call sites by a three-way fork carrying a fact about the two big values (its own
    body is verified against that summary by check_compare)"""
    callee = self.prog.callee(e, st.fr.fn)
    if _is_bigint_compare(callee) and not getattr(self, 'inline_compare', False):
        args = e.get('args', [])
        objs = []
        for a in args[:2]:
            x = a
            while isinstance(x, dict) and x.get('k') == 'cast' and x.get('ck') in ('NoOp', 'DerivedToBase', 'UncheckedDerivedToBase'):
                x = x['e']
            objs.append(self.lvalue(st, x))
        nbytes = ((callee['params'][0]['t'].get('pointee') or {}).get('size')) or 0
        n = nbytes // self.wb
        # the comparison runs over word_length words, which is less than the object size for BigInt<64> with 128-bit double words
        rec = ((callee['params'][0]['t'].get('pointee') or {}).get('rec'))
        g = self.prog.globals.get('%s::word_length' % rec) if rec else None
        if g is not None and 'value' in g:
            from . import consts as _c
            wl = _c.as_int(_c.decode(g['value']))
            if isinstance(wl, int) and 0 < wl <= n:
                n = wl
        vals = []
        for (o, off) in objs:
            vals.append(sum((self.rd_word(st, o, off + i * self.wb) * (self.W ** i) for i in range(n)), ZPoly()))
        outs = []
        for (rv, rel) in ((-1, 'lt'), (0, 'eq'), (1, 'gt')):
            s2 = st.fork()
            s2.p.rels.append((vals[0], vals[1], frozenset({rel}), 'big'))
            s2.p.trace.append('compare=%d at %s' % (rv, loc_str(e)))
            s2.fr.ret_from_call = ZPoly.const(rv)
            outs.append(s2)
        return outs
    return _orig_call(self, st, e)


CppMachine.call = _call_with_compare_summary


def _rels_consistent(self, st):
    seen = {}
    for r in st.p.rels:
        key = (r[0], r[1])
        cur = seen.get(key, frozenset({'lt', 'eq', 'gt'})) & r[2]
        if not cur:
            return False
        seen[key] = cur
    return True


CppMachine.rels_consistent = _rels_consistent


class CppResult:
    """final state of one path with the query interface the specification checks need"""

    def __init__(self, m, st, out_obj, n, out_off=0):
        self.m, self.st, self.w = m, st, m.world
        self.W = m.W
        self.n = n
        self.sub = {a: ZPoly.const(v) for a, v in st.p.bits.items()}
        self.res = [st.p.mem.get((out_obj, out_off + i * m.wb)) for i in range(n)]
        self.ret = st.fr.ret

    def x(self, p):
        return self.w.expand(p).subs(self.sub)

    def big(self, words):
        return sum((w * (self.W ** i) for i, w in enumerate(words)), ZPoly())

    def describe(self):
        return '[' + '; '.join(self.st.p.trace[-8:]) + ']' if self.st.p.trace else '(single merged path)'

    def leftover_ok(self, D, nwords, allow_mod=True):
        if D.is_zero():
            return True, ''
        zero = {}
        for a in D.atoms():
            if self.w.atoms[a]['kind'] == 'carry' and self.w.prove_carry_zero(a):
                zero[a] = ZERO
        if zero:
            D = D.subs(zero)
        if D.is_zero():
            return True, ''
        if allow_mod and D.coeff_gcd_divisible(self.W ** nwords):
            return True, 'mod'
        return False, repr(D)

    def decide_ge(self, X, P):
        """X >= P on this path?  From the big-value facts of compare summaries and the carry facts."""
        T = self.x(X - P)
        lim = self.W ** self.n
        why = 'no fact relates the value to the modulus'
        for r in self.st.p.rels:
            if len(r) < 4:
                continue
            A, B, rel = self.x(r[0]), self.x(r[1]), r[2]
            delta = T - (A - B)
            if delta.is_zero():
                if rel <= {'lt'}:
                    return 'lt', 'compare says below'
                if rel <= {'eq', 'gt'}:
                    return 'ge', 'compare says at least'
            lo, hi = self.w.rng(delta)
            if delta.is_const() and delta.const_value() >= lim:
                return 'ge', 'a carry out of the top word was observed (value >= 2^%d > modulus)' % (self.n * self.m.wordbits)
            if lo >= 0 and rel <= {'eq', 'gt'}:
                return 'ge', 'compare says at least (plus a possible carry)'
            why = 'the compare facts concern other values than value - modulus (difference %r)' % delta
        # a carry bit known to be 1: follow its addition chain downwards; X == (chain value) + 2^(chain width) means X >= 2^(wn) > P
        for a, val in self.st.p.bits.items():
            at = self.w.atoms.get(a) or {}
            if val != 1 or at.get('kind') != 'carry' or at.get('comp') is None:
                continue
            chain = []
            cur = a
            for _ in range(64):
                v = self.w.atoms[cur]['comp']
                chain.append((v, self.w.weight(cur)))
                nxt = [b for b in self.w.atoms[v]['defn'].atoms() if b != cur and self.w.atoms[b]['kind'] == 'carry' and self.w.atoms[b].get('comp') is not None
                       and self.w.atoms[v]['defn'].t.get(((b, 1),), 0) == 1]
                if len(nxt) != 1:
                    break
                cur = nxt[0]
            chain.reverse()
            S = ZPoly()
            wgt = 1
            for (v, wv) in chain:
                S = S + ZPoly.var(v) * wgt
                wgt *= wv
            d = self.x(X) - self.x(S)
            if wgt >= lim and d.is_const() and d.const_value() >= lim:
                return 'ge', 'the carry out of the addition chain is set (value >= 2^%d > modulus)' % (self.n * self.m.wordbits)
        # a known carry alone: X = (n-word value) + 2^(wn)
        for cand in [self.res]:
            if all(v is not None for v in cand):
                d = self.x(X) - self.x(self.big(cand))
                if d.is_const() and d.const_value() >= lim:
                    return 'ge', 'carry observed'
        return None, why


def _final_states(prog, fn, wordbits, this_words, arg_specs, alias, inline_compare=False):
    alias = alias or {}
    inputs = {}
    names = []
    objs = [('obj', this_words)] + list(arg_specs)
    for i, sp in enumerate(objs):
        if sp[0] == 'obj':
            r = alias.get(i, i)
            names.append('A%d' % r)
            inputs['A%d' % r] = max(inputs.get('A%d' % r, 0), sp[1])
        else:
            names.append(None)
    m = CppMachine(prog, wordbits, inputs)
    m.inline_compare = inline_compare
    st = St(Path(), [Frame(fn, (names[0], 0))])
    for i, p in enumerate(fn['params']):
        sp = arg_specs[i]
        if sp[0] == 'obj':
            st.fr.vars[p['id']] = ('obj', names[i + 1], 0)
        else:
            st.fr.vars[p['id']] = m.world.input(sp[1])
            m.world.atoms[sp[1]]['hi'] = m.W - 1
    finals = m.exec(st, fn['body'])
    return m, finals, names


def words_of(m, name, n):
    out = []
    for i in range(n):
        v = m.world.input('%s_%d' % (name, i))
        m.world.atoms['%s_%d' % (name, i)]['hi'] = m.W - 1
        out.append(v)
    return out


def bigw(m, ws):
    return sum((w * (m.W ** i) for i, w in enumerate(ws)), ZPoly())


def check_cpp_function(prog, fn, kind, wordbits, bits):
    """kind in add/sub/dbl/mul/sqr/fpadd/fpsub/fpdbl/fpreduce/redc/compare; returns [(aliasing, ok, [messages], nstates)]"""
    n = bits // wordbits
    out = []
    pats = {'add': [{}, {0: 1}], 'sub': [{}, {0: 1}], 'dbl': [{}, {0: 1}], 'mul': [{}], 'sqr': [{}], 'fpadd': [{}, {0: 1}], 'fpsub': [{}, {0: 1}],
            'fpdbl': [{}, {0: 1}], 'fpreduce': [{}], 'redc': [{}], 'compare': [{}]}[kind]
    for pat in pats:
        msgs = []
        if kind in ('add', 'sub'):
            specs = [('obj', n), ('obj', n)]
        elif kind == 'dbl':
            specs = [('obj', n)]
        elif kind == 'mul':
            specs = [('obj', n // 2), ('obj', n // 2)]
        elif kind == 'sqr':
            specs = [('obj', n // 2)]
        elif kind in ('fpadd', 'fpsub'):
            specs = [('obj', n), ('obj', n), ('obj', n)]
        elif kind in ('fpdbl', 'fpreduce'):
            specs = [('obj', n), ('obj', n)]
        elif kind == 'redc':
            specs = [('obj', 2 * n), ('obj', n), ('int', 'INV')]
        elif kind == 'compare':
            specs = [('obj', n), ('obj', n)]
        # static members have no `this`: parameters start at object 1 all the same
        m, finals, names = _final_states(prog, fn, wordbits, n, specs, pat, inline_compare=(kind == 'compare'))
        Wn = m.W ** n
        for st in finals:
            if kind == 'compare':
                A, B = words_of(m, names[1], n), words_of(m, names[2], n)
                pr = CppResult(m, st, names[0], n)
                rv = st.fr.ret
                if rv is None or not pr.x(rv).is_const():
                    msgs.append('compare does not return a constant on the path %s' % pr.describe())
                    continue
                rv = pr.x(rv).const_value()
                # lexicographic decision from the word facts of this path
                verdict = None
                for i in range(n - 1, -1, -1):
                    rel = {'lt', 'eq', 'gt'}
                    for r in st.p.rels:
                        if r[0] == A[i] and r[1] == B[i]:
                            rel &= r[2]
                        elif r[0] == B[i] and r[1] == A[i]:
                            rel &= {{'lt': 'gt', 'gt': 'lt', 'eq': 'eq'}[t] for t in r[2]}
                    if rel == {'eq'}:
                        continue
                    verdict = -1 if rel == {'lt'} else (1 if rel == {'gt'} else None)
                    break
                else:
                    verdict = 0
                if verdict is None or verdict != rv:
                    msgs.append('compare returns %d on the path %s where the word facts %s' % (
                        rv, pr.describe(), 'do not order the operands' if verdict is None else 'imply %d' % verdict))
                continue
            pr = CppResult(m, st, names[0], n)
            if any(v is None for v in pr.res):
                msgs.append('result word %d is not written on the path %s' % ([i for i, v in enumerate(pr.res) if v is None][0], pr.describe()))
                continue
            R = pr.x(pr.big(pr.res))
            if kind in ('add', 'sub', 'dbl'):
                A = bigw(m, words_of(m, names[1], n))
                B = bigw(m, words_of(m, names[2], n)) if kind != 'dbl' else A
                ret = st.fr.ret
                if ret is None:
                    msgs.append('no carry / borrow returned')
                    continue
                spec = A + B if kind in ('add', 'dbl') else A - B
                D = R + pr.x(ret) * (Wn if kind != 'sub' else -Wn) - spec
                ok, why = pr.leftover_ok(D, n, allow_mod=False)
                if not ok:
                    msgs.append('stored words and returned flag differ from %s by %s' % ({'add': 'a + b', 'sub': 'a - b', 'dbl': '2a'}[kind], why[:300]))
            elif kind in ('mul', 'sqr'):
                h = n // 2
                A = bigw(m, words_of(m, names[1], h))
                B = bigw(m, words_of(m, names[2], h)) if kind == 'mul' else A
                ok, why = pr.leftover_ok(R - A * B, n)
                if not ok:
                    msgs.append('stored words differ from %s by %s' % ('a * b' if kind == 'mul' else 'a * a', why[:300]))
            elif kind in ('fpadd', 'fpsub', 'fpdbl', 'fpreduce'):
                A = bigw(m, words_of(m, names[1], n))
                if kind in ('fpadd', 'fpsub'):
                    B = bigw(m, words_of(m, names[2], n))
                    P = bigw(m, words_of(m, names[3], n))
                else:
                    P = bigw(m, words_of(m, names[2], n))
                X = {'fpadd': lambda: A + B, 'fpsub': lambda: A - B, 'fpdbl': lambda: A + A, 'fpreduce': lambda: A}[kind]()
                sign = -1 if kind == 'fpsub' else 1
                plain, _ = pr.leftover_ok(R - pr.x(X), n)
                corr, _ = pr.leftover_ok(R - pr.x(X - P * sign), n)
                if not plain and not corr:
                    msgs.append('on the path %s the result is neither the value nor the value %s the modulus (mod 2^%d): result - value = %r' % (
                        pr.describe(), '-' if sign > 0 else '+', n * wordbits, R - pr.x(X)))
                    continue
                if sign > 0:
                    verdict, why = pr.decide_ge(X, P)
                    if verdict is None:
                        msgs.append('on the path %s nothing determines whether the value reaches the modulus (%s), yet the path %s' % (
                            pr.describe(), why[:200], 'subtracts it' if corr else 'keeps the value'))
                    elif (verdict == 'ge') != corr:
                        msgs.append('on the path %s the value is %s the modulus (%s) but the path %s' % (
                            pr.describe(), 'at least' if verdict == 'ge' else 'below', why, 'subtracts the modulus' if corr else 'does not subtract it'))
                else:
                    # borrow of a - b decides: find the borrow bit b with R_sub = a - b + 2^(wn) b
                    decided = None
                    for a_, v in st.p.bits.items():
                        pass
                    # X < 0  <=>  borrow; the path facts contain the borrow bit of the last word
                    Dm = R - pr.x(X) if plain else R - pr.x(X + P)
                    neg = None
                    # exact integer reasoning: result in [0, 2^wn); plain & X in (-2^wn, 2^wn): R == X mod 2^wn and X >= 0 iff no borrow
                    bor = [a for a in st.p.bits if m.world.atoms[a]['kind'] == 'borrow']
                    if len(bor) >= 1:
                        # the last borrow atom branched on is the borrow out of the top word when R - X == 2^(wn) * that bit
                        for a in bor:
                            Rsub_minus_X = ZPoly.var(a) * Wn
                            if plain and st.p.bits[a] == 0:
                                neg = False
                            if corr and st.p.bits[a] == 1:
                                neg = True
                    if neg is None:
                        msgs.append('on the path %s the borrow of a - b does not determine whether the modulus is added back' % pr.describe())
                    elif neg != corr:
                        msgs.append('on the path %s the difference is %s but the modulus is %s' % (pr.describe(), 'negative' if neg else 'non-negative', 'added' if corr else 'not added'))
            elif kind == 'redc':
                T = bigw(m, words_of(m, names[1], 2 * n))
                pw = words_of(m, names[2], n)
                P = bigw(m, pw)
                inv = m.world.input('INV')
                us = [(name, (at['rel'][1] if at['rel'][0] == inv else at['rel'][0])) for name, at in m.world.atoms.items()
                      if at['kind'] == 'trunc' and at.get('rel') is not None and inv in at['rel']]
                zero_u = {}
                if len(us) != n:
                    # the routine forks on run-time data: keep the quotient words this path computed (those its memory and facts refer to)
                    live = set()
                    work = []
                    for (k_, v_) in st.p.mem.items():
                        if isinstance(v_, ZPoly):
                            work += list(v_.atoms())
                    for r_ in st.p.rels:
                        work += list(r_[0].atoms()) + list(r_[1].atoms())
                    work += list(st.p.bits)
                    while work:
                        a_ = work.pop()
                        if a_ in live:
                            continue
                        live.add(a_)
                        at_ = m.world.atoms.get(a_) or {}
                        for fld in ('defn',):
                            if isinstance(at_.get(fld), ZPoly):
                                work += list(at_[fld].atoms())
                        if at_.get('rel') is not None:
                            for x_ in at_['rel']:
                                if isinstance(x_, ZPoly):
                                    work += list(x_.atoms())
                        for fld in ('comp', 'partner'):
                            if isinstance(at_.get(fld), str):
                                work.append(at_[fld])
                    us = [(un, t) for (un, t) in us if un in live]
                    for r_ in st.p.rels:
                        if r_[2] == frozenset({'eq'}) and r_[1].is_zero() and len(r_[0].atoms()) == 1 and r_[0] == ZPoly.var(list(r_[0].atoms())[0]):
                            zero_u[list(r_[0].atoms())[0]] = True
                if len(us) != n:
                    msgs.append('on the path %s: expected %d quotient words u_i = lo(t_i * inv), found %d' % (pr.describe(), n, len(us)))
                    continue
                zs = []
                bad = False
                usub = {un: ZERO for (un, t) in us if un in zero_u}
                for row, (un, t) in enumerate(us):
                    if un in zero_u:
                        # a skipped round (u_i == 0, hence t_i == 0 since inv is odd): the word stays where it is and must be that t_i
                        cur = st.p.mem.get((names[1], row * m.wb))
                        if cur is None:
                            cur = words_of(m, names[1], 2 * n)[row]
                        if not (cur - t).is_zero():
                            msgs.append('on the path %s the round with u == 0 does not leave word %d as it was tested' % (pr.describe(), row))
                            bad = True
                            break
                        zs.append(t)
                        continue
                    want = ZPoly.var(un) * pw[0] + t
                    z = None
                    for (key, val) in m.splits.items():
                        if isinstance(key, tuple) and len(key) == 2 and isinstance(key[0], ZPoly) and key[1] == wordbits and key[0] == want:
                            z = val[0]
                    if z is None:
                        msgs.append('row of quotient word %s: t_i + u_i * p[0] (whose low word cancels) was not found' % un)
                        bad = True
                        break
                    zs.append(z)
                if bad:
                    continue
                U = bigw(m, [ZPoly.var(un) for (un, t) in us]).subs(usub) if usub else bigw(m, [ZPoly.var(un) for (un, t) in us])
                Tw_ = words_of(m, names[1], 2 * n)
                Vws = [st.p.mem.get((names[1], (n + i) * m.wb), Tw_[n + i]) for i in range(n)]
                V = pr.x(bigw(m, Vws))
                Z = pr.x(bigw(m, zs))
                okv, why1 = pr.leftover_ok(V * Wn + Z - pr.x(T) - pr.x(U) * pr.x(P), 2 * n)
                if not okv:
                    msgs.append('%s2^%d * V + (cancelled low words) differs from T + U*p by %s' % (
                        ('on the path %s ' % pr.describe()) if zero_u else '', n * wordbits, why1[:300]))
                    continue
                plain, _ = pr.leftover_ok(R - V, n)
                corr, _ = pr.leftover_ok(R - (V - pr.x(P)), n)
                if not plain and not corr:
                    msgs.append('on the path %s the result is neither V nor V - p' % pr.describe())
                    continue
                Vw = bigw(m, Vws)
                verdict, why = pr.decide_ge(Vw, P)
                if verdict is None:
                    msgs.append('on the path %s nothing determines whether V reaches the modulus (%s)' % (pr.describe(), why[:200]))
                elif (verdict == 'ge') != corr:
                    msgs.append('on the path %s V is %s the modulus but the path %s' % (pr.describe(), 'at least' if verdict == 'ge' else 'below',
                                                                                       'subtracts it' if corr else 'keeps V'))
        out.append((pat, not msgs, msgs, len(finals)))
    return out


TARGETS = [
    # (qualified name without template arguments of the member, kind, how to read the width from the record name)
    ('embedded_pairing::core::BigInt::add', 'add'), ('embedded_pairing::core::BigInt::subtract', 'sub'),
    ('embedded_pairing::core::BigInt::shift_left_in_word', 'dbl'), ('embedded_pairing::core::BigInt::multiply', 'mul'),
    ('embedded_pairing::core::BigInt::square', 'sqr'), ('embedded_pairing::core::BigInt::compare', 'compare'),
    ('embedded_pairing::core::FpBase::add', 'fpadd'), ('embedded_pairing::core::FpBase::subtract', 'fpsub'),
    ('embedded_pairing::core::FpBase::multiply2', 'fpdbl'), ('embedded_pairing::core::FpBase::reduce', 'fpreduce'),
    ('embedded_pairing::core::FpBase::montgomery_reduce', 'redc'),
]


def rule_wordalg_cpp(ctx, cfg, prog, rule='R-WORDALG/c++'):
    import re
    from . import buildmodel as bm
    wordbits = bm.configs()[cfg]['words']
    n = 0
    for f in sorted(prog.functions.values(), key=lambda f: f['qn']):
        if 'body' not in f or f['l'][0].startswith('include/core/arch/') or not f['l'][0].startswith('include/core/'):
            continue
        base = strip_tmpl(f['qn'])
        kinds = [k for (q, k) in TARGETS if q == base]
        if not kinds:
            continue
        kind = kinds[0]
        mm = re.match(r'^embedded_pairing::core::(?:BigInt|FpBase)<(\d+)>::', f['qn'])
        if not mm:
            continue
        bits = int(mm.group(1))
        if bits % (2 * wordbits) or bits < 2 * wordbits:
            continue        # widths that are not a whole number of double words (64, 192 on 64-bit targets): note N5
        if kind == 'dbl' and "'\\x01'" not in f['qn'] and '<1>' not in f['qn']:
            continue
        if kind == 'mul':
            # multiply<a_bits>: only the square case a_bits == bits/2
            ma = re.search(r'::multiply<(\d+)>$', f['qn'])
            if not ma or int(ma.group(1)) * 2 != bits:
                continue
        # forwarding specialisations (assembly) have a one-call body
        try:
            res = check_cpp_function(prog, f, kind, wordbits, bits)
        except Unsupported as e:
            raise bm.AnalysisBroken('R-WORDALG/c++ cannot model %s: %s' % (f['qn'], e))
        for (pat, ok, msgs, nst) in res:
            n += 1
            pname = 'distinct' if not pat else ','.join('obj%d==obj%d' % (a, b) for a, b in sorted(pat.items()))
            short = f['qn'].replace('embedded_pairing::core::', '')
            ctx.ob(rule, ok, 'wordalg-c++|%s|%s' % (short, pname), loc_str(f), '%s (%s): %s' % (f['qn'], pname, ' ;; '.join(x[:700] for x in msgs[:2])), cfg=cfg,
                   sample=dict(config=cfg, routine=short, aliasing=pname, states=nst, kind=kind))
    return n


# ---------------------------------------------------------------------------------------------- PowersOfX::decompose (C06, C07)
_prev_call = CppMachine.call


def _big_words(self, st, obj, off, n):
    return [self.rd_word(st, obj, off + i * self.wb) for i in range(n)]


def _write_big(self, st, obj, off, n, total, defn_of_value):
    """store an n-word value whose exact integer value is the polynomial `defn_of_value` (range known): one atom per word that can be
    non-zero, tied to the value by their sum"""
    lo, hi = self.rng(defn_of_value)
    if lo < 0:
        raise Unsupported('negative big value')
    words = []
    nz = 0
    while (hi >> (self.wordbits * nz)) > 0:
        nz += 1
    nz = min(nz, n)
    acc = ZPoly()
    for i in range(n):
        if i >= nz:
            words.append(ZERO)
            continue
        whi = min(self.W - 1, hi >> (self.wordbits * i))
        if i == nz - 1:
            # the top word is determined by the others
            vn = self.world.new('v', 'val', 0, whi, defn=None)
            words.append(ZPoly.var(vn))
        else:
            vn = self.world.new('v', 'val', 0, self.W - 1, defn=None)
            words.append(ZPoly.var(vn))
    # one defining identity for the vector: word 0 carries it (word0 = value - sum of the higher words)
    if nz:
        higher = sum((w * (self.W ** i) for i, w in enumerate(words) if i >= 1), ZPoly())
        a0 = words[0].single_atom()
        self.world.atoms[a0]['defn'] = defn_of_value - higher
    for i, w in enumerate(words):
        st.p.mem[(obj, off + i * self.wb)] = w
    return words


def _call_with_big_summaries(self, st, e):
    callee = self.prog.callee(e, st.fr.fn)
    qn = strip_tmpl((callee or {}).get('qn', ''))
    args = e.get('args', [])
    th = e.get('this')
    if qn == 'embedded_pairing::core::BigInt::subtract' and th is not None and getattr(self, 'big_summaries', False):
        # a difference of two values that the path knows to be ordered does not borrow: summarise it with the tight range
        nbytes = (((callee.get('params') or [{}])[0].get('t') or {}).get('pointee') or {}).get('size') or 0
        n = nbytes // self.wb if nbytes else 0
        if n:
            objs = []
            for a in args[:2]:
                x = a
                while isinstance(x, dict) and x.get('k') == 'cast' and x.get('ck') in ('NoOp', 'DerivedToBase', 'UncheckedDerivedToBase'):
                    x = x['e']
                objs.append(self.lvalue(st, x))
            A = sum((w * (self.W ** i) for i, w in enumerate(_big_words(self, st, objs[0][0], objs[0][1], n))), ZPoly())
            B = sum((w * (self.W ** i) for i, w in enumerate(_big_words(self, st, objs[1][0], objs[1][1], n))), ZPoly())
            for r in st.p.rels:
                if len(r) >= 4 and ((r[0] == A and r[1] == B and r[2] <= {'eq', 'gt'}) or (r[0] == B and r[1] == A and r[2] <= {'eq', 'lt'})):
                    dst = self.pointer(st, th) if e.get('arrow') else self.lvalue(st, th)
                    # range of A - B given A >= B: [0, max(A) - min(B)]
                    (alo, ahi), (blo, bhi) = self.rng(A), self.rng(B)
                    dn = self.world.new('d', 'val', 0, ahi - blo, defn=A - B)
                    _write_big(self, st, dst[0], dst[1], n, None, ZPoly.var(dn))
                    st.fr.ret_from_call = ZERO
                    return [st]
    return _prev_call(self, st, e)


CppMachine.call = _call_with_big_summaries

_prev_compare = _call_with_compare_summary


def _refine_on_compare(self, outs):
    """`A < B` with B a constant: the top word of A cannot exceed the top word of B (and symmetric refinements)"""
    for s2 in outs:
        r = s2.p.rels[-1]
        A, B, rel = r[0], r[1], r[2]
        for (X, Y, rl) in ((A, B, rel), (B, A, frozenset({{'lt': 'gt', 'gt': 'lt', 'eq': 'eq'}[t] for t in rel}))):
            if Y.is_const() and rl <= {'lt', 'eq'}:
                c = Y.const_value()
                # X <= c: bound every word atom that is a plain input word by what c allows for it alone (top word), conservatively
                tops = sorted(((co, m_) for m_, co in X.t.items() if len(m_) == 1 and m_[0][1] == 1), reverse=True)
                if tops:
                    co, m_ = tops[0]
                    a = m_[0][0]
                    bound = c // co
                    lo, hi = s2.p.ranges.get(a, (0, self.W - 1))
                    s2.p.ranges[a] = (lo, min(hi, bound))
    return _propagate_compare_to_bits(self, outs)


def sign_with_facts(self, st, X):
    """'neg' (X < 0), 'nonneg' (X >= 0) or None, from intervals and from the path's facts about big values: with a fact F < 0,
    X + F >= 0 gives X >= -F > 0, and X - F <= 0 gives X <= F < 0 (non-strict facts give the non-strict conclusions)"""
    sub = {a: ZPoly.const(v) for a, v in st.p.bits.items()}
    # partially rewritten forms first: a value atom keeps the range its specification gives it
    cur = X.subs(sub)
    for _ in range(12):
        lo, hi = self.rng(cur)
        if lo >= 0:
            return 'nonneg'
        if hi < 0:
            return 'neg'
        cur, more = self.expand_newest(cur)
        cur = cur.subs(sub)
        if not more:
            break
    X = _path_normal(self, st, X) if getattr(self, 'infer', False) else self.world.expand(X).subs(sub)
    lo, hi = self.rng(X)
    if lo >= 0:
        return 'nonneg'
    if hi < 0:
        return 'neg'
    facts = [r for r in st.p.rels if len(r) >= 4 or getattr(self, 'value_facts', False)] + list(getattr(self, 'global_facts', []))
    # the decided carries / borrows of the path are facts about whole sums: borrow == 1 means the minuend is below the subtrahend
    if getattr(self, 'infer', False):
        for a, v in st.p.bits.items():
            at = self.world.atoms[a]
            if at['kind'] not in ('carry', 'borrow') or at.get('comp') is None or (at['lo'], at['hi']) != (0, 1):
                continue
            d = self.world.atoms[at['comp']].get('defn')
            if d is None:
                continue
            wgt = at.get('weight') or self.W
            if at['kind'] == 'carry':
                S, theta = _unfold_chain(self, st, d + ZPoly.var(a) * wgt, wgt, 'carry')
                facts.append((S, ZPoly.const(theta), frozenset({'gt', 'eq'}) if v else frozenset({'lt'}), 'chain'))
            else:
                S, theta = _unfold_chain(self, st, d - ZPoly.var(a) * wgt, 1, 'borrow')
                facts.append((S, ZERO, frozenset({'lt'}) if v else frozenset({'gt', 'eq'}), 'chain'))
    for r in facts:
        A, B, rel = r[0], r[1], r[2]
        F = _path_normal(self, st, A - B) if getattr(self, 'infer', False) else self.world.expand(A - B).subs(sub)
        cands = []
        if rel <= {'lt'}:
            cands.append((F, True))
        elif rel <= {'lt', 'eq'}:
            cands.append((F, False))
        if rel <= {'gt'}:
            cands.append((-F, True))
        elif rel <= {'gt', 'eq'}:
            cands.append((-F, False))
        for (G, strict) in cands:           # G < 0 (strict) or G <= 0
            for mult in (1, 2):
                if self.rng(X * mult + G)[0] >= 0:
                    return 'nonneg'             # mult * X >= -G >= 0
                up = self.rng(X * mult - G)[1]
                if up <= 0 and strict:
                    return 'neg'                # mult * X <= G < 0
                if up < 0:
                    return 'neg'
    return None


def _unfold_chain(self, st, T, theta, kind):
    """the carry (borrow) k of a multi-word addition (subtraction) with k == [T >= theta] (k == [T < 0]) where T still mentions the
    carry k' of the word below, k' == floor(T' / w'):  T >= theta  <=>  (T - k') w' + T' >= theta w'  (exact for integers), and the
    same with the opposite sign for borrows.  Repeated down the chain this compares the whole sum with the whole modulus power."""
    sub = {a: ZPoly.const(v) for a, v in st.p.bits.items()}
    S = T
    for _ in range(64):
        S = S.subs(sub)
        nxt = None
        for a in S.atoms():
            at = self.world.atoms[a]
            if at['kind'] in ('carry', 'borrow') and at.get('comp') is not None and (at['lo'], at['hi']) == (0, 1):
                c = S.t.get(((a, 1),), 0)
                lin = all(e == 1 and len(m_) == 1 for m_ in S.t for (b, e) in m_ if b == a)
                d = self.world.atoms[at['comp']].get('defn')
                if d is None or not lin:
                    continue
                if (at['kind'] == 'carry' and c == 1) or (at['kind'] == 'borrow' and c == -1):
                    q = self.world._seq(a)
                    if nxt is None or q > nxt[0]:
                        nxt = (q, a, at, d)
        if nxt is None:
            break
        _, a, at, d = nxt
        w2 = at.get('weight') or self.W
        if at['kind'] == 'carry':
            T2 = d + ZPoly.var(a) * w2              # k' == floor(T2 / w2)
            S = (S - ZPoly.var(a)) * w2 + T2
        else:
            T2 = d - ZPoly.var(a) * w2              # b' == [T2 < 0] == -floor(T2 / w2)
            S = (S + ZPoly.var(a)) * w2 + T2
        theta = theta * w2
    return S, theta


def _check_budget(m):
    """a rule may give its machine a deadline (m.deadline, seconds since the epoch): a broken routine can make the fact closure run away,
    and a refusal after a bounded time is the honest answer then"""
    import time as _time
    dl = getattr(m, 'deadline', None)
    if dl is not None and _time.time() > dl:
        raise Unsupported('time budget of the rule exhausted (the fact closure does not settle)')


def infer_bits(self, st):
    """carry / borrow bits forced by their own defining identity once other bits are known on the path:  v = T - W k  with
    max(T) < W gives k = 0 (min(T) >= W gives k = 1);  v = T + W b  with min(T) >= 0 gives b = 0"""
    changed = True
    while changed:
        _check_budget(self)
        changed = False
        sub = {a: ZPoly.const(v) for a, v in st.p.bits.items()}
        for a, at in self.world.atoms.items():
            if a in st.p.bits or at['kind'] not in ('carry', 'borrow') or at.get('comp') is None or (at['lo'], at['hi']) != (0, 1):
                continue
            d = self.world.atoms[at['comp']].get('defn')
            if d is None:
                continue
            wgt = at.get('weight') or self.W
            if at['kind'] == 'carry':
                T = (d + ZPoly.var(a) * wgt).subs(sub)
                if a in T.atoms():
                    continue
                lo, hi = self.rng(T)
                if hi < wgt:
                    st.p.bits[a] = 0
                    changed = True
                elif lo >= wgt:
                    st.p.bits[a] = 1
                    changed = True
                elif any(len(r) >= 4 for r in st.p.rels) or (getattr(self, 'value_facts', False) and st.p.rels) or getattr(self, 'global_facts', None):
                    S, theta = _unfold_chain(self, st, T, wgt, 'carry')
                    sg = sign_with_facts(self, st, S - theta)
                    if sg is not None:
                        st.p.bits[a] = 1 if sg == 'nonneg' else 0
                        changed = True
            else:
                T = (d - ZPoly.var(a) * wgt).subs(sub)
                if a in T.atoms():
                    continue
                lo, hi = self.rng(T)
                if lo >= 0:
                    st.p.bits[a] = 0
                    changed = True
                elif hi < 0:
                    st.p.bits[a] = 1
                    changed = True
                elif any(len(r) >= 4 for r in st.p.rels) or (getattr(self, 'value_facts', False) and st.p.rels) or getattr(self, 'global_facts', None):
                    S, theta = _unfold_chain(self, st, T, 1, 'borrow')
                    sg = sign_with_facts(self, st, S)
                    if sg is not None:
                        st.p.bits[a] = 0 if sg == 'nonneg' else 1
                        changed = True


def _propagate_compare_to_bits(self, outs):
    """the outcome of comparing two big values whose difference, written out, depends on a few carry / borrow bits decides those bits
    (sum < addend  <=>  the addition wrapped): assignments that contradict the outcome are dropped, an outcome no assignment admits
    is infeasible"""
    keep = []
    for s2 in outs:
        r = s2.p.rels[-1]
        A, B, rel = r[0], r[1], r[2]
        if getattr(self, 'infer', False):
            infer_bits(self, s2)
        D = self.subst(s2, self.world.expand(A - B))
        ats = [a for a in D.atoms() if self.world.atoms[a]['kind'] in ('carry', 'borrow') and (self.world.atoms[a]['lo'], self.world.atoms[a]['hi']) == (0, 1)
               and all(e == 1 for m_ in D.t for (b, e) in m_ if b == a)]
        if len(ats) > 3:
            keep.append(s2)
            continue
        import itertools
        good = []
        for vals in itertools.product((0, 1), repeat=len(ats)):
            Dv = D.subs({a: ZPoly.const(v) for a, v in zip(ats, vals)})
            lo, hi = self.rng(Dv)
            possible = set()
            if lo < 0:
                possible.add('lt')
            if hi > 0:
                possible.add('gt')
            if lo <= 0 <= hi:
                possible.add('eq')
            if possible & rel:
                good.append(vals)
        if not good:
            continue
        for i, a in enumerate(ats):
            vs = {g[i] for g in good}
            if len(vs) == 1:
                s2.p.bits[a] = vs.pop()
                s2.p.trace.append('%s=%d by the comparison' % (a, s2.p.bits[a]))
        keep.append(s2)
    return keep


def _writes_only_first_param(fn):
    """every call in the body is a member call on a local object or on the first (reference) parameter, every other parameter is
    a value or a reference to const, and nothing else is assigned: the routine can only change its first argument"""
    ps = fn.get('params') or []
    if not ps or (ps[0]['t'].get('k') != 'ref'):
        return False
    for p in ps[1:]:
        pt = p['t']
        if pt.get('k') in ('ref', 'ptr') and not (pt.get('pointee') or {}).get('const'):
            return False
    local_ids = set()
    for n in walk(fn['body']):
        if n.get('k') == 'decl':
            for v in n['vars']:
                if (v.get('t') or {}).get('k') in ('ref', 'ptr'):
                    return False
                local_ids.add(v['id'])
    for n in walk(fn['body']):
        if n.get('k') == 'call':
            th = n.get('this')
            if th is None or n.get('arrow'):
                return False
            r = strip(th)
            while r.get('k') == 'cast':
                r = strip(r['e'])
            if r.get('k') != 'ref' or not (r.get('id') in local_ids or r.get('id') == ps[0]['id']):
                return False
        if n.get('k') == 'assign' or (n.get('k') == 'un' and n.get('op') in ('++', '--')):
            l = strip(n.get('lhs') or n.get('e'))
            if l.get('k') != 'ref' or l.get('id') not in local_ids:
                return False
    return True


def _compare_with_refinement(self, st, e):
    callee = self.prog.callee(e, st.fr.fn)
    hooks = getattr(self, 'call_hooks', None)
    if hooks and callee is not None and strip_tmpl(callee.get('qn', '')) in hooks:
        return hooks[strip_tmpl(callee['qn'])](self, st, e, callee)
    hv = getattr(self, 'havoc_calls', None)
    if hv and callee is not None and 'body' in callee and strip_tmpl(callee['qn']) in hv:
        if not _writes_only_first_param(callee):
            raise Unsupported('%s may write more than its first argument' % callee['qn'])
        x = e['args'][0]
        while isinstance(x, dict) and x.get('k') == 'cast' and x.get('ck') in ('NoOp', 'DerivedToBase', 'UncheckedDerivedToBase'):
            x = x['e']
        o = self.lvalue(st, x)
        nbytes = ((callee['params'][0]['t'].get('pointee') or {}).get('size')) or 0
        self.nhavoc = getattr(self, 'nhavoc', 0) + 1
        nm = 'H%d' % self.nhavoc
        self.inputs[nm] = nbytes // self.wb
        for i in range(nbytes // self.wb):
            v = self.world.input('%s_%d' % (nm, i))
            self.world.atoms['%s_%d' % (nm, i)]['hi'] = self.W - 1
            st.p.mem[(o[0], o[1] + i * self.wb)] = v
        st.p.trace.append('%s: any value' % callee['qn'].split('::')[-1][:40])
        st.fr.ret_from_call = None
        return [st]
    if _is_bigint_compare(callee) and not getattr(self, 'inline_compare', False):
        outs = _prev_compare(self, st, e)
        return _refine_on_compare(self, outs)
    return _call_with_big_summaries(self, st, e)


CppMachine.call = _compare_with_refinement


def rule_decompose(ctx, cfg, prog, rule='R-WORDALG/c++'):
    """PowersOfX::decompose(y): c0 + c1|x| + c2|x|^2 + c3|x|^3 == y (mod r) as an identity in y, on every path, with every digit a
    64-bit word.  divide_std_dword is summarised by S == d*Q + R, 0 <= R < d (and verified against that summary on its own)."""
    from . import buildmodel as bm, bls
    wordbits = bm.configs()[cfg]['words']
    n_ob = 0
    X = abs(bls.X)
    R = bls.R_ORDER
    WPD = 64 // wordbits            # machine words per 64-bit digit
    # (a0) where no 128-bit type exists the division of (upper, lower) by the constant is a 64-step restoring division: its step is
    # decided for every bit position, and the loop is then summarised by  upper * 2^64 + lower == d * quotient + rem
    summaries = {}
    for f in sorted(prog.functions.values(), key=lambda f: f['qn']):
        if 'body' not in f or strip_tmpl(f['qn']) != 'embedded_pairing::core::BigInt::divide_std_dword':
            continue
        r_ = check_bitserial_step(prog, f, wordbits)
        if r_ is None:
            continue
        bmsgs, nit, dd = r_
        loop, ids = _bitserial_loop(f)
        n_ob += 1
        ctx.ob(rule, not bmsgs and nit == 64, 'wordalg-c++|%s|restoring step' % f['qn'].replace('embedded_pairing::core::', '')[:60], loc_str(loop),
               '%s: %s' % (f['qn'], ' ;; '.join(bmsgs[:2]) or 'only %d of 64 bit positions could be run' % nit), cfg=cfg,
               sample=dict(config=cfg, routine=f['qn'].replace('embedded_pairing::core::', '')[:60], bit_positions=nit,
                           specification="rem' + d q == 2 rem + bit_i(lower), 0 <= rem' < d, quotient' == quotient + q 2^i"))

        def make(loop=loop, ids=ids, dd=dd):
            def handler(mach, st):
                U = st.fr.vars.get(ids['rem'][0])
                L = st.fr.vars.get(ids['dividend_lower'][0])
                Q0 = st.fr.vars.get(ids['quotient'][0])
                if not (isinstance(U, ZPoly) and isinstance(L, ZPoly) and isinstance(Q0, ZPoly) and Q0.is_zero()):
                    raise Unsupported('restoring division entered with quotient != 0 or untracked operands')
                if mach.rng(U)[1] >= dd or mach.rng(U)[0] < 0:
                    raise Unsupported('restoring division entered with an upper part not known to be below the divisor')
                q, r = mach.divmod_const(U * (1 << 64) + L, dd)
                st.fr.vars[ids['quotient'][0]] = q
                st.fr.vars[ids['rem'][0]] = r
                return [st]
            return handler
        summaries[id(loop)] = make()

    def machine(inputs):
        m_ = CppMachine(prog, wordbits, inputs)
        m_.loop_summaries = {k: (lambda st, h=h, m_=m_: h(m_, st)) for k, h in summaries.items()}
        return m_
    # (a) the division primitive against its summary
    for f in sorted(prog.functions.values(), key=lambda f: f['qn']):
        if 'body' not in f or strip_tmpl(f['qn']) != 'embedded_pairing::core::BigInt::divide_std_dword':
            continue
        import re
        mm = re.match(r'^embedded_pairing::core::BigInt<(\d+)>::divide_std_dword<(\d+)', f['qn'])
        if not mm:
            continue
        bits, d = int(mm.group(1)), int(mm.group(2))
        n = bits // wordbits
        if bits % 128:
            continue
        msgs = []
        for pat in ({}, {0: 1}):
            try:
                names = ['A0', 'A0' if pat else 'A1']
                m = machine({'A0': n, 'A1': n})
                st0 = St(Path(), [Frame(f, ('A0', 0))])
                st0.fr.vars[f['params'][0]['id']] = ('obj', names[1], 0)
                finals = m.exec(st0, f['body'])
            except Unsupported as e:
                raise bm.AnalysisBroken('R-WORDALG/c++ cannot model %s: %s' % (f['qn'], e))
            for st in finals:
                pr_ = CppResult(m, st, names[0], n)
                if any(v is None for v in pr_.res) or st.fr.ret is None:
                    msgs.append('quotient word or remainder not produced')
                    continue
                S = bigw(m, words_of(m, names[1], n))
                D = pr_.x(pr_.big(pr_.res)) * d + pr_.x(st.fr.ret) - S
                lo, hi = m.world.rng(st.fr.ret)
                if not D.is_zero():
                    msgs.append('quotient * divisor + remainder differs from the dividend by %r' % D)
                elif not (lo >= 0 and hi < d):
                    msgs.append('the remainder is not known to be below the divisor')
            n_ob += 1
            ctx.ob(rule, not msgs, 'wordalg-c++|%s|%s' % (f['qn'].replace('embedded_pairing::core::', '')[:60], 'distinct' if not pat else 'in place'), loc_str(f),
                   '%s: %s' % (f['qn'], ' ;; '.join(msgs[:2])), cfg=cfg,
                   sample=dict(config=cfg, routine=f['qn'].replace('embedded_pairing::core::', '')[:60], kind='division by a constant word'))
    # (b) decompose
    fs = prog.fn_by_qn('embedded_pairing::bls12_381::PowersOfX::decompose')
    if len(fs) != 1:
        raise bm.AnalysisBroken('PowersOfX::decompose not found')
    f = fs[0]
    rec = prog.records.get('embedded_pairing::bls12_381::PowersOfX')
    cf = [x for x in rec['fields'] if x['name'] == 'c'][0]
    esz = cf['t']['elem']['size']
    try:
        inputs = {'A0': 4 * esz // (wordbits // 8), 'A1': 4 * WPD}
        m = machine(inputs)
        m.big_summaries = True
        st = St(Path(), [Frame(f, ('A0', 0))])
        st.fr.vars[f['params'][0]['id']] = ('obj', 'A1', 0)
        finals = m.exec(st, f['body'])
    except Unsupported as e:
        raise bm.AnalysisBroken('R-WORDALG/c++ cannot model PowersOfX::decompose: %s' % e)
    Y = bigw(m, words_of(m, 'A1', 4 * WPD))
    msgs = []
    for st in finals:
        sub = {a: ZPoly.const(v) for a, v in st.p.bits.items()}
        cs = []
        for i in range(4):
            ws_ = [st.p.mem.get(('A0', cf['off'] + i * esz + j * (wordbits // 8))) for j in range(WPD)]
            cs.append(None if any(w is None for w in ws_) else sum((w * (m.W ** j) for j, w in enumerate(ws_)), ZPoly()))
        path = '[' + '; '.join(st.p.trace[-6:]) + ']'
        if any(c is None for c in cs):
            msgs.append('digit %d is not written on the path %s' % ([i for i, c in enumerate(cs) if c is None][0], path))
            continue
        val = sum((c * (X ** i) for i, c in enumerate(cs)), ZPoly())
        D = (m.world.expand(val) - Y).subs(sub)
        if not all(co % R == 0 for co in D.t.values()):
            bad = ZPoly({m_: co for m_, co in D.t.items() if co % R})
            msgs.append('on the path %s  c0 + c1|x| + c2|x|^2 + c3|x|^3 - y  is not a multiple of r: residual %r' % (path, bad))
    n_ob += 1
    ctx.ob(rule, not msgs, 'wordalg-c++|PowersOfX::decompose', loc_str(f), 'PowersOfX::decompose: %s' % ' ;; '.join(x[:600] for x in msgs[:2]), cfg=cfg,
           sample=dict(config=cfg, routine='PowersOfX::decompose', paths=len(finals), specification='sum c_i |x|^i == y (mod r), identically in y'))
    return n_ob


def rule_glv_decompose(ctx, cfg, prog, rule='R-WORDALG/c++'):
    """decompose_lambda(c0, c0_neg, c1, c1_neg, k):  (+-c0) + lambda * (+-c1) == k (mod r) identically in k on every path, where lambda
    is the eigenvalue fixed by the lattice constant (lambda * v1_2 == 1 mod r; R-CONST ties it to beta).  The identity holds for ANY
    rounded_b2 (the lattice vectors are in the kernel), so floordiv_by_fr_p_value is replaced by an arbitrary 128-bit value after the
    check that it can only write its result argument; what is decided is that the recombination is exact: no product, add-back or
    ordered subtraction wraps, and the signs match the branch taken."""
    from . import buildmodel as bm, bls, consts
    wordbits = bm.configs()[cfg]['words']
    NS_ = 'embedded_pairing::bls12_381::'
    fs = prog.fn_by_qn(NS_ + 'decompose_lambda')
    if len(fs) != 1:
        raise bm.AnalysisBroken('decompose_lambda not found')
    f = fs[0]
    ps = f['params']
    if len(ps) != 5:
        raise bm.AnalysisBroken('decompose_lambda: unexpected signature')
    R = bls.R_ORDER
    g = prog.globals.get(NS_ + 'g1_v1_2')
    if g is None or 'value' not in g:
        raise bm.AnalysisBroken('g1_v1_2 not found')
    lam = bls.inv(consts.as_int(consts.decode(g['value'])), R)
    nw = 256 // wordbits
    try:
        inputs = {'C0': nw, 'C1': nw, 'K': nw}
        m = CppMachine(prog, wordbits, inputs)
        m.big_summaries = True
        m.scalars = {'N0', 'N1'}
        m.havoc_calls = {NS_ + 'floordiv_by_fr_p_value'}
        st = St(Path(), [Frame(f, None)])
        for p, o in zip(ps, ('C0', 'N0', 'C1', 'N1', 'K')):
            st.fr.vars[p['id']] = ('obj', o, 0)
        # the outputs start undefined: reading them before writing is an error, so do not treat them as inputs
        del m.inputs['C0'], m.inputs['C1']
        finals = m.exec(st, f['body'])
    except Unsupported as e:
        raise bm.AnalysisBroken('R-WORDALG/c++ cannot model decompose_lambda: %s' % e)
    K = bigw(m, words_of(m, 'K', nw))
    msgs = []
    for st in finals:
        sub = {a: ZPoly.const(v) for a, v in st.p.bits.items()}
        path = '[' + '; '.join(st.p.trace[-6:]) + ']'
        vals = []
        bad = False
        for (o, n_) in (('C0', 'N0'), ('C1', 'N1')):
            ws = [st.p.mem.get((o, i * m.wb)) for i in range(nw)]
            sg = st.p.mem.get((n_, 0))
            if any(w is None for w in ws) or sg is None:
                msgs.append('on the path %s an output (%s or its sign) is not written' % (path, o))
                bad = True
                break
            sg = sg.subs(sub)
            if not sg.is_const() or sg.const_value() not in (0, 1):
                msgs.append('on the path %s the sign of %s is not a constant of the path' % (path, o))
                bad = True
                break
            v = bigw(m, ws)
            vals.append(-v if sg.const_value() else v)
        if bad:
            continue
        D = (m.world.expand(vals[0] + vals[1] * lam) - K).subs(sub)
        if not all(co % R == 0 for co in D.t.values()):
            res = ZPoly({m_: co % R for m_, co in D.t.items() if co % R})
            msgs.append('on the path %s  (+-c0) + lambda*(+-c1) - k  is not a multiple of r: residual (mod r) %r' % (path, res))
    ctx.ob(rule, not msgs and bool(finals), 'wordalg-c++|decompose_lambda', loc_str(f), 'decompose_lambda: %s' % ' ;; '.join(x[:700] for x in msgs[:2]), cfg=cfg,
           sample=dict(config=cfg, routine='decompose_lambda', paths=len(finals), specification='(+-c0) + lambda (+-c1) == k (mod r), identically in k and in the rounded quotient'))
    return 1


# ---------------------------------------------------------------------------------------------- w-NAF recoding step (C06)
def _find_stmt(node, kind):
    from .facts import walk as _walk
    for x in _walk(node):
        if isinstance(x, dict) and x.get('k') == kind:
            return x
    return None


def path_normal(m, st, p):
    if getattr(m, 'infer', False):
        infer_bits(m, st)
    return _path_normal(m, st, p)


def _path_normal(m, st, p):
    """p expanded through the defining identities with the path facts applied - including the facts about DEFINED bits: a bit b with
    b == E(older atoms) that the path fixes to v contributes the linear relation E == v, used to eliminate one atom of E"""
    _check_budget(m)
    sub = {a: ZPoly.const(v) for a, v in st.p.bits.items()}
    # equalities established by comparisons on the path: a sum of non-negative atoms with positive coefficients that equals a small
    # constant fixes every atom whose coefficient exceeds the constant to zero, and a single remaining atom to the quotient
    eqs = {}
    for r in st.p.rels:
        if r[2] != frozenset({'eq'}) or not r[1].is_const():
            continue
        Kc = r[1].const_value() - r[0].t.get((), 0)
        terms = [(m_, c) for m_, c in r[0].t.items() if m_ != ()]
        if Kc < 0 or not all(len(m_) == 1 and m_[0][1] == 1 and c > 0 and m.world.atoms[m_[0][0]]['lo'] >= 0 for m_, c in terms):
            continue
        left = []
        for m_, c in terms:
            if c > Kc:
                eqs[m_[0][0]] = ZERO
            else:
                left.append((m_[0][0], c))
        if len(left) == 1 and Kc % left[0][1] == 0:
            eqs[left[0][0]] = ZPoly.const(Kc // left[0][1])
    if eqs:
        p = p.subs(eqs)
    q = m.world.expand(p).subs(sub)
    for a, v in sorted(st.p.bits.items(), key=lambda kv: -m.world._seq(kv[0])):
        d = m.world.atoms[a].get('defn')
        if d is None:
            continue
        R = m.world.expand(d).subs(sub) - v          # == 0 on this path
        piv = None
        for mono, c in R.t.items():
            if len(mono) == 1 and mono[0][1] == 1 and c in (1, -1):
                kind = m.world.atoms[mono[0][0]]['kind']
                if piv is None or (kind == 'input' and piv[2] != 'input'):
                    piv = (mono[0][0], c, kind)
        if piv is None:
            continue
        x, c, _ = piv
        rest = R - ZPoly.var(x) * c              # c*x + rest == 0  =>  x == -rest / c
        q = q.subs({x: rest * (-c)})
    # equalities established by comparisons on the path
    for r in st.p.rels:
        if r[2] != frozenset({'eq'}):
            continue
        R = m.world.expand(r[0] - r[1]).subs(sub)
        done = set()
        for _ in range(8):
            piv = None
            for mono, c in R.t.items():
                if len(mono) == 1 and mono[0][1] == 1 and c in (1, -1) and mono[0][0] not in done:
                    piv = (mono[0][0], c)
                    break
            if piv is None:
                break
            x, c = piv
            rest = R - ZPoly.var(x) * c
            # a sum of non-negative words that equals zero forces each word to zero: only used when R is a single atom plus a constant
            if len(R.t) <= 2:
                q = q.subs({x: rest * (-c)})
            break
    return q


def rule_wnaf_step(ctx, cfg, prog, rule='R-WORDALG/c++'):
    """WnafScalar<bits, w>::from_bigint: ONE iteration of the recoding loop from an arbitrary state (c any value, a = one byte) satisfies
    c_old == u + 2 * c_new exactly (the lost top bit of c + |u| is re-inserted), stores u at wnaf[i], advances i by one, keeps a a
    single byte, and |u| <= 2^w - 1 (odd or zero) so that u fits the int8 digit and |u| >> 1 indexes the 2^(w-1)-entry tables.  With
    c_0 == scalar (the statements before the loop are executed) and the exit condition c == 0 this gives, by telescoping,
    sum wnaf[j] 2^j == scalar for every scalar; the number of iterations (buffer extent) is R-BOUNDS / R-CARRY."""
    from . import buildmodel as bm
    wordbits = bm.configs()[cfg]['words']
    import re
    n_ob = 0
    for f in sorted(prog.functions.values(), key=lambda f: f['qn']):
        if 'body' not in f:
            continue
        mm = re.match(r'^embedded_pairing::bls12_381::WnafScalar<(\d+), (\d+)U?>::from_bigint$', f['qn'])
        if not mm:
            continue
        bits, w = int(mm.group(1)), int(mm.group(2))
        nw = bits // wordbits
        loop = _find_stmt(f['body'], 'while') or _find_stmt(f['body'], 'do')
        if loop is None:
            raise bm.AnalysisBroken('%s: recoding loop not found' % f['qn'])
        name = 'WnafScalar<%d,%d>::from_bigint' % (bits, w)
        msgs = []
        try:
            m = CppMachine(prog, wordbits, {'S': nw, 'THIS': 0})
            m.big_summaries = True
            m.scalars = {'THIS'}
            m.topdown_splits = True
            m.infer = True
            m.junk_locals = True
            rec = prog.records.get(f.get('parent') or f['qn'].rsplit('::', 1)[0]) or {}
            st = St(Path(), [Frame(f, ('THIS', 0))])
            st.fr.vars[f['params'][0]['id']] = ('obj', 'S', 0)
            # the statements before the loop
            pre = []
            for s in f['body']['body']:
                if s is loop:
                    break
                pre.append(s)
            sts = [st]
            for s in pre:
                nxt = []
                for x in sts:
                    nxt += m.exec(x, s)
                sts = nxt
            if len(sts) != 1:
                raise Unsupported('the statements before the loop fork')
            st = sts[0]
            # locals: c and a (BigInt objects), i (index)
            objs = {}
            ivar = None
            for s in pre:
                if s.get('k') == 'decl':
                    for v in s['vars']:
                        cur = st.fr.vars.get(v['id'])
                        if isinstance(cur, tuple) and cur[0] == 'obj':
                            objs[v['name']] = cur[1]
                        elif (v.get('t') or {}).get('k') == 'int' and isinstance(cur, ZPoly) and cur.is_zero():
                            ivar = v
            if 'c' not in objs or 'a' not in objs or ivar is None:
                raise Unsupported('locals c / a / i not identified')
            S = bigw(m, words_of(m, 'S', nw))
            C0 = sum((m.rd_word(st, objs['c'], i * m.wb) * (m.W ** i) for i in range(nw)), ZPoly())
            A0 = sum((m.rd_word(st, objs['a'], i * m.wb) * (m.W ** i) for i in range(nw)), ZPoly())
            if not (C0 - S).is_zero() or not A0.is_zero():
                msgs.append('before the loop c is not the scalar / a is not zero')
            # arbitrary loop state
            m.inputs['CC'] = nw
            cw = words_of(m, 'CC', nw)
            for i in range(nw):
                st.p.mem[(objs['c'], i * m.wb)] = cw[i]
                st.p.mem[(objs['a'], i * m.wb)] = ZERO
            ab = m.world.input('AB')
            m.world.atoms['AB']['hi'] = 255
            st.p.mem[(objs['a'], 0)] = ab
            I0 = 7
            st.fr.vars[ivar['id']] = ZPoly.const(I0)
            Cold = bigw(m, cw)
            finals = m.exec(st, loop['body'])
        except Unsupported as e:
            raise bm.AnalysisBroken('R-WORDALG/c++ cannot model %s: %s' % (f['qn'], e))
        wn = [x for x in (rec.get('fields') or []) if x['name'] == 'wnaf']
        woff = wn[0]['off'] if wn else 0
        for s2 in finals:
            sub = {a: ZPoly.const(v) for a, v in s2.p.bits.items()}
            path = '[' + '; '.join(s2.p.trace[-5:]) + ']'
            iv = s2.fr.vars.get(ivar['id'])
            if not (isinstance(iv, ZPoly) and iv == ZPoly.const(I0 + 1)):
                msgs.append('on the path %s the digit index is not advanced by exactly one' % path)
                continue
            u = s2.p.mem.get(('THIS', woff + I0))
            if u is None:
                msgs.append('on the path %s no digit is stored at wnaf[i]' % path)
                continue
            Cn = sum((m.rd_word(s2, objs['c'], i * m.wb) * (m.W ** i) for i in range(nw)), ZPoly())
            D = path_normal(m, s2, u + Cn * 2 - Cold)
            if not D.is_zero():
                msgs.append('on the path %s  u + 2*c_new - c_old  is not zero: %r' % (path, D))
            ulo, uhi = m.rng(u.subs(sub))
            for r_ in s2.p.rels:
                if len(r_) == 3 and r_[1].is_const():
                    d = u - r_[0]
                    if d.is_const():
                        y, dv = r_[1].const_value(), d.const_value()
                        if 'gt' not in r_[2]:
                            uhi = min(uhi, (y if 'eq' in r_[2] else y - 1) + dv)
                        if 'lt' not in r_[2]:
                            ulo = max(ulo, (y if 'eq' in r_[2] else y + 1) + dv)
            lim = (1 << w)
            okmag = -lim <= ulo and uhi <= lim
            if okmag:
                # u == +-2^w is excluded by parity: u is odd (or zero on the even path)
                ue = u.subs(sub)
                for bound in (lim, -lim):
                    if ulo <= bound <= uhi:
                        dd = ue - bound
                        cs = [c for m_, c in dd.t.items() if m_ != ()]
                        import math
                        g = 0
                        for c in cs:
                            g = math.gcd(g, abs(c))
                        if not (g > 1 and dd.t.get((), 0) % g != 0) and not dd.is_const():
                            okmag = False
                        if dd.is_const() and dd.const_value() == 0:
                            okmag = False
            if not okmag:
                msgs.append('on the path %s the digit can reach magnitude 2^%d (range [%d, %d]): the table index |u| >> 1 leaves the 2^%d entries' % (path, w, ulo, uhi, w - 1))
            An = [m.rd_word(s2, objs['a'], i * m.wb) for i in range(nw)]
            if any(not x.subs(sub).is_zero() for x in An[1:]) or m.rng(An[0].subs(sub))[1] > 255 or m.rng(An[0].subs(sub))[0] < 0:
                msgs.append('on the path %s the addend a does not stay a single byte' % path)
        n_ob += 1
        ctx.ob(rule, not msgs and bool(finals), 'wordalg-c++|%s|step' % name, loc_str(f), '%s: %s' % (name, ' ;; '.join(x[:500] for x in msgs[:2])), cfg=cfg,
               sample=dict(config=cfg, routine=name, paths=len(finals), specification='one loop iteration: c_old == u + 2 c_new, |u| <= 2^w - 1, digit stored at wnaf[i], i advanced'))
    return n_ob


# ---------------------------------------------------------------------------------------------- binary extended Euclid (C02)
_prev_extern = CppMachine.extern_summary


def _extern_summary_fp(self, st, name, args, e):
    """fpbase add / subtract / multiply2 in assembly: res == a +- b -+ t * p with t a bit (the specification R-WORDALG proves)"""
    import re
    m = re.search(r'_fpbase_(\d+)_(add|subtract|multiply2)$', name)
    if not m:
        return _prev_extern(self, st, name, args, e)
    bits, op = int(m.group(1)), m.group(2)
    n = bits // self.wordbits
    res = self.pointer(st, args[0])
    a = self.pointer(st, args[1])
    b = self.pointer(st, args[2]) if op != 'multiply2' else a
    p = self.pointer(st, args[3] if op != 'multiply2' else args[2])
    A = sum((self.rd_word(st, a[0], a[1] + i * self.wb) * (self.W ** i) for i in range(n)), ZPoly())
    B = sum((self.rd_word(st, b[0], b[1] + i * self.wb) * (self.W ** i) for i in range(n)), ZPoly())
    P = sum((self.rd_word(st, p[0], p[1] + i * self.wb) * (self.W ** i) for i in range(n)), ZPoly())
    tn = self.world.new('t', 'borrow', 0, 1, weight=self.W ** n)
    t = ZPoly.var(tn)
    total = (A - B + t * P) if op == 'subtract' else (A + B - t * P)
    hi = self.rng(P)[1]
    if getattr(self, 'infer', False) and sign_with_facts(self, st, A - P) == 'neg' and sign_with_facts(self, st, B - P) == 'neg':
        hi -= 1          # canonical operands give a canonical result (the specification proven for the routine)
    dn = self.world.new('d', 'val', 0, hi, defn=total)
    _write_big(self, st, res[0], res[1], n, None, ZPoly.var(dn))
    st.fr.ret_from_call = None
    return True


CppMachine.extern_summary = _extern_summary_fp


def _exec_true_branch(m, st, cond_ast, body):
    outs = []
    for (r, s2) in m.cond(st, cond_ast):
        if r:
            outs += m.exec(s2, body)
    return outs


def rule_inverse_step(ctx, cfg, prog, rule='R-WORDALG/c++'):
    """fp_inverse (binary extended Euclid in Montgomery form): with K := R^2 / a.val (mod p) the loop invariant is
    b == K u and c == K v (mod p).  Decided per statement of the loop body, from an ARBITRARY state: a halving step gives u == 2u',
    2(b' - K u') == (b - K u) (mod p); the subtraction step gives b' - K u' == (b - K u) - (c - K v) (mod p) (resp. for c, v); the
    statements before the loop establish b = R^2, c = 0, u = a.val, v = p; after the loop the result is b when u == 1 and c
    otherwise, and the loop runs while neither is one.  Hence res == K == a^-1 R (mod p) whenever the loop ends (termination is not
    decided); a == 0 gives 0."""
    from . import buildmodel as bm, consts
    wordbits = bm.configs()[cfg]['words']
    n_ob = 0
    for f in sorted(prog.functions.values(), key=lambda f: f['qn']):
        if 'body' not in f or not f['qn'].startswith('embedded_pairing::core::fp_inverse<'):
            continue
        name = f['qn'].replace('embedded_pairing::', '')[:70]
        msgs = []
        body = f['body']['body']
        outer = [s for s in body if s.get('k') == 'while']
        if len(outer) != 1:
            raise bm.AnalysisBroken('%s: expected one outer loop, found %d' % (f['qn'], len(outer)))
        outer = outer[0]
        ob = outer['body']['body'] if outer['body'].get('k') == 'compound' else [outer['body']]
        inner = [s for s in ob if s.get('k') == 'while']
        ifs = [s for s in ob if s.get('k') == 'if']
        # what follows the loop selects the result (an if / else, or a reference bound by `?:` and a copy): executed as it is
        tail_stmts = [s for s in body[body.index(outer) + 1:] if s.get('k') not in ('null',)]
        tail = [{'k': 'compound', 'l': (tail_stmts[0].get('l') if tail_stmts else None), 'body': tail_stmts}] if tail_stmts else []
        if len(inner) != 2 or len(ifs) != 1 or len(tail) != 1 or len(ob) != 3:
            raise bm.AnalysisBroken('%s: the loop body is not two halving loops and one subtraction step (restructured: no verdict)' % f['qn'])
        pt = (f['params'][0]['t'].get('pointee') or {})
        nbytes = pt.get('size') or 0
        try:
            nw = nbytes // (wordbits // 8)
            m = CppMachine(prog, wordbits, {'RES': 0, 'A': nw})
            import time as _time
            m.deadline = _time.time() + 240        # today's tree takes a few seconds per instantiation
            m.big_summaries = True
            m.topdown_splits = True
            m.infer = True
            m.junk_locals = True
            st = St(Path(), [Frame(f, None)])
            st.fr.vars[f['params'][0]['id']] = ('obj', 'RES', 0)
            st.fr.vars[f['params'][1]['id']] = ('obj', 'A', 0)
            pre = body[:body.index(outer)]
            sts = [st]
            for s in pre:
                nxt = []
                for x in sts:
                    nxt += m.exec(x, s)
                sts = nxt
            zero_paths = [x for x in sts if x.fr.returned]
            live = [x for x in sts if not x.fr.returned]
            if not zero_paths or not live:
                msgs.append('the zero test before the loop was not found')
            for x in zero_paths:
                rw = [x.p.mem.get(('RES', i * m.wb)) for i in range(nw)]
                if any(w is None or not m.subst(x, w).is_zero() for w in rw):
                    msgs.append('the inverse of zero is not zero')
            # all live paths must agree on the initial state
            st = live[0]
            objs = {}
            for s in pre:
                if s.get('k') == 'decl':
                    for v in s['vars']:
                        cur = st.fr.vars.get(v['id'])
                        if isinstance(cur, tuple) and cur[0] == 'obj':
                            objs[v['name']] = cur[1]
            for need in ('b', 'c', 'u', 'v'):
                if need not in objs:
                    raise Unsupported('local %s not identified' % need)

            var_ids = {}
            for s in pre:
                if s.get('k') == 'decl':
                    for v in s['vars']:
                        var_ids[v['name']] = v['id']

            def big(s_, o):
                # forked states name their locals independently
                cur = s_.fr.vars.get(var_ids[o])
                return sum((m.rd_word(s_, cur[1], cur[2] + i * m.wb) * (m.W ** i) for i in range(nw)), ZPoly())
            Aw = bigw(m, words_of(m, 'A', nw))
            # constants
            fp = f['qn'][len('embedded_pairing::core::fp_inverse<'):-1]
            rec = prog.records.get(pt.get('rec')) or {}
            Pval = None
            for gname in ('%s::p_value' % pt.get('rec'),):
                g = prog.globals.get(gname)
                hops = 0
                while g is not None and isinstance(g.get('value'), dict) and 'lvalue' in g['value'] and hops < 8:
                    g = prog.globals.get(g['value']['lvalue'])
                    hops += 1
                if g is not None and 'value' in g:
                    Pval = consts.as_int(consts.decode(g['value']))
            if not isinstance(Pval, int):
                # the modulus is the value v starts from
                pv = big(st, 'v')
                Pval = pv.const_value() if pv.is_const() else None
            if not isinstance(Pval, int) or Pval < 3:
                raise Unsupported('modulus not identified')
            for x in live:
                if not (big(x, 'u') - Aw).is_zero() or not (big(x, 'v') - Pval).is_zero() or not big(x, 'c').is_zero():
                    msgs.append('before the loop (u, v, c) is not (a, p, 0): u - a = %r, v - p = %r, c = %r' % (big(x, 'u') - Aw, big(x, 'v') - Pval, big(x, 'c')))
                bv = big(x, 'b')
                R2 = pow(1 << (nw * wordbits), 2, Pval)
                if not (bv.is_const() and bv.const_value() == R2):
                    msgs.append('before the loop b is not R^2 mod p')

            def arbitrary():
                s0 = live[0].fork()
                vals = {}
                for o in ('u', 'v', 'b', 'c'):
                    nm = 'ST_' + o.upper()
                    m.inputs[nm] = nw
                    ws = words_of(m, nm, nw)
                    # all four values are at most p (b, c canonical; u, v decrease from a < p and p): their top word is at most p's
                    m.world.atoms['%s_%d' % (nm, nw - 1)]['hi'] = Pval >> (wordbits * (nw - 1))
                    for i in range(nw):
                        s0.p.mem[(objs[o], i * m.wb)] = ws[i]
                    vals[o] = bigw(m, ws)
                    # the range part of the invariant: b, c < p (canonical), u, v <= p
                    s0.p.rels.append((vals[o], ZPoly.const(Pval), frozenset({'lt'}) if o in ('b', 'c') else frozenset({'lt', 'eq'}), 'big'))
                return s0, vals
            K = m.world.input('K')
            m.world.atoms['K']['hi'] = Pval - 1

            def inv(vals, which, s_=None):
                if s_ is None:
                    return vals['b' if which == 'b' else 'c'] - K * vals['u' if which == 'b' else 'v']
                return big(s_, which) - K * big(s_, 'u' if which == 'b' else 'v')

            def range_ok(s_, path):
                infer_bits(m, s_)
                for o in ('b', 'c'):
                    if sign_with_facts(m, s_, big(s_, o) - Pval) != 'neg':
                        msgs.append('on the path %s %s is not shown to stay below p (the representation must stay canonical: the next modular subtraction relies on it)' % (path, o))
                for o in ('u', 'v'):
                    if sign_with_facts(m, s_, big(s_, o) - Pval - 1) != 'neg':
                        msgs.append('on the path %s %s is not shown to stay at most p' % (path, o))

            def mod_p_zero(s_, D):
                D = path_normal(m, s_, D)
                return all(co % Pval == 0 for co in D.t.values()), D

            # halving steps
            for (loop, val, acc, oval, oacc) in ((inner[0], 'u', 'b', 'v', 'c'), (inner[1], 'v', 'c', 'u', 'b')):
                # identify which pair the loop works on from its condition
                s0, vals = arbitrary()
                outs = _exec_true_branch(m, s0, loop['c'], loop['body'])
                if not outs:
                    msgs.append('a halving loop has no feasible iteration')
                for s2 in outs:
                    path = '[' + '; '.join(s2.p.trace[-4:]) + ']'
                    # which value was halved?
                    halved = None
                    for cand in ('u', 'v'):
                        if path_normal(m, s2, big(s2, cand) * 2 - vals[cand]).is_zero():
                            halved = cand
                    if halved is None:
                        msgs.append('on the path %s of a halving loop neither u nor v is halved exactly' % path)
                        continue
                    a_ = 'b' if halved == 'u' else 'c'
                    o_ = 'c' if halved == 'u' else 'b'
                    ov = 'v' if halved == 'u' else 'u'
                    ok1, D1 = mod_p_zero(s2, inv(None, a_, s2) * 2 - inv(vals, a_))
                    if not ok1:
                        if os.environ.get('JPV_DEBUG'):
                            print('DEBUG path', s2.p.trace, s2.p.bits)
                            print('   D1 =', ' + '.join('%#x*%s' % (c_, '*'.join(a for a, e in m_)) for m_, c_ in sorted(D1.t.items(), key=lambda kv: str(kv[0]))))
                            for a in sorted(D1.atoms()):
                                at = m.world.atoms[a]
                                print('      ', a, at['kind'], (at['lo'], hex(at['hi'])), 'defn', repr(at.get('defn'))[:160])
                                for b_, bt in m.world.atoms.items():
                                    if bt.get('defn') is not None and a in bt['defn'].atoms():
                                        print('           used by', b_, bt['kind'], repr(bt['defn'])[:200])
                        msgs.append('on the path %s halving %s: 2(%s\' - K %s\') - (%s - K %s) is not a multiple of p: %r' % (path, halved, a_, halved, a_, halved, D1))
                    if not path_normal(m, s2, big(s2, ov) - vals[ov]).is_zero() or not path_normal(m, s2, big(s2, o_) - vals[o_]).is_zero():
                        msgs.append('on the path %s halving %s changes the other pair' % (path, halved))
                    range_ok(s2, path)
            # subtraction step
            s0, vals = arbitrary()
            outs = m.exec(s0, ifs[0])
            if not outs:
                msgs.append('the subtraction step has no feasible path')
            for s2 in outs:
                path = '[' + '; '.join(s2.p.trace[-4:]) + ']'
                done = False
                for (x_, y_, a_, o_) in (('u', 'v', 'b', 'c'), ('v', 'u', 'c', 'b')):
                    if path_normal(m, s2, big(s2, x_) - (vals[x_] - vals[y_])).is_zero() and path_normal(m, s2, big(s2, y_) - vals[y_]).is_zero():
                        ok1, D1 = mod_p_zero(s2, inv(None, a_, s2) - (inv(vals, a_) - inv(vals, o_)))
                        ok2 = path_normal(m, s2, big(s2, o_) - vals[o_]).is_zero()
                        if not ok1 or not ok2:
                            msgs.append('on the path %s (%s := %s - %s): %s\' - K %s\' is not (%s - K %s) - (%s - K %s) modulo p: %r' % (path, x_, x_, y_, a_, x_, a_, x_, o_, y_, D1))
                        done = True
                        range_ok(s2, path)
                if not done:
                    msgs.append('on the path %s the step is not u := u - v or v := v - u (exactly, no borrow)' % path)
            # exit: loop condition and result selection
            s0, vals = arbitrary()
            outs = m.exec(s0, tail[0])
            sel = set()
            for s2 in outs:
                rw = sum(((s2.p.mem.get(('RES', i * m.wb)) or ZPoly.var('?')) * (m.W ** i) for i in range(nw)), ZPoly()) if all(
                    s2.p.mem.get(('RES', i * m.wb)) is not None for i in range(nw)) else None
                if rw is None:
                    msgs.append('the result is not written after the loop')
                    continue
                one_u = path_normal(m, s2, vals['u'] - 1).is_zero()
                if path_normal(m, s2, rw - vals['b']).is_zero():
                    sel.add('b')
                    if not one_u:
                        if os.environ.get('JPV_DEBUG'):
                            print('DEBUG exit path', s2.p.trace, s2.p.bits, [(repr(r[0])[:80], repr(r[1])[:30], sorted(r[2])) for r in s2.p.rels if len(r) == 3])
                            print('   u-1 =', repr(path_normal(m, s2, vals['u'] - 1))[:300])
                        # b is returned on a path where u == 1 is not established
                        msgs.append('the result is b on a path where u == 1 is not established')
                elif path_normal(m, s2, rw - vals['c']).is_zero():
                    sel.add('c')
                else:
                    msgs.append('the result after the loop is neither b nor c')
            if sel != {'b', 'c'}:
                msgs.append('after the loop the result is not selected between b (u == 1) and c')
            # loop condition: !u.is_one() && !v.is_one()
            cnames = sorted((pr_canon(c.get('this')), c.get('name')) for c in walk(outer['c']) if isinstance(c, dict) and c.get('k') == 'call')
            oc = strip(outer['c'])
            while isinstance(oc, dict) and oc.get('k') == 'cast':
                oc = strip(oc['e'])

            def _tt(x, env):
                # truth value of the condition under an assignment of the two is_one() tests (None: not a boolean combination of them)
                x = strip(x)
                while isinstance(x, dict) and x.get('k') in ('cast', 'paren'):
                    x = strip(x['e'])
                if not isinstance(x, dict):
                    return None
                if x.get('k') == 'call' and x.get('name') == 'is_one' and x.get('this') is not None:
                    return env.get(pr_canon(x['this']))
                if x.get('k') == 'un' and x.get('op') == '!':
                    v_ = _tt(x['e'], env)
                    return None if v_ is None else (not v_)
                if x.get('k') == 'bin' and x.get('op') in ('&&', '||'):
                    a_, b_ = _tt(x['lhs'], env), _tt(x['rhs'], env)
                    if a_ is None or b_ is None:
                        return None
                    return (a_ and b_) if x['op'] == '&&' else (a_ or b_)
                return None
            objs_ = sorted({o for (o, _) in cnames})
            shape = len(objs_) == 2 and all(_tt(oc, {objs_[0]: a_, objs_[1]: b_}) == ((not a_) and (not b_))
                                            for a_ in (False, True) for b_ in (False, True))
            if {nm for (_, nm) in cnames} != {'is_one'} or len(objs_) != 2 or not shape:
                msgs.append('the loop condition is not `neither u nor v is one`')
        except Unsupported as e:
            raise bm.AnalysisBroken('R-WORDALG/c++ cannot model %s: %s' % (f['qn'], e))
        n_ob += 1
        ctx.ob(rule, not msgs, 'wordalg-c++|%s|steps' % name, loc_str(f), '%s: %s' % (name, ' ;; '.join(x[:500] for x in msgs[:2])), cfg=cfg,
               sample=dict(config=cfg, routine=name, specification='loop invariant b == K u, c == K v (mod p), K = R^2 / a: initial state, both halving steps, subtraction step, result selection'))
    return n_ob


def pr_canon(e):
    from . import pathrules as _pr
    return _pr.canon(e) if e is not None else None


# ---------------------------------------------------------------------------------------------- bit-serial division (32-bit-word configurations)
def _bitserial_loop(fn):
    """the inner restoring-division loop of divide_std_dword (present when no 128-bit type exists): (for node, {name: var id})"""
    fors = [x for x in walk(fn['body']) if isinstance(x, dict) and x.get('k') == 'for']
    ids = {}
    for x in walk(fn['body']):
        if isinstance(x, dict) and x.get('k') == 'decl':
            for v in x['vars']:
                ids.setdefault(v.get('name'), []).append(v['id'])
    nested = set()
    for f_ in fors:
        for x in walk(f_['body']):
            if isinstance(x, dict) and x.get('k') == 'for':
                nested.add(id(x))
    for f_ in fors:
        inner_fors = [x for x in walk(f_['body']) if isinstance(x, dict) and x.get('k') == 'for']
        if inner_fors or id(f_) not in nested:
            continue
        names = {strip(x['lhs']).get('name') for x in walk(f_['body']) if isinstance(x, dict) and x.get('k') == 'assign' and strip(x['lhs']).get('k') == 'ref'}
        if {'rem', 'quotient'} <= names:
            return f_, ids
    return None, ids


def check_bitserial_step(prog, fn, wordbits):
    """one iteration of the restoring division, for every bit position, from an arbitrary state with rem < d and the quotient bits at and
    below the position clear:  rem' + d*q == 2*rem + bit_i(lower),  0 <= rem' < d,  quotient' == quotient + q * 2^i  with q the path's 0/1.
    Returns (messages, iterations checked, divisor)."""
    import re
    loop, ids = _bitserial_loop(fn)
    mm = re.search(r'divide_std_dword<(\d+)', fn['qn'])
    if loop is None or not mm:
        return None
    d = int(mm.group(1))
    msgs = []
    init = loop.get('init')
    ivid = init['vars'][0]['id'] if init and init.get('k') == 'decl' else None
    rem_id = [i for i in ids.get('rem', [])]
    q_id = ids.get('quotient', [])
    low_id = ids.get('dividend_lower', [])
    if ivid is None or len(rem_id) != 1 or len(q_id) != 1 or len(low_id) != 1:
        return (['the variables of the restoring division were not identified'], 0, d)
    nit = 0
    for i in range(63, -1, -1):
        m = CppMachine(prog, wordbits, {'THIS': 0, 'A': 0})
        m.infer = True
        m.value_facts = True
        m.topdown_splits = True
        st = St(Path(), [Frame(fn, ('THIS', 0))])
        rem = m.world.input('REM')
        m.world.atoms['REM']['hi'] = d - 1
        low = m.world.input('LOW')
        m.world.atoms['LOW']['hi'] = (1 << 64) - 1
        qh = m.world.input('QH')
        m.world.atoms['QH']['hi'] = (1 << (63 - i)) - 1
        quo = qh * (1 << (i + 1)) if i < 63 else ZERO
        st.fr.vars[rem_id[0]] = rem
        st.fr.vars[low_id[0]] = low
        st.fr.vars[q_id[0]] = quo
        st.fr.vars[ivid] = ZPoly.const(i)
        try:
            outs = m.exec(st, loop['body'])
        except Unsupported as e:
            return (['bit %d: %s' % (i, e)], nit, d)
        nit += 1
        lo_i, hi_i = m.split(low, i) if i else (ZERO, low)
        bit_i = m.split(hi_i, 1)[0]
        for s2 in outs:
            infer_bits(m, s2)
            r2 = s2.fr.vars.get(rem_id[0])
            q2 = s2.fr.vars.get(q_id[0])
            path = '[' + '; '.join(s2.p.trace[-3:]) + ']'
            dq = _path_normal(m, s2, q2 - quo)
            if not dq.is_const() or dq.const_value() not in (0, 1 << i):
                msgs.append('bit %d, path %s: the quotient changes by %r, not by 0 or 2^%d' % (i, path, dq, i))
                continue
            qb = 1 if dq.const_value() else 0
            D = _path_normal(m, s2, r2 + d * qb - rem * 2 - bit_i)
            if not D.is_zero():
                msgs.append('bit %d, path %s: rem\' + d*q - 2*rem - bit is %r' % (i, path, D))
                continue
            if sign_with_facts(m, s2, r2 - d) != 'neg' or sign_with_facts(m, s2, r2) != 'nonneg':
                # the true value 2*rem + bit - d*q must lie in [0, d)
                tv = rem * 2 + bit_i - d * qb
                if sign_with_facts(m, s2, tv - d) != 'neg' or sign_with_facts(m, s2, tv) != 'nonneg':
                    msgs.append('bit %d, path %s: the new remainder is not shown to lie in [0, d)' % (i, path))
        if len(msgs) > 4:
            break
    return (msgs, nit, d)


# ---------------------------------------------------------------------------------------------- Legendre symbol (C02, C09, C10)
def rule_legendre(ctx, cfg, prog, rule='R-WORDALG/c++'):
    """Fp::legendre: the exponent computed at run time from the modulus is exactly (p - 1) / 2, the value is raised to it by the generic
    exponentiation (its bit weights are decided by R-POLY/exp), and the verdict is 0 exactly when the power is zero, 1 exactly when it
    is the Montgomery one, -1 otherwise.  The power routine is replaced by an arbitrary result (after recording its arguments)."""
    from . import buildmodel as bm, consts
    wordbits = bm.configs()[cfg]['words']
    n_ob = 0
    for f in sorted(prog.functions.values(), key=lambda f: f['qn']):
        if 'body' not in f or not f['qn'].startswith('embedded_pairing::core::Fp<') or not f['qn'].endswith('::legendre'):
            continue
        rec = f.get('parent') or f['qn'].rsplit('::', 1)[0]
        size = (prog.records.get(rec) or {}).get('size') or 0
        if not size:
            continue
        nw = size // (wordbits // 8)
        name = f['qn'].replace('embedded_pairing::core::', '')
        name = name[:20] + '...' + name[-12:] if len(name) > 40 else name
        msgs = []
        # modulus and Montgomery one from the class constants
        vals = {}
        for cn in ('p_value', 'r_value'):
            g = prog.globals.get('%s::%s' % (rec, cn))
            hops = 0
            while g is not None and isinstance(g.get('value'), dict) and 'lvalue' in g['value'] and hops < 8:
                g = prog.globals.get(g['value']['lvalue'])
                hops += 1
            if g is not None and 'value' in g:
                vals[cn] = consts.as_int(consts.decode(g['value']))
        # the class constants are references to the template arguments: Fp<bits, p, r, r2, inv>
        ta = [x.strip() for x in rec[rec.index('<') + 1:rec.rindex('>')].split(',')] if '<' in rec else []
        for cn, idx in (('p_value', 1), ('r_value', 2)):
            if not isinstance(vals.get(cn), int) and len(ta) > idx:
                g = prog.globals.get(ta[idx])
                if g is not None and 'value' in g:
                    vals[cn] = consts.as_int(consts.decode(g['value']))
        if not isinstance(vals.get('p_value'), int) or not isinstance(vals.get('r_value'), int):
            raise bm.AnalysisBroken('%s: modulus / Montgomery one not found' % f['qn'])
        P, Rm = vals['p_value'], vals['r_value']
        calls = []
        try:
            m = CppMachine(prog, wordbits, {'SELF': nw})
            m.infer = True
            m.junk_locals = True
            m.topdown_splits = True

            def hook(mach, st, e, callee):
                args = e.get('args', [])
                objs = []
                for a in args[:3]:
                    x = a
                    while isinstance(x, dict) and x.get('k') == 'cast' and x.get('ck') in ('NoOp', 'DerivedToBase', 'UncheckedDerivedToBase'):
                        x = x['e']
                    objs.append(mach.lvalue(st, x))
                expo = sum((mach.rd_word(st, objs[2][0], objs[2][1] + i * mach.wb) * (mach.W ** i) for i in range(nw)), ZPoly())
                calls.append((objs[1], mach.subst(st, expo)))
                mach.inputs['POW'] = nw
                for i, wv in enumerate(words_of(mach, 'POW', nw)):
                    st.p.mem[(objs[0][0], objs[0][1] + i * mach.wb)] = wv
                st.fr.ret_from_call = None
                return [st]
            m.call_hooks = {'embedded_pairing::core::exponentiate': hook}
            st = St(Path(), [Frame(f, ('SELF', 0))])
            finals = m.exec(st, f['body'])
        except Unsupported as e:
            raise bm.AnalysisBroken('R-WORDALG/c++ cannot model %s: %s' % (f['qn'], e))
        if len(calls) < 1 or any(c[0] != ('SELF', 0) for c in calls):
            msgs.append('the value itself is not what is raised to the power')
        for (_, ex) in calls:
            if not (ex.is_const() and ex.const_value() == (P - 1) // 2):
                msgs.append('the exponent is %r, not (p - 1) / 2' % ex)
        T = bigw(m, words_of(m, 'POW', nw))
        seen = set()
        for s2 in finals:
            rv = s2.fr.ret
            if not (isinstance(rv, ZPoly) and rv.is_const() and rv.const_value() in (0, 1, -1)):
                msgs.append('a path returns %r' % (rv,))
                continue
            rv = rv.const_value()
            seen.add(rv)
            isz = path_normal(m, s2, T).is_zero()
            iso = path_normal(m, s2, T - Rm).is_zero()
            if rv == 0 and not isz:
                msgs.append('0 is returned on a path where the power is not established to be zero')
            if rv == 1 and not iso:
                msgs.append('1 is returned on a path where the power is not established to be one')
            if rv == -1 and (isz or iso):
                msgs.append('-1 is returned although the power is zero / one')
        if seen != {0, 1, -1}:
            msgs.append('not all of 0, 1, -1 can be returned (%s)' % sorted(seen))
        n_ob += 1
        ctx.ob(rule, not msgs, 'wordalg-c++|%s|legendre' % name, loc_str(f), '%s: %s' % (f['qn'][:80], ' ;; '.join(msgs[:2])), cfg=cfg,
               sample=dict(config=cfg, routine=name, paths=len(finals), specification='exponent (p-1)/2; 0 / 1 / -1 exactly for power zero / one / other'))
    return n_ob
