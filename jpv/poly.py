"""Sparse multivariate polynomials over F_q (value domain of the algebraic value numbering in jpv/gvn.py) and the
definitional arithmetic of the tower Fq2 = Fq[u]/(u^2+1), Fq6 = Fq2[v]/(v^3-(u+1)), Fq12 = Fq6[w]/(w^2-v) over them."""
from . import bls

Q = bls.Q


class Poly:
    """dict {monomial: coeff}; monomial = tuple of (var, exp) sorted by var; coefficients reduced mod q"""
    __slots__ = ('t',)

    def __init__(self, t=None):
        self.t = t or {}

    @staticmethod
    def const(c):
        c %= Q
        return Poly({(): c} if c else {})

    @staticmethod
    def var(name):
        return Poly({((name, 1),): 1})

    def __add__(self, o):
        o = o if isinstance(o, Poly) else Poly.const(o)
        r = dict(self.t)
        for m, c in o.t.items():
            v = (r.get(m, 0) + c) % Q
            if v:
                r[m] = v
            else:
                r.pop(m, None)
        return Poly(r)

    __radd__ = __add__

    def __neg__(self):
        return Poly({m: (-c) % Q for m, c in self.t.items()})

    def __sub__(self, o):
        o = o if isinstance(o, Poly) else Poly.const(o)
        return self + (-o)

    def __rsub__(self, o):
        return (-self) + o

    def __mul__(self, o):
        if not isinstance(o, Poly):
            o = Poly.const(o)
        r = {}
        a, b = self.t, o.t
        if len(a) > len(b):
            a, b = b, a
        get = r.get
        for m1, c1 in a.items():
            if not m1:
                for m2, c2 in b.items():
                    r[m2] = get(m2, 0) + c1 * c2
                continue
            for m2, c2 in b.items():
                m = _mono_mul_cached(m1, m2)
                r[m] = get(m, 0) + c1 * c2
        out = {}
        for m, c in r.items():
            c %= Q
            if c:
                out[m] = c
        return Poly(out)

    __rmul__ = __mul__

    def __eq__(self, o):
        o = o if isinstance(o, Poly) else Poly.const(o)
        return self.t == o.t

    def __hash__(self):
        return hash(frozenset(self.t.items()))

    def is_zero(self):
        return not self.t

    def nterms(self):
        return len(self.t)

    def degree(self):
        return max((sum(e for _, e in m) for m in self.t), default=0)

    def vars(self):
        return set(v for m in self.t for v, _ in m)

    def subst(self, mapping):
        """substitute variables by polynomials"""
        out = Poly()
        for m, c in self.t.items():
            term = Poly.const(c)
            for v, e in m:
                p = mapping.get(v)
                if p is None:
                    p = Poly.var(v)
                for _ in range(e):
                    term = term * p
            out = out + term
        return out

    def __repr__(self):
        if not self.t:
            return '0'
        parts = []
        for m, c in sorted(self.t.items(), key=lambda x: str(x[0]))[:6]:
            cs = c if c <= Q // 2 else c - Q
            parts.append('%s%s' % (cs, ''.join('*%s%s' % (v, ('^%d' % e) if e > 1 else '') for v, e in m)))
        return ' + '.join(parts) + (' + ...(%d terms)' % len(self.t) if len(self.t) > 6 else '')


_MM = {}


def _mono_mul_cached(a, b):
    k = (a, b)
    v = _MM.get(k)
    if v is None:
        v = mono_mul(a, b)
        if len(_MM) < 2000000:
            _MM[k] = v
    return v


def mono_mul(a, b):
    if not a:
        return b
    if not b:
        return a
    d = dict(a)
    for v, e in b:
        d[v] = d.get(v, 0) + e
    return tuple(sorted(d.items()))


ZERO = Poly()
ONE = Poly.const(1)


# ---------------- definitional tower arithmetic over any ring element type supporting + - * ----------------
class F2:
    """c0 + c1*u, u^2 = -1"""
    __slots__ = ('c0', 'c1')

    def __init__(self, c0, c1):
        self.c0, self.c1 = c0, c1

    def __add__(self, o):
        return F2(self.c0 + o.c0, self.c1 + o.c1)

    def __sub__(self, o):
        return F2(self.c0 - o.c0, self.c1 - o.c1)

    def __neg__(self):
        return F2(-self.c0, -self.c1)

    def __mul__(self, o):
        return F2(self.c0 * o.c0 - self.c1 * o.c1, self.c0 * o.c1 + self.c1 * o.c0)

    def conj(self):
        return F2(self.c0, -self.c1)

    def leaves(self):
        return [('c0',), ('c1',)], [self.c0, self.c1]

    def scale(self, k):
        return F2(self.c0 * k, self.c1 * k)

    @staticmethod
    def const(a, b=0):
        return F2(Poly.const(a), Poly.const(b))


XI = F2(ONE, ONE)


class F6:
    """c0 + c1*v + c2*v^2, v^3 = xi"""
    __slots__ = ('c0', 'c1', 'c2')

    def __init__(self, c0, c1, c2):
        self.c0, self.c1, self.c2 = c0, c1, c2

    def __add__(self, o):
        return F6(self.c0 + o.c0, self.c1 + o.c1, self.c2 + o.c2)

    def __sub__(self, o):
        return F6(self.c0 - o.c0, self.c1 - o.c1, self.c2 - o.c2)

    def __neg__(self):
        return F6(-self.c0, -self.c1, -self.c2)

    def __mul__(self, o):
        a, b = [self.c0, self.c1, self.c2], [o.c0, o.c1, o.c2]
        t = [None] * 5
        for i in range(3):
            for j in range(3):
                p = a[i] * b[j]
                t[i + j] = p if t[i + j] is None else t[i + j] + p
        return F6(t[0] + t[3] * XI, t[1] + t[4] * XI, t[2])

    def mul_by_v(self):
        return F6(self.c2 * XI, self.c0, self.c1)

    def scale2(self, k):
        return F6(self.c0 * k, self.c1 * k, self.c2 * k)


class F12:
    """c0 + c1*w, w^2 = v"""
    __slots__ = ('c0', 'c1')

    def __init__(self, c0, c1):
        self.c0, self.c1 = c0, c1

    def __add__(self, o):
        return F12(self.c0 + o.c0, self.c1 + o.c1)

    def __sub__(self, o):
        return F12(self.c0 - o.c0, self.c1 - o.c1)

    def __mul__(self, o):
        return F12(self.c0 * o.c0 + (self.c1 * o.c1).mul_by_v(), self.c0 * o.c1 + self.c1 * o.c0)

    def conj(self):
        return F12(self.c0, -self.c1)


def flat(x):
    """leaf polynomials of a tower element in (c0.c0.c0, c0.c0.c1, ...) order with their leaf paths"""
    if isinstance(x, Poly):
        return [((), x)]
    out = []
    for name in x.__slots__:
        for (p, v) in flat(getattr(x, name)):
            out.append(((name,) + p, v))
    return out


def sym_f2(prefix):
    return F2(Poly.var(prefix + '.c0'), Poly.var(prefix + '.c1'))


def sym_f6(prefix):
    return F6(sym_f2(prefix + '.c0'), sym_f2(prefix + '.c1'), sym_f2(prefix + '.c2'))


def sym_f12(prefix):
    return F12(sym_f6(prefix + '.c0'), sym_f6(prefix + '.c1'))


def frobenius_f2(a, k):
    return a if k % 2 == 0 else a.conj()


def _const_f2(t):
    return F2(Poly.const(t[0]), Poly.const(t[1]))


def frobenius_f6(a, k):
    g1 = _const_f2(bls.f2_pow(bls.XI, (Q ** k - 1) // 3))
    g2 = _const_f2(bls.f2_pow(bls.XI, (2 * Q ** k - 2) // 3))
    return F6(frobenius_f2(a.c0, k), frobenius_f2(a.c1, k) * g1, frobenius_f2(a.c2, k) * g2)


def frobenius_f12(a, k):
    g = _const_f2(bls.f2_pow(bls.XI, (Q ** k - 1) // 6))
    c1 = frobenius_f6(a.c1, k)
    return F12(frobenius_f6(a.c0, k), F6(c1.c0 * g, c1.c1 * g, c1.c2 * g))
