"""Exponent domain for the multiplicative group of Fq12 (R-POLY/exp): every Fq12 object is numbered by the exponent E with
value = g^E for one symbolic generator g, E an integer-linear form over symbolic bits of the scalar (coefficients are plain
integers; q and x are the concrete curve constants).  Fq12 operations act on exponents: multiply -> +, square -> *2,
inverse -> *(-1), conjugate -> *q^6 (conjugation over Fq6 IS the q^6-power Frobenius), frobenius_map(k) -> *q^k.  The
routines' resolved bodies are interpreted (constant loops over bls_x run exactly); nothing is executed on field values."""
from .facts import walk, strip, loc_str, strip_tmpl
from . import gvn, bls, consts
from . import pathrules as pr

NS = 'embedded_pairing::bls12_381::'
Q = bls.Q
N12 = Q ** 12 - 1
CYC = (Q ** 6 - 1) * (Q ** 2 + 1)


class Lin:
    """c0 + sum(c_s * s) with integer coefficients"""
    __slots__ = ('c', 't')

    def __init__(self, c=0, t=None):
        self.c = c
        self.t = t or {}

    def __add__(self, o):
        t = dict(self.t)
        for k, v in o.t.items():
            nv = t.get(k, 0) + v
            if nv:
                t[k] = nv
            else:
                t.pop(k, None)
        return Lin(self.c + o.c, t)

    def scale(self, m):
        return Lin(self.c * m, {k: v * m for k, v in self.t.items() if v * m})

    def __sub__(self, o):
        return self + o.scale(-1)

    def mod(self, n):
        return Lin(self.c % n, {k: v % n for k, v in self.t.items() if v % n})

    def is_const(self):
        return not self.t

    def __eq__(self, o):
        return isinstance(o, Lin) and self.c == o.c and self.t == o.t

    def __repr__(self):
        return 'Lin(%s%s)' % (hex(self.c)[:20], ''.join(' + %s*%s' % (hex(v)[:14], k) for k, v in list(self.t.items())[:3]))


class NotEquivalent(Exception):
    pass


class ExpMachine(gvn.Machine):
    """gvn.Machine with Fq12 as the leaf type and exponent arithmetic as leaf algebra"""

    def __init__(self, prog, bit_symbols=True):
        super().__init__(prog)
        self.assumptions = set()
        self.bit_symbols = bit_symbols
        self.flag_guards = 0
        self.gen_cyclotomic = False
        self.cyclotomic_squarings = 0

    def new_element(self, name, exponent=None):
        oid = self.new_obj()
        self.store[(oid, ())] = exponent if exponent is not None else Lin(0, {name: 1})
        return oid

    def global_leaf(self, gid, path):
        g = self.prog.globals.get(gid)
        if g is not None and g['t'].get('rec', '').endswith('::Fq12') and 'value' in g:
            v = consts.decode(g['value'])
            flat = [consts.fq2_dec(v[a][b]) for a in ('c0', 'c1') for b in ('c0', 'c1', 'c2')]
            if flat == [(1, 0)] + [(0, 0)] * 5:
                return Lin(0)
            raise gvn.Unsupported('Fq12 constant %s is not the identity' % gid)
        if g is not None and gid.endswith('::one') and 'value' not in g and g.get('init') is not None:
            # `const Fp Fp::one = {R}`: initialised from one other constant
            refs = [x for x in walk(g['init']) if x.get('k') == 'ref' and x.get('rk') == 'global']
            g2 = self.prog.globals.get(refs[0]['g']) if len(refs) == 1 else None
            if g2 is not None and 'value' in g2:
                g = dict(g, value=g2['value'])
        if g is not None and gid.endswith('::one') and 'value' in g:
            # Montgomery form of 1 in the first base-field slot, zero elsewhere (also pinned by R-XCONST)
            mod = bls.R_ORDER if (g['t'].get('rec', '').endswith('::Fr') or g['t'].get('rec', '').startswith('embedded_pairing::core::Fp<256')) else Q
            bits = 384 if mod == Q else 256

            def flat(x):
                y = consts.as_int(x)
                if isinstance(y, int):
                    return [y]
                if isinstance(y, dict):
                    return [z for k in sorted(y) for z in flat(y[k])]
                if isinstance(y, list):
                    return [z for k in y for z in flat(k)]
                return [None]
            fl = flat(consts.decode(g['value']))
            if fl and fl[0] == (1 << bits) % mod and not any(fl[1:]):
                return Lin(0)
            raise gvn.Unsupported('constant %s is not the Montgomery form of 1' % gid)
        raise gvn.Unsupported('global %s in exponent domain' % gid)

    def call(self, e, fr, want_value=False):
        name = e.get('name')
        th = e.get('this')
        if name == 'bit' and th is not None:
            base = strip(th)
            while isinstance(base, dict) and base.get('k') in ('cast',):
                base = base['e']
            if isinstance(base, dict) and base.get('k') == 'ref' and base.get('rk') == 'global':
                g = self.prog.globals.get(base['g'])
                v = consts.as_int(consts.decode(g['value'])) if g is not None and 'value' in g else None
                pos = self.int_value(e['args'][0], fr)
                if v is None or pos is None:
                    raise gvn.Unsupported('bit() of a constant with unknown value/position at %s' % loc_str(e))
                return (v >> pos) & 1
            # a bit of run-time data: symbolic
            pos = self.int_value(e['args'][0], fr)
            lv = self.pointer(th, fr) if e.get('arrow') else self.lvalue(th, fr)
            if pos is None:
                raise gvn.Unsupported('bit() with run-time position at %s' % loc_str(e))
            return ('bit', '%s%s#%d' % (self.obj_names.get(lv[0], lv[0]), ''.join('.' + x for x in lv[1]), pos))
        return super().call(e, fr, want_value)

    obj_names = {}

    def leaf_op(self, e, fr, name, th, args, callee):
        def rd(a):
            x = a
            while isinstance(x, dict) and x.get('k') == 'cast':
                x = x['e']
            if isinstance(x, dict) and x.get('k') == 'un' and x.get('op') == '*':
                lv = self.pointer(x['e'], fr)
            else:
                lv = self.lvalue(x, fr)
            return self.read_leaf(lv[0], lv[1], a)
        dst = self.pointer(th, fr) if e.get('arrow') else self.lvalue(th, fr)
        if name == 'multiply':
            v = rd(args[0]) + rd(args[1])
        elif name == 'square':
            v = rd(args[0]).scale(2)
        elif name == 'square_cyclotomic':
            x = rd(args[0])
            # equals squaring only on the cyclotomic subgroup (R-POLY/cyclotomic): the operand must be a power of the generator
            # by a multiple of (q^6-1)(q^2+1), unless the generator itself is given in that subgroup (GT routines)
            if not self.gen_cyclotomic and (x.c % CYC or any(c_ % CYC for c_ in x.t.values())):
                raise NotEquivalent('square_cyclotomic at %s is applied to a value that is not a (q^6-1)(q^2+1)-th power: the fast '
                                    'squaring is only valid on the cyclotomic subgroup' % loc_str(e))
            self.cyclotomic_squarings += 1
            v = x.scale(2)
        elif name == 'inverse':
            v = rd(args[0]).scale(-1)
        elif name == 'conjugate':
            v = rd(args[0]).scale(Q ** 6)
        elif name == 'frobenius_map':
            k = self.int_value(args[1], fr)
            if k is None:
                raise gvn.Unsupported('frobenius power at %s' % loc_str(e))
            v = rd(args[0]).scale(Q ** k)
        elif name in ('copy', 'set'):
            v = rd(args[0])
        else:
            # not a primitive of the exponent algebra: interpret its body (exponentiate_gt, map_to_cyclotomic, ...)
            if callee is not None and 'body' in callee:
                return self.run_generic(e, fr, callee, th, args)
            raise gvn.Unsupported('Fq12 operation %s has no exponent semantics (%s)' % (name, loc_str(e)))
        self.store[dst] = v
        return None

    def run_generic(self, e, fr, callee, th, args):
        this_lv = self.pointer(th, fr) if e.get('arrow') else self.lvalue(th, fr)
        lvs, ints = [], {}
        for i, a in enumerate(args):
            pt = callee['params'][i]['t'] if i < len(callee['params']) else {}
            if pt.get('k') == 'ref':
                x = a
                while isinstance(x, dict) and x.get('k') == 'cast':
                    x = x['e']
                lvs.append(self.lvalue(x, fr))
            elif pt.get('k') == 'ptr':
                lvs.append(self.pointer(a, fr))
            else:
                lvs.append(None)
                ints[i] = self.int_value(a, fr)
        return self.run_fn(callee, this_lv, lvs, ints)

    # symbolic-bit conditionals and the found_one idiom
    def stmt(self, s, fr):
        if s is not None and s.get('k') == 'if':
            # `if (!bit) A else B` is `if (bit) B else A`
            c0 = strip(s['c'])
            while isinstance(c0, dict) and c0.get('k') in ('cast', 'paren'):
                c0 = strip(c0['e'])
            if isinstance(c0, dict) and c0.get('k') == 'un' and c0.get('op') == '!':
                inner = self.cond_value(c0['e'], fr)
                if isinstance(inner, tuple) and inner[0] == 'bit':
                    empty = {'k': 'compound', 'body': [], 'l': s.get('l')}
                    return self.stmt(dict(s, c=c0['e'], then=(s.get('else') or empty), **{'else': s['then']}), fr)
            c = self.cond_value(s['c'], fr)
            if isinstance(c, tuple) and c[0] == 'bit':
                snap = dict(self.store)
                ints0 = dict(fr.ints)
                self.stmt(s['then'], fr)
                then_store = self.store
                self.store = dict(snap)
                ints_then = fr.ints
                fr.ints = dict(ints0)
                if s.get('else') is not None:
                    self.stmt(s['else'], fr)
                merged = dict(self.store)
                for k in set(then_store) | set(self.store):
                    a, b = then_store.get(k), self.store.get(k)
                    if a == b:
                        continue
                    if isinstance(a, Lin) and isinstance(b, Lin):
                        d = a - b
                        if not d.is_const() and any(kk != 'g' and not kk.startswith('g') for kk in d.t):
                            pass
                        # value = b + B*(a-b); requires (a-b) free of bit symbols to stay linear
                        if any(kk.startswith('bit:') for kk in d.t):
                            raise gvn.Unsupported('non-linear dependence on scalar bits at %s' % loc_str(s))
                        prod = Lin(0, {})
                        # B*(c0 + sum c_s s): only the generator symbols may appear in d
                        t = {}
                        if d.c:
                            t['bit:' + c[1]] = d.c
                        for kk, v in d.t.items():
                            t['bit:' + c[1] + '*' + kk] = v
                        merged[k] = b + Lin(0, t)
                    else:
                        merged[k] = a if a is not None else b
                self.store = merged
                # integer/boolean locals that differ become unknown; a flag that the taken arm sets to true is false only
                # if this bit (and the bits of every earlier such merge) was 0
                for k in set(ints_then) | set(fr.ints):
                    tv, ev = ints_then.get(k), fr.ints.get(k)
                    if tv == ev:
                        continue

                    def zs(v):
                        # set of bits known to be 0 whenever the flag value v is false; None = v is never false
                        if isinstance(v, tuple) and v[0] == 'flag':
                            return v[1]
                        if v == 1:
                            return None
                        if v == 0:
                            return frozenset()
                        raise gvn.Unsupported('local changed under a scalar-bit condition at %s' % loc_str(s))
                    zt, ze = zs(tv), zs(ev)
                    ze = None if ze is None else ze | {c[1]}     # the else arm runs only when this bit is 0
                    if zt is None and ze is None:
                        fr.ints[k] = 1
                    else:
                        fr.ints[k] = ('flag', ze if zt is None else (zt if ze is None else zt & ze))
                return
            if isinstance(c, tuple) and c[0] == 'flag':
                # `if (found_one) acc.square(acc)`: flag false => every bit in c[1] was 0.  Taking the branch always is
                # equivalent iff the guarded statement leaves every value unchanged once those bits are set to 0.
                if s.get('else') is not None:
                    raise gvn.Unsupported('else arm under a found-one flag at %s' % loc_str(s))
                before = dict(self.store)
                self.stmt(s['then'], fr)

                def zeroed(v):
                    if not isinstance(v, Lin):
                        return v
                    return Lin(v.c, {kk: vv for kk, vv in v.t.items() if not (kk.startswith('bit:') and kk[4:].split('*')[0] in c[1])})
                for k in set(before) | set(self.store):
                    a, b = before.get(k), self.store.get(k)
                    if a == b:
                        continue
                    if not (isinstance(a, Lin) and isinstance(b, Lin) and zeroed(a) == zeroed(b)):
                        raise NotEquivalent('the statement guarded by the flag at %s changes the value even when no scalar bit has been '
                                            'consumed yet (it does not fix the initial accumulator)' % loc_str(s))
                self.flag_guards += 1
                return
        return super().stmt(s, fr)

    def cond_value(self, c, fr):
        e = strip(c)
        if isinstance(e, dict) and e.get('k') == 'call' and e.get('name') == 'bit':
            return self.call(e, fr, want_value=True)
        if isinstance(e, dict) and e.get('k') == 'ref' and e.get('rk') in ('local', 'param'):
            v = fr.ints.get(e['id'])
            if isinstance(v, tuple):
                return v
        if isinstance(e, dict) and e.get('k') == 'bin' and e.get('op') == '&&':
            # flag && <decided condition>
            vals = []
            for side in (e['lhs'], e['rhs']):
                cv = self.cond_value(side, fr)
                vals.append(cv if cv is not None else self.int_value(side, fr))
            tup = [v for v in vals if isinstance(v, tuple)]
            ints = [v for v in vals if not isinstance(v, tuple)]
            if len(tup) == 1 and len(ints) == 1 and ints[0] is not None:
                return tup[0] if ints[0] else None
        return None

    def int_value(self, e, fr):
        v = super().int_value(e, fr)
        if isinstance(v, tuple):
            return None
        return v
