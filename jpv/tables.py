"""R-POLY/tables (C06): the table / recoded-scalar bindings of the interleaved w-NAF multiplications, in the discrete-log domain.

G2::multiply_frobenius splits k = c0 + c1|x| + c2|x|^2 + c3|x|^3 and relies on psi(P) = [x]P on G2: digit stream j must be recoded
from c[j] and its table must be filled from (sign(x) * psi)^j (a) = [|x|^j] a - on EVERY path of the set-up code, whatever the
coefficients are.  G1::multiply_endomorphism binds both digit streams to one table of a (the endomorphism is applied per lookup).
WnafTable::fill_table must produce table[k] = (2k+1) * base.  The set-up code is executed with concrete control (constant loop
bounds) and symbolic group values (jpv/grpdom.exec_until); conditions on run-time data fork the state."""
from .facts import walk, strip, loc_str, strip_tmpl
from . import grpdom, consts, bls
from .grpdom import Elt
from .asmsem import ZPoly
from . import buildmodel as bm

NS = 'embedded_pairing::bls12_381::'


def _digit_loop(s):
    return s.get('k') in ('for', 'while') and any(x.get('k') == 'call' and x.get('name') == 'multiply2' for x in walk(s.get('body') or {}))


def rule_tables(ctx, cfg, prog, rule='R-POLY/tables'):
    n = 0
    xneg = consts.decode(prog.globals[NS + 'bls_x_is_negative']['value']) if NS + 'bls_x_is_negative' in prog.globals else 1
    sgn = -1 if xneg else 1
    # --- G2::multiply_frobenius(const G2&, const PowersOfX&)
    fs = [f for f in prog.fn_by_qn(NS + 'G2::multiply_frobenius') if 'PowersOfX' in f['params'][1]['t']['s']]
    ctx.require(len(fs) == 1, 'G2::multiply_frobenius(G2, PowersOfX) not found')
    f = fs[0]
    try:
        segs = grpdom.exec_until(prog, f, _digit_loop)
    except grpdom.Unsupported as e:
        raise bm.AnalysisBroken('R-POLY/tables cannot model G2::multiply_frobenius set-up: %s' % e)
    ctx.require(segs, 'G2::multiply_frobenius: digit loop not reached')
    an, sn = f['params'][0]['name'], f['params'][1]['name']
    for sg in segs:
        bad = []
        tabs = sorted(set(k.split('.base')[0] for k in sg.store if k.endswith('.base')))
        wnafs = sorted(set(k.split('.value')[0] for k in sg.store if k.endswith('.value')))
        cond = {k: lab for (k, lab) in sg.conds}
        for j in range(4):
            # recoded scalar j
            wv = [w for w in wnafs if w.endswith('[%d]' % j)]
            tv = [t for t in tabs if t.endswith('[%d]' % j)]
            empty = any(k[0] == 'cmp' and 'wnaf_size' in (k[2] + k[3]) and ('[%d]' % j) in (k[2] + k[3]) and '0' in (k[2], k[3]) and
                        ((k[1] == '==' and lab) or (k[1] == '!=' and not lab)) for k, lab in cond.items())
            if not wv:
                bad.append('digit stream %d is not recoded from %s.c[%d]' % (j, sn, j))
            else:
                got = sg.store[wv[0] + '.value']
                if not (isinstance(got, ZPoly) and got == ZPoly.var('%s.c[%d]' % (sn, j))):
                    bad.append('digit stream %d is recoded from %r, not from %s.c[%d]' % (j, got, sn, j))
            want = Elt.base('G2', an)
            for _ in range(j):
                want = want.scale(ZPoly.var('FROB') * sgn)
            if not tv:
                if not empty:
                    bad.append('table %d is not filled although digit stream %d may be non-empty' % (j, j))
            else:
                got = sg.store[tv[0] + '.base']
                if got != want:
                    bad.append('table %d is filled from %r; [|x|^%d] %s = (%s psi)^%d (%s) is required' % (j, got, j, an, '-' if sgn < 0 else '', j, an))
        n += 1
        path = ', '.join('%s=%s' % (grpdom_fmt(k), 'T' if lab else 'F') for (k, lab) in sg.conds) or '(no run-time condition)'
        ctx.ob(rule, not bad, 'tables|G2::multiply_frobenius|%s' % path[:120], loc_str(f),
               'G2::multiply_frobenius, set-up path [%s]: %s' % (path, ' ;; '.join(bad[:3])), cfg=cfg,
               sample=dict(config=cfg, routine='G2::multiply_frobenius', path=path, tables=len(tabs), digit_streams=len(wnafs)))
    # --- G1::multiply_endomorphism(a, c0, c0_neg, c1, c1_neg)
    fs = [f for f in prog.fn_by_qn(NS + 'G1::multiply_endomorphism') if len(f['params']) == 5]
    ctx.require(len(fs) == 1, 'G1::multiply_endomorphism(a, c0, c0_neg, c1, c1_neg) not found')
    f = fs[0]
    try:
        segs = grpdom.exec_until(prog, f, _digit_loop)
    except grpdom.Unsupported as e:
        raise bm.AnalysisBroken('R-POLY/tables cannot model G1::multiply_endomorphism set-up: %s' % e)
    pn = [p['name'] for p in f['params']]
    for sg in segs:
        bad = []
        vals = {k: v for k, v in sg.store.items() if k.endswith('.value')}
        bases = {k: v for k, v in sg.store.items() if k.endswith('.base')}
        got_vals = sorted(repr(v) for v in vals.values())
        if sorted([repr(ZPoly.var(pn[1])), repr(ZPoly.var(pn[3]))]) != got_vals:
            bad.append('the two digit streams are recoded from %s, not from %s and %s' % (got_vals, pn[1], pn[3]))
        if len(bases) != 1 or list(bases.values())[0] != Elt.base('G1', pn[0]):
            bad.append('the table is filled from %s, not from %s' % (list(bases.values()), pn[0]))
        n += 1
        path = ', '.join('%s=%s' % (grpdom_fmt(k), 'T' if lab else 'F') for (k, lab) in sg.conds) or '(no run-time condition)'
        ctx.ob(rule, not bad, 'tables|G1::multiply_endomorphism|%s' % path[:120], loc_str(f),
               'G1::multiply_endomorphism, set-up path [%s]: %s' % (path, ' ;; '.join(bad)), cfg=cfg,
               sample=dict(config=cfg, routine='G1::multiply_endomorphism', path=path))
    # --- WnafTable::fill_table: table[k] = (2k+1) base
    for f in sorted(prog.functions.values(), key=lambda f: f['qn']):
        if 'body' not in f or strip_tmpl(f['qn']) != NS + 'WnafTable::fill_table':
            continue
        rec = prog.records.get(f.get('parent') or '')
        ext = [x['t'].get('n') for x in (rec or {}).get('fields', []) if x['name'] == 'table']
        if not ext:
            continue
        try:
            segs = grpdom.exec_until(prog, f, lambda s: False)
        except grpdom.Unsupported as e:
            raise bm.AnalysisBroken('R-POLY/tables cannot model %s: %s' % (f['qn'], e))
        bn = f['params'][0]['name']
        for sg in segs:
            bad = None
            g = None
            for k in range(ext[0]):
                v = sg.store.get('this.table[%d]' % k)
                if g is None and isinstance(v, Elt):
                    g = v.g
                want = Elt.base(g or 'G1', bn).scale(ZPoly.const(2 * k + 1))
                if v != want and bad is None:
                    bad = (k, v, want)
            n += 1
            ctx.ob(rule, bad is None, 'tables|%s' % f['qn'].replace(NS, '')[:100], loc_str(f),
                   '%s: table[%s] = %r, the digit lookup needs (2k+1) * base = %r' % ((f['qn'],) + (bad or (0, 0, 0))), cfg=cfg,
                   sample=dict(config=cfg, routine=f['qn'].replace(NS, '')[:90], entries=ext[0]))
    return n


def grpdom_fmt(k):
    if k[0] == 'cmp':
        return '%s%s%s' % (k[2], k[1], k[3])
    if k[0] == 'truth':
        return k[1]
    return str(k[1])
