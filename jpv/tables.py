"""R-POLY/tables (C06): the table / recoded-scalar bindings of the interleaved w-NAF multiplications, in the discrete-log domain.

G2::multiply_frobenius splits k = c0 + c1|x| + c2|x|^2 + c3|x|^3 and relies on psi(P) = [x]P on G2: digit stream j must be recoded
from c[j] and its table must be filled from (sign(x) * psi)^j (a) = [|x|^j] a - on EVERY path of the set-up code, whatever the
coefficients are.  G1::multiply_endomorphism binds both digit streams to one table of a (the endomorphism is applied per lookup).
WnafTable::fill_table must produce table[k] = (2k+1) * base.  The set-up code is executed with concrete control (constant loop
bounds) and symbolic group values (jpv/grpdom.exec_until); conditions on run-time data fork the state."""
from .facts import walk, strip, loc_str, strip_tmpl
from . import grpdom, consts, bls
from .grpdom import Elt
from .asmsem import ZPoly
from . import buildmodel as bm

NS = 'embedded_pairing::bls12_381::'


def _digit_loop(s):
    return s.get('k') in ('for', 'while') and any(x.get('k') == 'call' and x.get('name') == 'multiply2' for x in walk(s.get('body') or {}))


def rule_tables(ctx, cfg, prog, rule='R-POLY/tables'):
    n = 0
    xneg = consts.decode(prog.globals[NS + 'bls_x_is_negative']['value']) if NS + 'bls_x_is_negative' in prog.globals else 1
    sgn = -1 if xneg else 1
    # --- G2::multiply_frobenius(const G2&, const PowersOfX&)
    fs = [f for f in prog.fn_by_qn(NS + 'G2::multiply_frobenius') if 'PowersOfX' in f['params'][1]['t']['s']]
    ctx.require(len(fs) == 1, 'G2::multiply_frobenius(G2, PowersOfX) not found')
    f = fs[0]
    try:
        segs = grpdom.exec_until(prog, f, _digit_loop)
    except grpdom.Unsupported as e:
        raise bm.AnalysisBroken('R-POLY/tables cannot model G2::multiply_frobenius set-up: %s' % e)
    ctx.require(segs, 'G2::multiply_frobenius: digit loop not reached')
    an, sn = f['params'][0]['name'], f['params'][1]['name']
    for sg in segs:
        bad = []
        tabs = sorted(set(k.split('.base')[0] for k in sg.store if k.endswith('.base')))
        wnafs = sorted(set(k.split('.value')[0] for k in sg.store if k.endswith('.value')))
        cond = {k: lab for (k, lab) in sg.conds}
        for j in range(4):
            # recoded scalar j
            wv = [w for w in wnafs if w.endswith('[%d]' % j)]
            tv = [t for t in tabs if t.endswith('[%d]' % j)]
            empty = any(k[0] == 'cmp' and 'wnaf_size' in (k[2] + k[3]) and ('[%d]' % j) in (k[2] + k[3]) and '0' in (k[2], k[3]) and
                        ((k[1] == '==' and lab) or (k[1] == '!=' and not lab)) for k, lab in cond.items())
            if not wv:
                bad.append('digit stream %d is not recoded from %s.c[%d]' % (j, sn, j))
            else:
                got = sg.store[wv[0] + '.value']
                if not (isinstance(got, ZPoly) and got == ZPoly.var('%s.c[%d]' % (sn, j))):
                    bad.append('digit stream %d is recoded from %r, not from %s.c[%d]' % (j, got, sn, j))
            want = Elt.base('G2', an)
            for _ in range(j):
                want = want.scale(ZPoly.var('FROB') * sgn)
            if not tv:
                if not empty:
                    bad.append('table %d is not filled although digit stream %d may be non-empty' % (j, j))
            else:
                got = sg.store[tv[0] + '.base']
                if got != want:
                    bad.append('table %d is filled from %r; [|x|^%d] %s = (%s psi)^%d (%s) is required' % (j, got, j, an, '-' if sgn < 0 else '', j, an))
        n += 1
        path = ', '.join('%s=%s' % (grpdom_fmt(k), 'T' if lab else 'F') for (k, lab) in sg.conds) or '(no run-time condition)'
        ctx.ob(rule, not bad, 'tables|G2::multiply_frobenius|%s' % path[:120], loc_str(f),
               'G2::multiply_frobenius, set-up path [%s]: %s' % (path, ' ;; '.join(bad[:3])), cfg=cfg,
               sample=dict(config=cfg, routine='G2::multiply_frobenius', path=path, tables=len(tabs), digit_streams=len(wnafs)))
    # --- G1::multiply_endomorphism(a, c0, c0_neg, c1, c1_neg)
    fs = [f for f in prog.fn_by_qn(NS + 'G1::multiply_endomorphism') if len(f['params']) == 5]
    ctx.require(len(fs) == 1, 'G1::multiply_endomorphism(a, c0, c0_neg, c1, c1_neg) not found')
    f = fs[0]
    try:
        segs = grpdom.exec_until(prog, f, _digit_loop)
    except grpdom.Unsupported as e:
        raise bm.AnalysisBroken('R-POLY/tables cannot model G1::multiply_endomorphism set-up: %s' % e)
    pn = [p['name'] for p in f['params']]
    for sg in segs:
        bad = []
        vals = {k: v for k, v in sg.store.items() if k.endswith('.value')}
        bases = {k: v for k, v in sg.store.items() if k.endswith('.base')}
        got_vals = sorted(repr(v) for v in vals.values())
        if sorted([repr(ZPoly.var(pn[1])), repr(ZPoly.var(pn[3]))]) != got_vals:
            bad.append('the two digit streams are recoded from %s, not from %s and %s' % (got_vals, pn[1], pn[3]))
        if len(bases) != 1 or list(bases.values())[0] != Elt.base('G1', pn[0]):
            bad.append('the table is filled from %s, not from %s' % (list(bases.values()), pn[0]))
        n += 1
        path = ', '.join('%s=%s' % (grpdom_fmt(k), 'T' if lab else 'F') for (k, lab) in sg.conds) or '(no run-time condition)'
        ctx.ob(rule, not bad, 'tables|G1::multiply_endomorphism|%s' % path[:120], loc_str(f),
               'G1::multiply_endomorphism, set-up path [%s]: %s' % (path, ' ;; '.join(bad)), cfg=cfg,
               sample=dict(config=cfg, routine='G1::multiply_endomorphism', path=path))
    # --- WnafTable::fill_table: table[k] = (2k+1) base
    for f in sorted(prog.functions.values(), key=lambda f: f['qn']):
        if 'body' not in f or strip_tmpl(f['qn']) != NS + 'WnafTable::fill_table':
            continue
        rec = prog.records.get(f.get('parent') or '')
        ext = [x['t'].get('n') for x in (rec or {}).get('fields', []) if x['name'] == 'table']
        if not ext:
            continue
        try:
            segs = grpdom.exec_until(prog, f, lambda s: False)
        except grpdom.Unsupported as e:
            raise bm.AnalysisBroken('R-POLY/tables cannot model %s: %s' % (f['qn'], e))
        bn = f['params'][0]['name']
        for sg in segs:
            bad = None
            g = None
            for k in range(ext[0]):
                v = sg.store.get('this.table[%d]' % k)
                if g is None and isinstance(v, Elt):
                    g = v.g
                want = Elt.base(g or 'G1', bn).scale(ZPoly.const(2 * k + 1))
                if v != want and bad is None:
                    bad = (k, v, want)
            n += 1
            ctx.ob(rule, bad is None, 'tables|%s' % f['qn'].replace(NS, '')[:100], loc_str(f),
                   '%s: table[%s] = %r, the digit lookup needs (2k+1) * base = %r' % ((f['qn'],) + (bad or (0, 0, 0))), cfg=cfg,
                   sample=dict(config=cfg, routine=f['qn'].replace(NS, '')[:90], entries=ext[0]))
    return n


def grpdom_fmt(k):
    if k[0] == 'cmp':
        return '%s%s%s' % (k[2], k[1], k[3])
    if k[0] == 'truth':
        return k[1]
    return str(k[1])


# ---------------------------------------------------------------------------------------------- digit loops
import re as _re
from .cfg import CFG as _CFG


def _digit_loop_specs(prog):
    out = []
    for f in sorted(prog.functions.values(), key=lambda f: f['qn']):
        if 'body' not in f:
            continue
        base = strip_tmpl(f['qn'])
        if base == NS + 'wnaf_table_multiply':
            p = [x['name'] for x in f['params']]
            out.append((f, p[0], [(p[2], p[1], None, ZPoly.const(1))]))
        elif f['qn'] == NS + 'G1::multiply_endomorphism' and len(f['params']) == 5:
            p = [x['name'] for x in f['params']]
            out.append((f, 'this', [('L:wc0', 'L:wt', p[2], ZPoly.const(1)), ('L:wc1', 'L:wt', p[4], ZPoly.var('ENDO'))]))
        elif f['qn'] == NS + 'G2::multiply_frobenius' and 'PowersOfX' in f['params'][1]['t']['s']:
            out.append((f, 'this', [('L:wb[L:j]', 'L:wt[L:j]', None, ZPoly.const(1))]))
    return out


def rule_digit_loops(ctx, cfg, prog, rule='R-POLY/digits'):
    """every update of the accumulator inside a w-NAF digit loop is, in the discrete-log domain with table[k] = (2k+1) base,
    acc := [2] acc + digit * (flag sign) * base  for a declared (digit stream, table) pair - on every path"""
    n = 0
    for (f, acc, pairs) in _digit_loop_specs(prog):
        g = _CFG(f)
        short = strip_tmpl(f['qn']).replace(NS, '') + ('<' + f['qn'].split('<', 1)[1][:40] if 'wnaf_table_multiply' in f['qn'] else '')
        try:
            segs = []
            for (frm, to, path) in grpdom.segments(g):
                for (seg, conds) in grpdom.run_path_all(prog, f, g, path):
                    if seg is not None:
                        segs.append((frm, to, seg, conds))
        except grpdom.Unsupported as e:
            raise bm.AnalysisBroken('R-POLY/digits cannot model %s: %s' % (f['qn'], e))
        for (frm, to, seg, conds) in segs:
            eff = seg.effects()
            if acc not in eff:
                continue
            got = eff[acc]
            if not isinstance(got, Elt):
                continue
            seen = {}
            contradictory = False
            for (k, lab) in conds:
                if k[0] in ('cmp', 'truth') and seen.setdefault(k, lab) != lab:
                    contradictory = True
            if contradictory:
                continue
            cd = {k: lab for (k, lab) in conds}
            tables = {b: c for b, c in got.t.items() if isinstance(b, str) and '.table[' in b}
            others = {b: c for b, c in got.t.items() if b != acc and b not in tables}
            if not tables and not (acc in got.t) and not others:
                continue            # initialisation to the identity
            bad = []
            if others:
                bad.append('the accumulator receives %s, which is neither the accumulator nor a table entry' % sorted(map(str, others))[:2])
            c = got.t.get(acc, ZPoly())
            found = None
            loopstart = (frm != 'entry')        # an iteration of the digit loop (whatever the form of its condition)
            for k, lab in cd.items():
                if k[0] == 'truth' and 'found_one' in k[1]:
                    found = lab
                if k[0] == 'cmp' and k[1] == '!=' and '-1' in (k[2], k[3]) and lab:
                    loopstart = True
            if tables or (acc in got.t):
                if loopstart:
                    want_c = [2] if found else [1, 2]
                else:
                    want_c = [1]
                if not (c.is_const() and c.const_value() in want_c):
                    bad.append('the accumulator is scaled by %r (doubling exactly once per digit position, when an earlier digit was non-zero)' % c)
            used = set()
            for b, coef in tables.items():
                m = _re.match(r'^(.*)\.table\[\((-1\*)?(.*)>>1\)\]$', b)
                if not m:
                    bad.append('table lookup %s is not of the form table[|digit| >> 1]' % b)
                    continue
                T, neg, digit = m.group(1), bool(m.group(2)), m.group(3)
                md = _re.match(r'^(.*)\.wnaf\[(.*)\]$', digit)
                pr_ = [p for p in pairs if md and p[0] == md.group(1) and p[1] == T]
                if not pr_:
                    bad.append('lookup %s pairs digit stream %s with table %s, which is not a declared pair' % (b, md.group(1) if md else digit, T))
                    continue
                S, T_, flag, op = pr_[0]
                if (S, coef) in used:
                    bad.append('stream %s contributes twice' % S)
                used.add((S, coef))
                fs = 1
                if flag is not None:
                    fl = cd.get(('truth', flag))
                    if fl is None:
                        bad.append('the sign flag %s is not looked at on this path' % flag)
                    fs = -1 if fl else 1
                want = op * ((-1 if neg else 1) * fs)
                if grpdom.norm(coef) != grpdom.norm(want):
                    bad.append('table entry for digit %s enters with coefficient %r, digit * sign * base requires %r' % (digit, coef, want))
                # the guards that make the lookup meaningful
                dpos = None
                dnz = None
                inrange = None
                for k, lab in cd.items():
                    if k[0] == 'cmp' and digit in (k[2], k[3]) and '0' in (k[2], k[3]):
                        if k[1] == '!=':
                            dnz = lab
                        if k[1] == '==':
                            dnz = not lab
                        if k[1] == '>' and k[2] == digit:
                            dpos = lab
                        if k[1] == '<' and k[2] == digit:
                            dpos = not lab if dnz else None
                    if k[0] == 'cmp' and k[1] == '<' and k[3] == S + '.wnaf_size' and md and k[2] == md.group(2):
                        inrange = lab
                if dnz is not True:
                    bad.append('digit %s is used without being known non-zero' % digit)
                if dpos is None or dpos == neg:
                    bad.append('the sign test of digit %s does not match the lookup (%s lookup on the %s branch)' % (digit, 'negated' if neg else 'plain', 'positive' if dpos else 'non-positive'))
                if inrange is False:
                    bad.append('digit %s is read beyond %s.wnaf_size' % (digit, S))
            if tables:
                fo = [v for l, v in eff.items() if 'found_one' in l]
                if not (fo and isinstance(fo[0], ZPoly) and fo[0].is_const() and fo[0].const_value() == 1):
                    bad.append('a digit is added without recording found_one (the next doubling would be skipped)')
            n += 1
            cat = ', '.join('%s=%s' % (grpdom_fmt(k), 'T' if lab else 'F') for (k, lab) in dict.fromkeys(conds))
            ctx.ob(rule, not bad, 'digits|%s|%s->%s|%s' % (short, frm, to, cat[:150]), loc_str(f),
                   '%s, segment %s -> %s on the path [%s]: %s' % (short, frm, to, cat, ' ;; '.join(bad[:3])), cfg=cfg,
                   sample=dict(config=cfg, routine=short, segment='%s->%s' % (frm, to)))
    return n
