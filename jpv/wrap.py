"""R-WRAP: model of the extern "C" cast-and-forward wrappers (C19, shared with C14/C15)."""
from .facts import walk, loc_str, strip


class WrapShapeError(Exception):
    def __init__(self, node, msg):
        self.node = node
        self.msg = msg


def root_of(e, env, penv=None):
    """Reduce an argument expression to (root, path, kind):
    root = wrapper parameter name (or None), path = member path string, kind in
    {'param','literal','const','other'}. Casts, derefs, address-of and loads are transparent."""
    path = []
    while isinstance(e, dict):
        k = e.get('k')
        if k in ('load',):
            e = e['e']
        elif k == 'cast':
            e = e['e']
        elif k == 'un' and e.get('op') in ('*', '&'):
            e = e['e']
        elif k == 'member':
            path.append(e['name'])
            e = e['base']
        elif k == 'ref':
            if e.get('rk') == 'param':
                if penv is not None and e['name'] in penv:
                    r, p, kk = penv[e['name']]
                    full = '.'.join([x for x in [p] + list(reversed(path)) if x])
                    return (r, full, kk)
                return (e['name'], '.'.join(reversed(path)), 'param')
            if e.get('rk') == 'local':
                b = env.get(e['id'])
                if b is None:
                    return (None, e['name'], 'unbound-local')
                r, p, kk = b
                full = '.'.join([x for x in [p] + list(reversed(path)) if x])
                return (r, full, kk)
            if e.get('rk') == 'global':
                return (None, e.get('g'), 'global')
            return (None, e.get('name'), 'other')
        elif k == 'lit':
            return (None, e.get('cv'), 'literal')
        elif k == 'null':
            return (None, 'nullptr', 'literal')
        else:
            return (None, k, 'other')
    return (None, None, 'other')


class Forward:
    """one forwarding call inside a wrapper"""
    def __init__(self, call, callee, bindings, cond):
        self.call = call
        self.callee = callee          # function dict or None
        self.bindings = bindings      # list of (callee slot name, callee slot index (-1 = this), root, path, kind)
        self.cond = cond              # tuple of (param name, bool) branch decisions


class WrapperModel:
    def __init__(self, prog, fn):
        self.prog = prog
        self.fn = fn
        self.params = [p['name'] for p in fn['params']]
        self.forwards = []
        self.returns = []     # (cond, kind, node)  kind: 'call' | 'const' | 'void'
        self.errors = []      # (node, msg) shape violations (W1)
        self.branch_params = set()
        self.penv = None
        self.cur = fn
        self._pending_else = None
        self.helpers = []
        self._walk_block(fn['body'], {}, ())

    def _err(self, node, msg):
        self.errors.append((node, msg))

    def _is_local_helper(self, callee):
        return callee is not None and 'body' in callee and not callee.get('externC') and callee['l'][0] == self.fn['l'][0] and \
            not callee.get('method') and len(self.helpers) < 3

    def _call(self, e, env, cond, is_return=False):
        callee = self.prog.callee(e, self.cur) if e.get('k') == 'call' else None
        if e.get('k') == 'call' and e.get('this') is None and self._is_local_helper(callee):
            # a file-local helper shared by several wrappers is looked through: its body is analysed with its parameters bound to the
            # wrapper's own parameters, so the rules see the library operation that is finally called
            newp = {}
            for cp, a in zip(callee['params'], e.get('args', [])):
                newp[cp['name']] = root_of(a, env, self.penv)
            saved = (self.penv, self.cur)
            self.penv, self.cur = newp, callee
            self.helpers.append(callee['qn'])
            n_before = len(self.returns)
            self._walk_block(callee['body'], {}, cond)
            self.penv, self.cur = saved
            self.helpers.pop()
            if not is_return:
                # results of the helper are dropped by the wrapper
                self.returns[n_before:] = []
            return 'helper'
        binds = []
        if e.get('k') == 'icall':
            self._err(e, 'indirect call in wrapper')
            return None
        if e.get('this') is not None:
            r, p, kk = root_of(e['this'], env, self.penv)
            binds.append(('this', -1, r, p, kk))
        cparams = callee['params'] if callee else []
        for i, a in enumerate(e.get('args', [])):
            r, p, kk = root_of(a, env, self.penv)
            nm = cparams[i]['name'] if i < len(cparams) else '#%d' % i
            binds.append((nm, i, r, p, kk))
        fw = Forward(e, callee, binds, cond)
        self.forwards.append(fw)
        return fw

    def _walk_block(self, s, env, cond):
        if s is None:
            return
        k = s.get('k')
        if k == 'compound':
            env = dict(env)
            for c in s['body']:
                self._pending_else = None
                self._walk_block(c, env, cond)
                if self._pending_else is not None and self._pending_else[1] == cond:
                    cond = cond + ((self._pending_else[0], len(self._pending_else) > 2),)
                self._pending_else = None
        elif k == 'decl':
            for v in s['vars']:
                init = v.get('init')
                if init is None:
                    self._err(s, 'uninitialised local in wrapper')
                    continue
                r, p, kk = root_of(init, env, self.penv)
                if kk != 'param':
                    self._err(s, 'local %s is not a cast/binding of a wrapper parameter' % v['name'])
                env[v['id']] = (r, p, kk)
        elif k == 'expr':
            e = strip(s['e'])
            if e.get('k') in ('call', 'icall'):
                self._call(e, env, cond)
            else:
                self._err(s, 'statement other than a forwarding call (%s)' % e.get('k'))
        elif k == 'return':
            e = s.get('e')
            if e is None:
                self.returns.append((cond, 'void', s))
                return
            e2 = strip(e)
            while isinstance(e2, dict) and e2.get('k') in ('cast', 'paren') and isinstance(e2.get('e'), dict) and \
                    strip(e2['e']).get('k') in ('cond', 'cast', 'paren'):
                e2 = strip(e2['e'])
            if e2.get('k') == 'cond':
                # `return flag ? f<true>(..) : f<false>(..);` is `if (flag) return f<true>(..); else return f<false>(..);`
                self._walk_block({'k': 'if', 'c': e2['c'], 'l': s.get('l'),
                                 'then': {'k': 'return', 'e': e2['then'], 'l': s.get('l')},
                                 'else': {'k': 'return', 'e': e2['else'], 'l': s.get('l')}}, env, cond)
                return
            if e2.get('k') in ('call', 'icall'):
                fw = self._call(e2, env, cond, is_return=True)
                if fw != 'helper':
                    self.returns.append((cond, 'call', s, fw))
            elif e2.get('k') == 'ref' and e2.get('rk') == 'global' and 'cv' in e2:
                self.returns.append((cond, 'const', s, e2))
            else:
                self._err(s, 'return of something other than the forwarded call result')
        elif k == 'if':
            c = strip(s['c'])
            pos = True
            for _ in range(4):
                while isinstance(c, dict) and c.get('k') in ('cast', 'paren', 'load'):
                    c = strip(c['e'])
                if isinstance(c, dict) and c.get('k') == 'un' and c.get('op') == '!':
                    pos = not pos
                    c = strip(c['e'])
                    continue
                break
            if c.get('k') == 'ref' and c.get('rk') == 'param' and (c.get('t') or {}).get('k') == 'bool':
                bname = c['name']
                if self.penv is not None and bname in self.penv:
                    r_, p_, kk_ = self.penv[bname]
                    if kk_ != 'param' or p_:
                        self._err(s, 'helper branches on something that is not a wrapper parameter')
                    bname = r_
                self.branch_params.add(bname)
                thn_returns = any(x.get('k') == 'return' for x in walk(s['then']))
                self._walk_block(s['then'], env, cond + ((bname, pos),))
                if s.get('else') is None:
                    if not thn_returns:
                        self._err(s, 'branch on %s without else arm' % bname)
                    # `if (flag) return f<true>(...); return f<false>(...);` : the fall-through is the else arm
                    self._pending_else = (bname, cond) if pos else (bname, cond, True)
                else:
                    self._walk_block(s['else'], env, cond + ((bname, not pos),))
            else:
                self._err(s, 'control flow on something other than a bool parameter')
        elif k == 'null':
            pass
        else:
            self._err(s, 'statement kind %s not allowed in a wrapper' % k)

    def paths(self):
        """distinct branch-condition tuples"""
        conds = set(f.cond for f in self.forwards) | set(r[0] for r in self.returns)
        # maximal ones only
        out = [c for c in conds if not any(c != d and d[:len(c)] == c for d in conds)]
        return out or [()]


def wrappers(prog):
    """Every extern "C" function with a body defined in a src/ .cpp file that is not under arch/."""
    out = []
    for f in prog.functions.values():
        if 'body' in f and f.get('externC') and f['l'][0].startswith('src/') and '/arch/' not in f['l'][0]:
            out.append(f)
    return sorted(out, key=lambda f: (f['l'][0], f['l'][1]))
