"""R-FIELDLAYER (C02, C04): the raw representation `val` of a base-/scalar-field element is written only by the field layer.

Every public field operation returns a canonical representative (< modulus): that is the invariant R-CANON / R-NOWRAP /
the Montgomery bound (product of the two multiplicands < modulus * 2^bits) rest on.  Code above the field layer (the
extension tower, curve arithmetic, pairing, schemes, C wrappers) can only break it by touching `val` directly - e.g. a
"lazy" addition without the conditional subtraction - which no test with uniformly random operands notices.  This is a
who-may-write rule over the resolved program: a write access whose object path passes through member `val` of a record
FpBase<>/Fp<>/Fq/Fr must occur inside a member of one of those records (or a free function of the field layer), or be
the read-then-reduce idiom (`x.val.read_big_endian(...)` followed on every path by `x.hash_reduce()`)."""
from .facts import walk, strip, loc_str, strip_tmpl
from . import pathrules as pr
from .cfg import CFG

FIELD_RECS = ('embedded_pairing::core::FpBase<', 'embedded_pairing::core::Fp<')
FIELD_NAMES = ('embedded_pairing::bls12_381::Fq', 'embedded_pairing::bls12_381::Fr')
FIELD_FILES = ('include/core/fp.hpp', 'include/core/fp_utils.hpp', 'include/bls12_381/fq.hpp', 'include/bls12_381/fr.hpp',
               'src/bls12_381/fq.cpp', 'src/bls12_381/fr.cpp')


# The functions of the field layer that write a representation with raw multi-precision operations, each with the rule
# that decides its canonical-result obligation (confirmed by reading; a new raw writer has no decided obligation).
PRIMITIVES = {
    'embedded_pairing::core::FpBase::add': 'R-CANON truth table (sum < 2p, one conditional subtraction on compare >= 0 or carry)',
    'embedded_pairing::core::FpBase::multiply2': 'R-CANON truth table (2a < 2p, conditional subtraction on compare >= 0 or shifted-out bit)',
    'embedded_pairing::core::FpBase::subtract': 'R-CANON truth table (add p back exactly on borrow)',
    'embedded_pairing::core::FpBase::reduce': 'R-CANON truth table (subtract p unless compare == -1)',
    'embedded_pairing::core::FpBase::negate': 'R-GUARD/G3 (p - a only for a != 0)',
    'embedded_pairing::core::Fp::copy': 'data movement',
    'embedded_pairing::core::fp_inverse': 'R-GUARD/G2 (zero case); halving (x + p)/2 keeps values below p (not decided at value level)',
    'embedded_pairing::bls12_381::Fq::hash_reduce': 'R-REJECT hashreduce + R-CONST mask / one-subtraction sufficiency',
    'embedded_pairing::bls12_381::Fr::hash_reduce': 'R-REJECT hashreduce + R-CONST mask / one-subtraction sufficiency',
    'embedded_pairing::bls12_381::Fq::random': 'R-REJECT (exit only on compare < modulus)',
    'embedded_pairing::bls12_381::Fr::random': 'R-REJECT (exit only on compare < modulus)',
    'embedded_pairing::bls12_381::Fq::read_big_endian': 'mask (R-CONST) then Montgomery multiplication by R^2 (value < 2^381 < p * 2^384 / R2 bound)',
}


def is_field_rec(name):
    return bool(name) and (name in FIELD_NAMES or name.startswith(FIELD_RECS))


def _through_val(e):
    """the expression designates (part of) the `val` member of a field element"""
    x = e
    while isinstance(x, dict):
        k = x.get('k')
        if k == 'member':
            if x.get('name') == 'val' and is_field_rec(x.get('rec')):
                return x
            x = x.get('base')
        elif k in ('cast', 'load'):
            x = x.get('e')
        elif k == 'index':
            x = x.get('base')
        elif k == 'un' and x.get('op') in ('*', '&'):
            x = x.get('e')
        else:
            return None
    return None


def _callers(prog):
    """{callee (template arguments stripped): set of callers (stripped)} over the resolved program"""
    out = {}
    for f in prog.functions.values():
        if 'body' not in f:
            continue
        me = strip_tmpl(f['qn'])
        for x in walk(f['body']):
            if isinstance(x, dict) and x.get('k') == 'call':
                cal = prog.callee(x, f)
                if cal is not None:
                    out.setdefault(strip_tmpl(cal.get('qn', '')), set()).add(me)
    # helpers that jpv/normalise.py substituted into their callers are no longer called, but they were
    for (caller, helper, _) in getattr(prog, 'dissolved', []) or []:
        out.setdefault(strip_tmpl(helper), set()).add(strip_tmpl(caller))
    return out


def rule_field_layer(ctx, cfg, prog, rule='R-FIELDLAYER'):
    sites = inside = 0
    claimed, reported = set(), set()
    callers = None
    for f in prog.functions.values():
        if 'body' not in f or not f['l'][0].startswith(('src/', 'include/')):
            continue
        in_layer = is_field_rec(f.get('parent')) or f['l'][0] in FIELD_FILES
        writes = []
        for x in walk(f['body']):
            tgt = None
            if x.get('k') == 'call' and x.get('this') is not None:
                callee = prog.callee(x, f)
                if callee is not None and callee.get('const_method'):
                    continue
                if (callee or {}).get('static'):
                    continue
                tgt = x['this']
            elif x.get('k') == 'assign':
                tgt = x['lhs']
            elif x.get('k') == 'un' and x.get('op') in ('++', '--'):
                tgt = x['e']
            elif x.get('k') == 'call' and x.get('name') in ('memcpy', 'memset', 'memmove') and x.get('args'):
                tgt = x['args'][0]
            if tgt is None:
                continue
            m = _through_val(tgt)
            if m is not None:
                writes.append((x, m))
        if not writes:
            continue
        if in_layer:
            inside += len(writes)
            qn = strip_tmpl(f['qn'])
            claimed.add(qn)
            if qn not in PRIMITIVES and qn not in reported and (is_field_rec(f.get('parent')) or (not f.get('method') and f['l'][0] in FIELD_FILES)):
                # a helper of the field records that is reached only from decided primitives is part of them: their obligations (R-CANON
                # with the helper inlined, the word-level identities of R-WORDALG/c++) are decided on the composition
                if callers is None:
                    callers = _callers(prog)
                cs = callers.get(qn, set())
                seen, work, okh = set(), list(cs), bool(cs)
                while work and okh:
                    c = work.pop()
                    if c in seen or c in PRIMITIVES:
                        continue
                    seen.add(c)
                    cf = [g_ for g_ in prog.functions.values() if strip_tmpl(g_['qn']) == c]
                    if c != qn and cf and all(is_field_rec(g_.get('parent')) or (not g_.get('method') and g_['l'][0] in FIELD_FILES) for g_ in cf) and callers.get(c):
                        work += list(callers[c])      # a helper of a helper
                    elif c != qn:
                        okh = False
                if okh:
                    reported.add(qn)
                    ctx.ob(rule, True, 'fieldlayer|helper|' + qn, loc_str(f), '', cfg=cfg,
                           sample=dict(config=cfg, helper=qn, reached_only_from=sorted(x_ for x_ in cs if x_ in PRIMITIVES)))
                    continue
            if qn not in PRIMITIVES and qn not in reported:
                reported.add(qn)
                x = writes[0][0]
                ctx.ob(rule, False, 'fieldlayer|primitive|' + qn, loc_str(f),
                       '%s (%s) writes the representation of a field element with raw multi-precision operations (`%s` at %s, %d site(s)) '
                       'but is not one of the %d field primitives whose canonical-result obligation is decided (R-CANON / R-GUARD / R-REJECT / '
                       'R-CONST): nothing establishes that its result is the canonical representative (< modulus) of the intended value for '
                       'every operand' % (f['qn'], loc_str(f), x.get('name') or x.get('op') or x.get('k'), loc_str(x), len(writes), len(PRIMITIVES)),
                       cfg=cfg)
            continue
        g = None
        for (x, m) in writes:
            sites += 1
            owner = pr.norm_obj(pr.canon(m['base']))
            ok = False
            why = 'raw write to the representation of a field element outside the field layer'
            if x.get('k') == 'call' and x.get('name') == 'read_big_endian':
                # read-then-reduce idiom: every path from the read to the exit passes owner.hash_reduce()
                g = g or CFG(f)
                rn = [n for n in g.stmt_nodes() if any(y is x for y in walk(n.ast))]
                hn = [n for n in g.stmt_nodes() for c in pr.calls(n.ast) if c['name'] == 'hash_reduce' and c.get('this') is not None and
                      pr.norm_obj(pr.canon(c['this'])) == owner]
                ok = bool(rn) and bool(hn) and any(g.exit.id not in g.reachable(start=rn[0].id, removed_nodes=[h.id]) for h in hn)
                why = 'bytes are read into the representation without a following %s.hash_reduce() on every path' % owner
            ctx.ob(rule, ok, 'fieldlayer|%s|%s' % (strip_tmpl(f['qn']), owner), loc_str(x),
                   '%s (%s): %s - the value need not be canonical (< modulus) afterwards, so comparisons, negation/subtraction and the '
                   'Montgomery bound of later multiplications are no longer guaranteed (`%s` at %s)' %
                   (f['qn'], loc_str(f), why, x.get('name') or x.get('op') or x.get('k'), loc_str(x)), cfg=cfg,
                   sample=dict(config=cfg, function=f['qn'][:90], object=owner, idiom='read-then-reduce'))
    for qn in sorted(claimed & set(PRIMITIVES)):
        ctx.ob(rule, True, 'fieldlayer|primitive|' + qn, '', '', cfg=cfg, sample=dict(config=cfg, primitive=qn, obligation_decided_by=PRIMITIVES[qn]))
    ctx.count('fieldlayer_writes_inside_layer[%s]' % cfg, inside)
    ctx.count('fieldlayer_writes_outside_layer[%s]' % cfg, sites)
    return inside
