"""R-INBOUNDS: a must-dataflow over the CFG of every scheme routine.  The scheme structures carry (pointer, count) pairs
(AttributeList.attrs/length, SecretKey.b/l, Params.h/l); an element of the pointer field of an INPUT structure that is selected by a
cursor variable may be touched only where, on every path from the entry, the most recent event about that cursor is a test that it is
below / different from the paired count (and the cursor has not been advanced since).  The rule does not depend on the loop structure
of the routine: any arrangement of loops and tests that re-establishes the fact before each access passes; an access that some path
reaches with the cursor possibly equal to the count (a walk that runs off the end of the parent's component list) is reported."""
from .facts import walk, strip, loc_str
from . import pathrules as pr
from . import buildmodel as bm

WK = 'embedded_pairing::wkdibe::'
LQ = 'embedded_pairing::lqibe::'


def pairs_of(prog):
    """{record: (pointer field, count field)} for the records of the scheme namespaces that hold exactly one pointer to a record / to
    a group element and exactly one integer count"""
    out = {}
    for name, rec in prog.records.items():
        if not (name.startswith(WK) or name.startswith(LQ)) or '<' in name:
            continue
        ptrs = [f for f in rec.get('fields', []) if (f['t'].get('k') == 'ptr') and (f['t'].get('pointee') or {}).get('k') in ('record', 'union')]
        ints = [f for f in rec.get('fields', []) if f['t'].get('k') == 'int' and (f['t'].get('size') or 0) >= 4]
        if len(ptrs) == 1 and len(ints) == 1:
            out[name] = (ptrs[0]['name'], ints[0]['name'])
    return out


def _unwrap(e):
    e = strip(e)
    while isinstance(e, dict) and e.get('k') == 'cast':
        e = strip(e['e'])
    return e


def _local_id(e):
    e = _unwrap(e)
    if isinstance(e, dict) and e.get('k') == 'ref' and e.get('rk') in ('local', 'param') and (e.get('t') or {}).get('k') in ('int', None):
        return e.get('id')
    if isinstance(e, dict) and e.get('k') == 'ref' and e.get('rk') in ('local', 'param'):
        return e.get('id')
    return None


def _rec_of_type(t):
    t = t or {}
    while t.get('k') in ('ref', 'ptr'):
        t = t.get('pointee') or {}
    return t.get('rec'), bool(t.get('const'))


class Inbounds:
    def __init__(self, prog, fn, pairs):
        self.prog, self.fn, self.pairs = prog, fn, pairs
        self.g = pr.build(fn)
        # reference / pointer locals bound once to an lvalue: expand them in canonical names
        self.binds = {}
        for n in self.g.stmt_nodes():
            if n.ast.get('k') == 'decl':
                for v in n.ast['vars']:
                    if (v.get('t') or {}).get('k') == 'ref' and v.get('init') is not None:
                        self.binds[v['id']] = pr.norm_obj(pr.canon(v['init'], self.binds))
        self.inputs = {}
        for p in fn.get('params', []):
            rec, const = _rec_of_type(p['t'])
            if rec in pairs and const and p['t'].get('k') in ('ref', 'ptr'):
                self.inputs['P:%s' % p['name']] = rec

    def count_key(self, base):
        """for the canonical name of an indexed object `P:x.field`: the canonical name of its count"""
        for root, rec in self.inputs.items():
            pf, nf = self.pairs[rec]
            if base == root + '.' + pf:
                return root + '.' + nf
        return None

    def accesses(self, ast, facts=frozenset()):
        """[(index node, cursor id or None, count key, address-only, facts local to the sub-expression)] for the indexings of an
        input's pointer field in the statement / condition; the right operand of && / || and the arms of ?: are evaluated under what
        the left operand / the condition establishes"""
        out = []
        addr_of = set()
        for x in walk(ast):
            if x.get('k') == 'un' and x.get('op') == '&':
                addr_of.add(id(_unwrap(x['e'])))

        def rec(e, local):
            if isinstance(e, list):
                for y in e:
                    rec(y, local)
                return
            if not isinstance(e, dict):
                return
            k = e.get('k')
            if k == 'bin' and e.get('op') in ('&&', '||'):
                rec(e['lhs'], local)
                rec(e['rhs'], local | self.gen(e['lhs'], e['op'] == '&&', facts | local))
                return
            if k == 'cond':
                rec(e['c'], local)
                rec(e['then'], local | self.gen(e['c'], True, facts | local))
                rec(e['else'], local | self.gen(e['c'], False, facts | local))
                return
            if k == 'index':
                base = pr.norm_obj(pr.canon(e['base'], self.binds))
                ck = self.count_key(base)
                ix = _unwrap(e['idx'])
                if ck is not None and 'cv' not in ix:
                    out.append((e, _local_id(ix), ck, id(e) in addr_of, frozenset(local)))
            for key, v in e.items():
                if key in ('t', 'l'):
                    continue
                if isinstance(v, (dict, list)):
                    rec(v, local)

        rec(ast, frozenset())
        return out

    def gen(self, cond_ast, label, facts=frozenset()):
        """facts established when the condition evaluates to `label`: (cursor id, count key)"""
        e = _unwrap(cond_ast)
        if not isinstance(e, dict):
            return frozenset()
        if e.get('k') == 'bin' and e.get('op') == '&&':
            if label:
                a = self.gen(e['lhs'], True, facts)
                return a | self.gen(e['rhs'], True, facts | a)
            return frozenset()
        if e.get('k') == 'bin' and e.get('op') == '||':
            if not label:
                a = self.gen(e['lhs'], False, facts)
                return a | self.gen(e['rhs'], False, facts | a)
            return frozenset()
        if e.get('k') == 'un' and e.get('op') == '!':
            return self.gen(e['e'], not label, facts)
        if e.get('k') == 'ref' and e.get('rk') in ('local', 'param'):
            # a boolean local that was computed as a conjunction containing a cursor test
            if label:
                return frozenset((f[2], f[3]) for f in facts if len(f) == 4 and f[0] == 'imp' and f[1] == e.get('id'))
            return frozenset()
        if not (e.get('k') == 'bin' and e.get('op') in ('!=', '==', '<', '>', '<=', '>=')):
            return frozenset()
        op = e['op']
        l, r = _unwrap(e['lhs']), _unwrap(e['rhs'])
        out = set()
        for (a, b, o) in ((l, r, op), (r, l, {'<': '>', '>': '<', '<=': '>=', '>=': '<='}.get(op, op))):
            vid = _local_id(a)
            if vid is None:
                continue
            ck = pr.norm_obj(pr.canon(b, self.binds))
            if (o == '!=' and label is True) or (o == '==' and label is False) or (o == '<' and label is True) or (o == '>=' and label is False):
                out.add((vid, ck))
        return frozenset(out)

    def kills(self, ast):
        ks = set()
        for x in walk(ast):
            if x.get('k') == 'assign':
                vid = _local_id(x['lhs'])
                if vid is not None:
                    ks.add(vid)
            elif x.get('k') == 'un' and x.get('op') in ('++', '--'):
                vid = _local_id(x['e'])
                if vid is not None:
                    ks.add(vid)
            elif x.get('k') == 'un' and x.get('op') == '&':
                vid = _local_id(x['e'])
                if vid is not None:
                    ks.add(('escaped', vid))
        if ast.get('k') == 'decl':
            for v in ast['vars']:
                ks.add(v['id'])
        return ks

    @staticmethod
    def drop(facts, ks):
        return frozenset(f for f in facts if not ((len(f) == 2 and f[0] in ks) or (len(f) == 4 and (f[1] in ks or f[2] in ks))))

    def implications(self, ast, facts):
        """`bool b = <expr>` / `b = <expr>`: b true implies what <expr> true establishes"""
        out = set()
        if ast.get('k') == 'decl':
            for v in ast['vars']:
                if v.get('init') is not None and (v.get('t') or {}).get('k') == 'bool':
                    for (vid, ck) in self.gen(v['init'], True, facts):
                        out.add(('imp', v['id'], vid, ck))
        elif ast.get('k') == 'expr':
            e = strip(ast['e'])
            if isinstance(e, dict) and e.get('k') == 'assign' and e.get('op') == '=' and (e['lhs'].get('t') or {}).get('k') == 'bool':
                bid = _local_id(e['lhs'])
                if bid is not None:
                    for (vid, ck) in self.gen(e['rhs'], True, facts):
                        out.add(('imp', bid, vid, ck))
        return out

    def solve(self):
        g = self.g
        TOP = None
        inn = {n.id: TOP for n in g.nodes}
        inn[g.entry.id] = frozenset()
        work = [g.entry.id]
        escaped = set()
        for n in g.nodes:
            if n.ast is not None:
                for k in self.kills(n.ast):
                    if isinstance(k, tuple):
                        escaped.add(k[1])
        while work:
            nid = work.pop()
            n = g.nodes[nid]
            cur = inn[nid]
            if n.kind == 'stmt' and n.ast is not None:
                ks = {k for k in self.kills(n.ast) if not isinstance(k, tuple)}
                before = cur
                cur = self.drop(cur, ks)
                cur = frozenset(cur | self.implications(n.ast, self.drop(before, ks)))
            for (s, lab) in n.succ:
                out = cur
                if n.kind == 'cond':
                    out = frozenset(set(cur) | self.gen(n.ast, lab, cur))
                out = self.drop(out, escaped)
                old = inn[s]
                new = out if old is TOP else (old & out)
                if old is TOP or new != old:
                    inn[s] = new
                    work.append(s)
        return inn


def scheme_functions(prog):
    out = []
    for f in prog.functions.values():
        if 'body' in f and (f['qn'].startswith(WK) or f['qn'].startswith(LQ)):
            out.append(f)
    return sorted(out, key=lambda f: (f['qn'], loc_str(f)))


def rule_inbounds(ctx, cfg, prog, rule='R-INBOUNDS', only=None):
    pairs = pairs_of(prog)
    ctx.require(len(pairs) >= 3, 'R-INBOUNDS: the (pointer, count) structures of the scheme were not found (%s)' % sorted(pairs))
    n_acc = 0
    n_data = 0
    for f in scheme_functions(prog):
        if only is not None and f['name'] not in only:
            continue
        ib = Inbounds(prog, f, pairs)
        if not ib.inputs:
            continue
        inn = None
        for n in ib.g.nodes:
            if n.ast is None or n.kind not in ('stmt', 'cond'):
                continue
            if not ib.accesses(n.ast):
                continue
            if inn is None:
                inn = ib.solve()
            accs = ib.accesses(n.ast, inn.get(n.id) or frozenset())
            kills = {k for k in ib.kills(n.ast) if not isinstance(k, tuple)} if n.kind == 'stmt' else set()
            for (x, vid, ck, addr, local) in accs:
                if vid is None:
                    n_data += 1       # selected by stored data (attribute index): a documented precondition, not a cursor
                    continue
                if addr:
                    continue
                n_acc += 1
                facts = inn.get(n.id)
                ok = facts is not None and ((vid, ck) in facts or (vid, ck) in local) and vid not in kills
                nm = pr.norm_obj(pr.canon(x, ib.binds))
                ctx.ob(rule, ok, 'inbounds|%s|%s|%s' % (f['name'], nm, loc_str(x)), loc_str(x),
                       '%s: %s is touched at %s although some path reaches this point without the cursor having been tested against %s since it '
                       'was last set or advanced: when the cursor equals the count this reads past the last element of the caller\'s list (the '
                       'routine then treats whatever follows the parent\'s components as one of them)' % (f['name'], nm, loc_str(x), ck[2:]),
                       cfg=cfg, sample=dict(config=cfg, function=f['name'], access=nm, guarded_by='cursor tested against %s on every path' % ck[2:]))
    ctx.count('R-INBOUNDS data-selected accesses (precondition)[%s]' % cfg, n_data)
    return n_acc


# ---------------------------------------------------------------------------------------------- R-HIDDEN/flag
KEY_DERIVATION = ('keygen', 'nondelegable_keygen', 'qualifykey', 'nondelegable_qualifykey')


def rule_hidden_flag(ctx, cfg, prog, rule='R-HIDDEN/flag'):
    """the four key-derivation routines (they produce a SecretKey from an AttributeList): every use of the identity of a list element
    (`attrs.attrs[k].id`), in the routine itself or in any scheme routine it hands the list to, happens only after the omitFromKeys flag
    of the SAME element has been tested on every path (must-pass on the CFG).  Independent of the loop structure; a derivation that
    obtains its attribute product from a routine which folds every attribute (precompute: right for ciphertexts, wrong for keys) is
    reported at that routine's use of `id`."""
    n = 0
    byname = {}
    for f in scheme_functions(prog):
        byname.setdefault(f['qn'], f)
    for name in KEY_DERIVATION:
        f = byname.get(WK + name)
        if f is None:
            raise bm.AnalysisBroken('R-HIDDEN/flag: %s not found' % name)
        lists = ['P:%s' % p['name'] for p in f.get('params', []) if _rec_of_type(p['t'])[0] == WK + 'AttributeList']
        if not lists:
            raise bm.AnalysisBroken('R-HIDDEN/flag: %s has no attribute list' % name)
        work = [(f, set(lists), name)]
        seen = set()
        while work:
            fn, lroots, via = work.pop()
            key = (fn['qn'], tuple(sorted(lroots)))
            if key in seen:
                continue
            seen.add(key)
            g = pr.build(fn)
            binds = {}
            for nd in g.stmt_nodes():
                if nd.ast.get('k') == 'decl':
                    for v in nd.ast['vars']:
                        if (v.get('t') or {}).get('k') == 'ref' and v.get('init') is not None:
                            binds[v['id']] = pr.norm_obj(pr.canon(v['init'], binds))
                        elif (v.get('t') or {}).get('k') == 'ptr' and v.get('init') is not None:
                            i0 = _unwrap(v['init'])
                            if isinstance(i0, dict) and i0.get('k') == 'un' and i0.get('op') == '&':
                                binds[v['id']] = pr.norm_obj(pr.canon(i0['e'], binds))
            # pointer locals that are only ever assigned the address of one lvalue (or null)
            cand = {}
            for nd in g.nodes:
                if nd.ast is None:
                    continue
                for x in walk(nd.ast):
                    if x.get('k') == 'assign' and x.get('op') == '=':
                        l = _unwrap(x['lhs'])
                        if isinstance(l, dict) and l.get('k') == 'ref' and l.get('rk') == 'local' and (l.get('t') or {}).get('k') == 'ptr':
                            r0 = _unwrap(x['rhs'])
                            if isinstance(r0, dict) and r0.get('k') == 'un' and r0.get('op') == '&':
                                cand.setdefault(l['id'], set()).add(pr.norm_obj(pr.canon(r0['e'], binds)))
                            elif isinstance(r0, dict) and (r0.get('k') == 'nullptr' or str(r0.get('cv')) == '0'):
                                pass
                            else:
                                cand.setdefault(l['id'], set()).add('?')
            for vid, vals in cand.items():
                if len(vals) == 1 and '?' not in vals and vid not in binds:
                    binds[vid] = list(vals)[0]
            # tests of the flag: condition nodes mentioning <elem>.omitFromKeys
            tests = {}
            for nd in g.cond_nodes():
                for x in walk(nd.ast):
                    if x.get('k') == 'member' and x.get('name') == 'omitFromKeys':
                        tests.setdefault(pr.norm_obj(pr.canon(x['base'], binds)), []).append(nd.id)
            for nd in g.nodes:
                if nd.ast is None or nd.kind not in ('stmt', 'cond'):
                    continue
                for x in walk(nd.ast):
                    if x.get('k') == 'member' and x.get('name') == 'id':
                        elem = pr.norm_obj(pr.canon(x['base'], binds))
                        if not any(elem.startswith(r + '.attrs[') for r in lroots):
                            continue
                        n += 1
                        ok = any(g.must_pass_node(t, nd.id) for t in tests.get(elem, []))
                        ctx.ob(rule, ok, 'hiddenflag|%s|%s|%s' % (name, fn['name'], loc_str(x)), loc_str(x),
                               '%s%s: the identity %s.id enters the computation at %s although no test of %s.omitFromKeys lies on every path to it: a '
                               'hidden attribute is folded into key material (the key then opens / delegates for a slot it must leave open)' % (
                                   name, '' if fn is f else ' (through %s)' % fn['name'], elem, loc_str(x), elem),
                               cfg=cfg, sample=dict(config=cfg, derivation=name, routine=fn['name'], element=elem))
                # callees that receive the list
                for c in pr.calls(nd.ast):
                    cal = prog.callee(c, fn)
                    if cal is None or 'body' not in cal or not cal['qn'].startswith(WK):
                        continue
                    sub = set()
                    for a, p in zip(c.get('args', []), cal.get('params', [])):
                        if pr.norm_obj(pr.canon(a, binds)) in lroots:
                            sub.add('P:%s' % p['name'])
                    if sub:
                        work.append((cal, sub, name))
    return n


def rule_hidden_all(ctx, cfg, prog, rule='R-HIDDEN/all'):
    """the four key-derivation routines: a delegation component of the OUTPUT key (`out.b[...]`, written directly or handed to a helper
    as a non-const object) is produced only after `omitAllFromKeysUnlessPresent` of the attribute list has been tested on every path
    (must-pass on the CFG).  With that flag set no slot outside the list may stay fillable; a free-slot copy that some path reaches
    without the test keeps slots open that the caller asked to hide.  Independent of the loop structure."""
    n = 0
    byname = {}
    for f in scheme_functions(prog):
        byname.setdefault(f['qn'], f)
    for name in KEY_DERIVATION:
        f = byname.get(WK + name)
        if f is None:
            raise bm.AnalysisBroken('R-HIDDEN/all: %s not found' % name)
        outs = ['P:%s' % p['name'] for p in f.get('params', []) if _rec_of_type(p['t'])[0] == WK + 'SecretKey' and not _rec_of_type(p['t'])[1]]
        lists = ['P:%s' % p['name'] for p in f.get('params', []) if _rec_of_type(p['t'])[0] == WK + 'AttributeList']
        if len(outs) != 1 or not lists:
            raise bm.AnalysisBroken('R-HIDDEN/all: %s: output key / attribute list not identified' % name)
        out = outs[0]
        g = pr.build(f)
        tests = []
        for nd in g.cond_nodes():
            for x in walk(nd.ast):
                if x.get('k') == 'member' and x.get('name') == 'omitAllFromKeysUnlessPresent' and pr.norm_obj(pr.canon(x['base'])) in lists:
                    tests.append(nd.id)
        for nd in g.nodes:
            if nd.ast is None or nd.kind not in ('stmt', 'cond'):
                continue
            hit = None
            for x in walk(nd.ast):
                if x.get('k') == 'assign' and pr.norm_obj(pr.canon(x['lhs'])).startswith(out + '.b['):
                    hit = x
                elif x.get('k') == 'call':
                    th = x.get('this')
                    if th is not None and pr.norm_obj(pr.canon(th)).startswith(out + '.b[') and not (prog.callee(x, f) or {}).get('const_method'):
                        hit = x
                    cal = prog.callee(x, f)
                    for i, a in enumerate(x.get('args', [])):
                        if pr.norm_obj(pr.canon(a)).startswith(out + '.b[') and cal is not None and i < len(cal.get('params', [])):
                            pt = cal['params'][i]['t']
                            if pt.get('k') in ('ref', 'ptr') and not (pt.get('pointee') or {}).get('const'):
                                hit = x
            if hit is None:
                continue
            n += 1
            ok = any(g.must_pass_node(t, nd.id) for t in tests)
            ctx.ob(rule, ok, 'hiddenall|%s|%s' % (name, loc_str(hit)), loc_str(hit),
                   '%s: a delegation component of the derived key is written at %s although some path reaches it without a test of '
                   '%s.omitAllFromKeysUnlessPresent: with that flag set the slot stays fillable in the derived key' % (name, loc_str(hit), lists[0][2:]),
                   cfg=cfg, sample=dict(config=cfg, derivation=name, site=loc_str(hit)))
    return n
