"""Rules over the marshalling layer: R-FOOT (footprint == length formula), R-PAIR (writer/reader agree),
R-LEN (length discovery), R-MUSTCHECK (decode verdicts propagate).  Used by C15 and C17."""
import re
from .facts import walk, strip, loc_str, strip_tmpl
from . import pathrules as pr
from . import foot
from .cfg import CFG
from . import buildmodel as bm


# ---------- tiny concrete evaluator for pure integer expressions (length formulas, byte predicates) ----------
def ceval(e, env):
    e0 = e
    if not isinstance(e, dict):
        return None
    if 'cv' in e and e.get('k') not in ('ref',) or ('cv' in e and e.get('rk') not in ('local', 'param')):
        return int(e['cv'])
    k = e.get('k')
    if k == 'load':
        inner = e['e']
        if inner.get('k') == 'un' and inner.get('op') == '*':
            return env.get('*buf')
        if inner.get('k') == 'member' and pr.norm_obj(pr.canon(inner)) in env:
            return env[pr.norm_obj(pr.canon(inner))]
        return ceval(inner, env)
    if k == 'ref':
        if e.get('rk') in ('local', 'param'):
            return env.get(e['id'])
        return None
    if k == 'cast':
        v = ceval(e['e'], env)
        if v is None:
            return None
        t = e.get('t') or {}
        if t.get('k') == 'bool':
            return 1 if v else 0
        if t.get('k') in ('int', 'enum') and t.get('size'):
            bits = 8 * t['size']
            v &= (1 << bits) - 1
            if t.get('signed') and v >= (1 << (bits - 1)):
                v -= (1 << bits)
        return v
    if k == 'un':
        v = ceval(e['e'], env)
        if v is None:
            return None
        return {'!': lambda x: 0 if x else 1, '-': lambda x: -x, '~': lambda x: ~x, '+': lambda x: x}.get(e['op'], lambda x: None)(v)
    if k == 'bin':
        a, b = ceval(e['lhs'], env), ceval(e['rhs'], env)
        op = e['op']
        if op == '&&':
            if a == 0 or b == 0:
                return 0
            return None if a is None or b is None else 1
        if op == '||':
            if (a is not None and a != 0) or (b is not None and b != 0):
                return 1
            return None if a is None or b is None else 0
        if a is None or b is None:
            return None
        try:
            return {'+': a + b, '-': a - b, '*': a * b, '/': (a // b if b else None), '%': (a % b if b else None),
                    '==': int(a == b), '!=': int(a != b), '<': int(a < b), '<=': int(a <= b), '>': int(a > b), '>=': int(a >= b),
                    '&': a & b, '|': a | b, '^': a ^ b, '<<': a << b, '>>': a >> b}.get(op)
        except Exception:
            return None
    if k == 'cond':
        c = ceval(e['c'], env)
        if c is None:
            return None
        return ceval(e['then'] if c else e['else'], env)
    if k == 'lit':
        if 'bool' in e:
            return int(e['bool'])
    if k == 'call' and env.get('__prog__') is not None and e.get('this') is None:
        # call of a pure (constexpr-style) function: evaluate its body under the argument values
        prog = env['__prog__']
        callee = prog.callee(e, None)
        if callee is not None and 'body' in callee and env.get('__depth__', 0) < 4:
            sub = {'__prog__': prog, '__depth__': env.get('__depth__', 0) + 1}
            for p_, a in zip(callee['params'], e.get('args', [])):
                sub[p_['id']] = ceval(a, env)
            return fn_return_value(callee, sub)
    return None


def fn_return_value(fn, env):
    """value of a function whose body is straight-line declarations + early returns, under env (ints)"""
    env = dict(env)
    for s in fn['body'].get('body', []):
        k = s.get('k')
        if k == 'decl':
            for v in s['vars']:
                if v.get('init') is not None and v.get('id') is not None:
                    env[v['id']] = ceval(v['init'], env)
        elif k == 'return':
            return ceval(s['e'], env)
        elif k == 'if':
            c = ceval(s['c'], env)
            if c is None:
                return None
            br = s['then'] if c else s.get('else')
            if br is not None:
                inner = dict(body=dict(body=br['body'] if br.get('k') == 'compound' else [br]))
                r = fn_return_value(inner, env)
                if r is not None or any(x.get('k') == 'return' for x in walk(br)):
                    return r
        elif k in ('expr', 'null'):
            continue
        else:
            return None
    return None


def tmpl_bool(fn):
    """the <true>/<false> template argument of a marshalling function"""
    m = re.search(r'<(true|false)>$', fn['qn'])
    return m.group(1) if m else None


class Obj:
    """one marshallable type: its marshal/unmarshal/length functions for one encoding"""
    pass


def marshal_pairs(prog):
    """[(type qn, 'true'/'false', marshal fn, unmarshal fn)] discovered from member functions named marshal/unmarshal"""
    ms, us = {}, {}
    for f in prog.functions.values():
        if 'body' not in f or not f.get('method'):
            continue
        if not f['l'][0].startswith(('src/wkdibe', 'src/lqibe', 'include/wkdibe', 'include/lqibe')):
            continue
        tb = tmpl_bool(f)
        if tb is None:
            continue
        if f['name'] == 'marshal':
            ms[(f['parent'], tb)] = f
        elif f['name'] == 'unmarshal':
            us[(f['parent'], tb)] = f
    out = []
    for key in sorted(set(ms) | set(us)):
        out.append((key[0], key[1], ms.get(key), us.get(key)))
    return out


def length_of(prog, parent, tb, L, sig):
    """marshalledLength<c>(L, sig) or the variable template marshalledLength<c>, evaluated from the AST; None if absent"""
    qn = '%s::marshalledLength<%s>' % (parent, tb)
    fs = prog.fn_by_qn(qn)
    if fs:
        f = fs[0]
        env = {f['params'][0]['id']: L, f['params'][1]['id']: int(sig)}
        return fn_return_value(f, env)
    g = prog.globals.get(qn)
    if g is not None and 'value' in g:
        from .consts import decode
        return decode(g['value'])
    return None


def rule_foot_and_pair(ctx, cfg, prog, rule_foot='R-FOOT', rule_pair='R-PAIR'):
    pairs = marshal_pairs(prog)
    ctx.floor('marshal/unmarshal pairs[%s]' % cfg, len(pairs), 20)
    memo = {}
    n = 0
    for (parent, tb, mf, uf) in pairs:
        short = parent.split('::')[-2] + '::' + parent.split('::')[-1] + '<' + tb + '>'
        ctx.ob(rule_pair, mf is not None and uf is not None, 'pair|exists|' + short, loc_str(mf or uf),
               '%s has marshal without unmarshal (or vice versa)' % short, cfg=cfg)
        if mf is None or uf is None:
            continue
        has_sig = any(f['name'] == 'signatures' for f in prog.records[parent]['fields'])
        has_l = any(f['name'] == 'l' for f in prog.records[parent]['fields'])
        for sig in ([False, True] if has_sig else [None]):
            try:
                ma = foot.footprint(prog, memo, mf, 0, sig)
                ua = foot.footprint(prog, memo, uf, 0, sig)
            except foot.Unsupported as e:
                # a walk this interpreter cannot follow is not a finding about the code: no verdict
                from . import buildmodel as bm_
                raise bm_.AnalysisBroken('R-FOOT cannot model %s: the buffer walk is not expressible as offsets affine in the slot count (%s)' % (short, e))
            for L in ([0, 1, 3] if has_l else [0]):
                n += 1
                want = length_of(prog, parent, tb, L, bool(sig))
                ctx.require(want is not None, 'no marshalledLength for %s' % short)
                for which, accs, fn in (('marshal', ma, mf), ('unmarshal', ua, uf)):
                    accs2 = [a for a in accs if (a.write if which == 'marshal' else not a.write) or True]
                    merged, iv = foot.tiling(accs2, L)
                    ok = merged == ([(0, want)] if want > 0 else [])
                    ctx.ob(rule_foot, ok, 'foot|%s|%s|sig=%s|L=%d' % (short, which, sig, L), loc_str(fn),
                           '%s::%s touches buffer bytes %s for l=%d, signatures=%s, but marshalledLength reports %d: the walk and the '
                           'length formula disagree (over-read/over-write or uncovered bytes)' % (short, which, merged, L, sig, want),
                           cfg=cfg, sample=dict(config=cfg, object=short, function=which, l=L, signatures=sig, extent=want,
                                                accesses=len(iv)))
                # no two writes overlap in marshal
                wiv = sorted((s, e) for a in ma if a.write for (s, e) in a.intervals(L) if e > s)
                ovl = [(x, y) for x, y in zip(wiv, wiv[1:]) if y[0] < x[1]]
                ctx.ob(rule_foot, not ovl, 'foot|overlap|%s|sig=%s|L=%d' % (short, sig, L), loc_str(mf),
                       '%s::marshal writes overlapping buffer ranges %s' % (short, ovl[:2]), cfg=cfg)
            # R-PAIR: the same buffer ranges carry the same object fields through matching codecs
            mw = foot_map(memo, mf, sig, ma)
            uw = foot_map(memo, uf, sig, ua)
            keys = sorted(set(mw) | set(uw), key=str)
            for kk in keys:
                a, b = mw.get(kk), uw.get(kk)
                ok = a is not None and b is not None and a[1] == b[1] and codec_match(a[0], b[0])
                ctx.ob(rule_pair, ok, 'pair|%s|sig=%s|%s' % (short, sig, kk), loc_str(uf),
                       '%s: buffer range %s is written by marshal as %s but read by unmarshal as %s' % (short, kk, a, b), cfg=cfg,
                       sample=dict(config=cfg, object=short, range=str(kk), marshal=str(a), unmarshal=str(b)))
    return n


def codec_match(w, r):
    pairs = {('encode', 'decode'), ('write_big_endian', 'read_big_endian'), ('store', 'load'), ('memcpy', 'memcpy')}
    wn, rn = w.split('>')[-1], r.split('>')[-1]
    return (wn, rn) in pairs or (w.startswith('marshal>') and r.startswith('unmarshal>') and (wn, rn) in pairs)


def foot_map(memo, fn, sig, accs):
    """{(start repr, size, count repr): (codec kind, object-side field)}"""
    walker = memo.get(((fn['key'], 0, sig), 'walker'))
    out = {}
    for a in accs:
        partner = a.partner
        if isinstance(partner, tuple) and partner[0] == 'local' and walker is not None:
            partner = walker.local_partner.get(partner[1], 'local')
        if a.kind == 'memcpy':
            partner = 'raw'
        key = (repr(a.start), a.size, repr(a.count) if a.count is not None else None)
        out[key] = (a.kind, canonical_field(partner))
    return out


def canonical_field(p):
    if p is None:
        return None
    p = re.sub(r'L\d+', 'i', p)
    return p.replace('&', '')


def size_guard(cond_ast, size_id):
    """If the atomic condition compares the size parameter with the fixed-part size, return (label of the edge on
    which size < fixed holds, the fixed-part expression); else None."""
    c = strip(cond_ast)
    if c.get('k') != 'bin' or c.get('op') not in ('<', '>=', '>', '<='):
        return None
    l, r = strip(c['lhs']), strip(c['rhs'])
    op = c['op']
    if l.get('k') == 'ref' and l.get('id') == size_id:
        if op == '<':
            return (True, r)
        if op == '>=':
            return (False, r)
    if r.get('k') == 'ref' and r.get('id') == size_id:
        if op == '>':
            return (True, l)
        if op == '<=':
            return (False, l)
    return None


def is_minus_one(v):
    return v is not None and (v == -1 or (v + 1) % (1 << 32) == 0)


# ---------- R-LEN ----------
def rule_len(ctx, cfg, prog, rule='R-LEN'):
    n = 0
    for parent in ('embedded_pairing::wkdibe::Params', 'embedded_pairing::wkdibe::SecretKey'):
        for tb in ('true', 'false'):
            short = parent.split('::')[-1] + '<' + tb + '>'
            fs = prog.fn_by_qn('%s::unmarshalledLength<%s>' % (parent, tb))
            us = prog.fn_by_qn('%s::unmarshal<%s>' % (parent, tb))
            ctx.require(fs and us, 'unmarshalledLength/unmarshal<%s> of %s not found' % (tb, parent))
            f, u = fs[0], us[0]
            n += 1
            # (a) first-byte predicate agreement, over all 256 byte values
            sig_assign = [x for x in walk(u['body']) if x.get('k') == 'assign' and pr.norm_obj(pr.canon(x['lhs'])) == 'this.signatures']
            ctx.require(len(sig_assign) == 1, '%s::unmarshal: assignment of this->signatures not found' % short)
            rhs = sig_assign[0]['rhs']
            sig_field = [pr.norm_obj(pr.canon(x)) for x in walk(rhs) if x.get('k') == 'member']
            bad = []
            wl_id = None
            size_param = f['params'][1]
            for b in range(256):
                env_u = {m: b for m in sig_field}
                s_parse = ceval(rhs, env_u)
                # withoutLength under first byte b: evaluate declarations of the length function
                env = {'*buf': b, '__prog__': prog}
                W = None
                for s in f['body'].get('body', []):
                    if s.get('k') == 'decl':
                        for v in s['vars']:
                            if v.get('init') is not None:
                                env[v['id']] = ceval(v['init'], env)
                # the fixed-part size the size parameter is compared with in the guard
                for x in walk(f['body']):
                    if x.get('k') in ('bin',):
                        sg = size_guard(x, size_param['id'])
                        if sg is not None:
                            W = ceval(sg[1], env)
                if s_parse is None or W is None:
                    bad.append((b, 'not evaluable'))
                    break
                want = length_of(prog, parent, tb, 0, bool(s_parse))
                if W != want:
                    bad.append((b, W, want, s_parse))
            ctx.ob(rule, not bad, 'len|firstbyte|' + short, loc_str(f),
                   '%s: for first byte %s length discovery assumes a fixed part of %s bytes while unmarshal (signatures=%s) consumes %s: '
                   'unmarshal would read past the buffer the caller sized' % (
                       short, bad[0][0] if bad else '', bad[0][1] if bad else '', bad[0][3] if bad and len(bad[0]) > 3 else '?',
                       bad[0][2] if bad and len(bad[0]) > 2 else '?'), cfg=cfg,
                   sample=dict(config=cfg, object=short, first_bytes_checked=256))
            # (b) guard before the unsigned subtraction; quotient only on the exact-multiple edge; divisor == slope
            g = CFG(f)
            subs = [nd for nd in g.stmt_nodes() if any(x.get('k') == 'bin' and x.get('op') == '-' and strip(x['lhs']).get('id') == size_param['id']
                                                        for x in walk(nd.ast))]
            guards = [(nd, size_guard(nd.ast, size_param['id'])) for nd in g.cond_nodes() if size_guard(nd.ast, size_param['id']) is not None]
            ok = bool(subs) and bool(guards) and all(any(g.must_pass_edge(gd.id, not sg[0], s.id) for (gd, sg) in guards) for s in subs)
            # the `size < fixed` edge returns -1
            for (gd, sg) in guards:
                for (y, lab) in gd.succ:
                    if lab is sg[0]:
                        ra = g.nodes[y].ast
                        if not (ra and ra.get('k') == 'return' and is_minus_one(ceval(ra['e'], {}))):
                            ok = False
            ctx.ob(rule, ok, 'len|guard|' + short, loc_str(f),
                   '%s::unmarshalledLength: `marshalledLength - withoutLength` is not dominated by the `marshalledLength < withoutLength '
                   '=> -1` guard (the unsigned difference wraps and a huge slot count is reported)' % short, cfg=cfg)
            slope = length_of(prog, parent, tb, 1, False) - length_of(prog, parent, tb, 0, False)
            divs = [x for x in walk(f['body']) if x.get('k') == 'bin' and x.get('op') == '/']
            okd = len(divs) == 1
            why = ''
            if okd:
                d = divs[0]
                dv = ceval(d['rhs'], {})
                # enclosing conditional: (X % D == 0) ? X / D : -1
                conds = [x for x in walk(f['body']) if x.get('k') == 'cond' and any(y is d for y in walk(x['then']))]
                okd = dv == slope and len(conds) == 1
                if okd:
                    c = strip(conds[0]['c'])
                    mods = [y for y in walk(c) if y.get('k') == 'bin' and y.get('op') == '%']
                    okd = c.get('k') == 'bin' and c.get('op') == '==' and ceval(c['rhs'], {}) == 0 and len(mods) == 1 and \
                        ceval(mods[0]['rhs'], {}) == slope and is_minus_one(ceval(conds[0]['else'], {})) and \
                        pr.canon(mods[0]['lhs']) == pr.canon(d['lhs'])
                why = 'divisor %s, per-slot size %s' % (dv, slope)
            ctx.ob(rule, okd, 'len|divide|' + short, loc_str(f),
                   '%s::unmarshalledLength must return (size - fixed) / per-slot-size only when the remainder is zero, else -1 (%s)' % (short, why),
                   cfg=cfg)
            # (c) setLength stores only valid lengths
            ss = prog.fn_by_qn('%s::setLength<%s>' % (parent, tb))
            ctx.require(ss, 'setLength<%s> of %s not found' % (tb, parent))
            sf = ss[0]
            g2 = CFG(sf)
            stores = [nd for nd in g2.stmt_nodes() if any(x.get('k') == 'assign' and pr.norm_obj(pr.canon(x['lhs'])) == 'this.l' for x in walk(nd.ast))]
            conds = [nd for nd in g2.cond_nodes() if strip(nd.ast).get('k') == 'bin' and strip(nd.ast).get('op') in ('!=', '==', '>=', '<', '>') and
                     (ceval(strip(nd.ast)['rhs'], {}) in (-1, 0))]
            oks = bool(stores) and bool(conds)
            if oks:
                for st in stores:
                    good = False
                    for c in conds:
                        op = strip(c.ast)['op']
                        rv = ceval(strip(c.ast)['rhs'], {})
                        lab = {('!=', -1): True, ('==', -1): False, ('>=', 0): True, ('<', 0): False, ('>', -1): True}.get((op, rv))
                        if lab is not None and g2.must_pass_edge(c.id, lab, st.id):
                            good = True
                    oks = oks and good
            ctx.ob(rule, oks, 'len|setLength|' + short, loc_str(sf),
                   '%s::setLength stores the discovered length without excluding -1 (l = -1 makes the `i != l` loops run away)' % short, cfg=cfg)
    return n


# ---------- R-MUSTCHECK ----------
def rule_mustcheck(ctx, cfg, prog, rule='R-MUSTCHECK'):
    sites = 0
    for f in prog.functions.values():
        if 'body' not in f:
            continue
        file = f['l'][0]
        if not file.startswith(('src/wkdibe', 'src/lqibe', 'include/wkdibe', 'include/lqibe', 'src/bls12_381/bls12_381.cpp')):
            continue
        calls = [c for c in pr.calls(f['body']) if c.get('name') in ('decode', 'unmarshal') and
                 (prog.callee(c, f) or {}).get('ret', {}).get('k') == 'bool']
        if not calls:
            continue
        g = CFG(f)
        for c in calls:
            sites += 1
            ok = False
            why = 'its verdict is discarded'
            # (a) returned directly
            def returned(e_):
                # the call is the returned value, directly or as an arm of a returned `?:`
                e_ = strip(e_)
                while isinstance(e_, dict) and e_.get('k') in ('cast', 'paren') and isinstance(e_.get('e'), dict):
                    e_ = strip(e_['e'])
                if e_ is c:
                    return True
                if isinstance(e_, dict) and e_.get('k') == 'cond':
                    return returned(e_['then']) or returned(e_['else'])
                return False
            for nd in g.stmt_nodes():
                if nd.ast.get('k') == 'return' and nd.ast.get('e') is not None and returned(nd.ast['e']):
                    ok = True
            # (b) atomic condition whose false edge returns false
            for nd in g.cond_nodes():
                if strip(nd.ast) is c:
                    for (y, lab) in nd.succ:
                        if lab is False:
                            ra = g.nodes[y].ast
                            if ra is not None and ra.get('k') == 'return' and ra.get('e') is not None and ceval(ra['e'], {}) == 0:
                                ok = True
                            else:
                                why = 'the failure edge does not return false immediately'
            # `checked` forwarded as the parameter
            chk_ok = True
            callee = prog.callee(c, f)
            if callee:
                for i, p in enumerate(callee['params']):
                    if p['name'] == 'checked' and i < len(c['args']):
                        a = strip(c['args'][i])
                        if not (a.get('k') == 'ref' and a.get('rk') == 'param' and a.get('name') == 'checked'):
                            chk_ok = False
            ctx.ob(rule, ok and chk_ok, 'mustcheck|%s|%s' % (strip_tmpl(f['qn']), sites if False else loc_str(c).split(':')[-1]), loc_str(c),
                   '%s calls %s but %s' % (f['qn'], c.get('qn') or c['name'], why if not ok else
                                           'passes something other than its own `checked` parameter as the validation flag'), cfg=cfg,
                   sample=dict(config=cfg, function=f['qn'][:90], call=c['name'], site=loc_str(c)))
    return sites


def rule_params_pairing(ctx, cfg, prog, rule='R-PAIR'):
    """compressed Params omit e(g2, g1) and recompute it on load: same argument roles as setup"""
    def roles(fn, objprefix):
        lp = {}
        out = []
        for c in pr.calls(fn['body']):
            if c['name'] == 'from_projective' and c.get('this') is not None and c.get('args'):
                lp[foot.uncast(c['this']).get('id')] = pr.norm_obj(pr.canon(c['args'][0]))
            if c['name'] == 'from_affine' and c.get('args'):
                lp[foot.uncast(c['args'][0]).get('id')] = pr.norm_obj(pr.canon(c['this']))
        for c in pr.calls(fn['body']):
            if c['name'] == 'pairing' and len(c.get('args', [])) == 3:
                a = [pr.norm_obj(pr.canon(c['args'][0]))] + [lp.get(foot.uncast(x).get('id'), '?') for x in c['args'][1:]]
                out.append(tuple(x.replace(objprefix, 'obj.') for x in a))
        return out
    us = prog.fn_by_qn('embedded_pairing::wkdibe::Params::unmarshal<true>')
    st = prog.fn_by_qn('embedded_pairing::wkdibe::setup')
    ctx.require(us and st, 'Params::unmarshal<true> / setup not found')
    ru, rs = roles(us[0], 'this.'), roles(st[0], 'P:params.')
    ok = len(ru) == 1 and len(rs) == 1 and ru[0] == rs[0] == ('obj.pairing', 'obj.g2', 'obj.g1')
    ctx.ob(rule, ok, 'pair|params-pairing', loc_str(us[0]),
           'compressed Params::unmarshal recomputes the pairing as %s while setup computes %s (expected pairing := e(g2, g1))' % (ru, rs),
           cfg=cfg, sample=dict(config=cfg, unmarshal=str(ru), setup=str(rs)))


# ---------- R-SUBBUF: a pointer into a fixed-size member array handed to a serialiser must leave room for its footprint ----------
def rule_subbuffer(ctx, cfg, prog, rule='R-SUBBUF'):
    memo = {}
    decided = undecided = 0
    for f in prog.functions.values():
        if 'body' not in f or not f['l'][0].startswith(('src/', 'include/')):
            continue
        for c in pr.calls(f['body']):
            callee = prog.callee(c, f)
            if callee is None or 'body' not in callee:
                continue
            for i, a in enumerate(c.get('args', [])):
                if (a.get('t') or {}).get('k') != 'ptr':
                    continue
                x = a
                while isinstance(x, dict) and x.get('k') == 'cast' and x.get('ck') != 'ArrayToPointerDecay':
                    x = x['e']
                off = None
                arr = None
                if isinstance(x, dict) and x.get('k') == 'un' and x.get('op') == '&' and x['e'].get('k') == 'index':
                    ix = x['e']
                    b = ix['base']
                    if b.get('k') == 'cast' and b.get('ck') == 'ArrayToPointerDecay' and 'cv' in strip(ix['idx']):
                        arr = b['e']
                        off = int(strip(ix['idx'])['cv']) * ((ix.get('t') or {}).get('size') or 1)
                elif isinstance(x, dict) and x.get('k') == 'cast' and x.get('ck') == 'ArrayToPointerDecay':
                    arr = x['e']
                    off = 0
                if arr is None or arr.get('k') != 'member':
                    continue
                at = arr.get('t') or {}
                if at.get('k') != 'array' or 'n' not in at:
                    continue
                extent = at['n'] * ((at.get('elem') or {}).get('size') or 1)
                try:
                    accs = foot.footprint(prog, memo, callee, i, None)
                    ends = []
                    for acc in accs:
                        if acc.count is not None:
                            raise foot.Unsupported('run-time loop')
                        for (s0, e0) in acc.intervals(0):
                            ends.append(e0)
                except foot.Unsupported:
                    undecided += 1
                    continue
                if not ends:
                    continue
                decided += 1
                need = off + max(ends)
                ctx.ob(rule, need <= extent, 'subbuf|%s|%s+%d' % (strip_tmpl(f['qn']), arr.get('name'), off), loc_str(c),
                       '%s passes &%s[%d] to %s, which accesses %d bytes through it, but the array has only %d bytes: %d bytes beyond the '
                       'object (%s) are touched' % (f['qn'], arr.get('name'), off, callee['qn'], max(ends), extent, need - extent, loc_str(c)),
                       cfg=cfg, sample=dict(config=cfg, function=f['qn'][:90], array=arr.get('name'), offset=off, callee_footprint=max(ends), extent=extent))
    ctx.count('subbuffer_sites_decided[%s]' % cfg, decided)
    ctx.count('subbuffer_sites_undecided[%s]' % cfg, undecided)
    return decided
