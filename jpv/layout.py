"""Record layout helpers: flattened leaf layouts and pointer-cast enumeration (R-LAYOUT)."""
from .facts import walk, loc_str


def type_of(prog, t):
    return t


def flatten(prog, t, base=0, path='', out=None, depth=0):
    """Flatten type t into scalar leaves [(offset, size, kind, path, extra)].
    A union is represented by its covering member (a member whose size equals the union's size and whose
    alignment equals the union's alignment); if none exists it is an opaque blob."""
    if out is None:
        out = []
    k = t.get('k')
    if k in ('record', 'union'):
        rec = prog.records.get(t['rec'])
        if rec is None:
            out.append((base, t.get('size'), 'opaque:' + t['rec'], path, None))
            return out
        if rec['union']:
            cover = None
            for f in rec['fields']:
                ft = f['t']
                if ft.get('size') == rec['size'] and ft.get('align') == rec['align']:
                    cover = f
                    break
            if cover is None:
                out.append((base, rec['size'], 'blob', path, None))
            else:
                flatten(prog, cover['t'], base + cover['off'], path + '.' + cover['name'], out, depth + 1)
            return out
        for b in rec['bases']:
            flatten(prog, b['t'], base + b['off'], path, out, depth + 1)
        for f in rec['fields']:
            flatten(prog, f['t'], base + f['off'], path + '.' + f['name'], out, depth + 1)
        return out
    if k == 'array':
        et = t['elem']
        n = t.get('n', 0)
        es = et.get('size', 0)
        for i in range(n):
            flatten(prog, et, base + i * es, '%s[%d]' % (path, i), out, depth + 1)
        return out
    if k == 'ptr':
        out.append((base, t['size'], 'ptr', path, t['pointee']))
    elif k == 'fnptr':
        out.append((base, t['size'], 'fnptr', path, None))
    elif k == 'bool':
        out.append((base, t['size'], 'bool', path, None))
    elif k in ('int', 'enum'):
        out.append((base, t['size'], 'int', path, None))
    else:
        out.append((base, t.get('size'), k or '?', path, None))
    return out


def padding(prog, t):
    """Bytes of t not covered by any leaf (internal/trailing padding)."""
    leaves = flatten(prog, t)
    size = t.get('size', 0)
    covered = [False] * size
    for (off, sz, kind, path, extra) in leaves:
        for i in range(off, min(size, off + (sz or 0))):
            covered[i] = True
    return [i for i, c in enumerate(covered) if not c]


def compare_layout(prog, a, b, seen=None, where=''):
    """Compare two types for layout compatibility. Returns list of mismatch strings (empty = compatible)."""
    if seen is None:
        seen = set()
    key = (a['s'], b['s'])
    if key in seen:
        return []
    seen.add(key)
    errs = []
    if a.get('size') != b.get('size'):
        errs.append('%ssizeof differs: %s=%s vs %s=%s' % (where, a['s'], a.get('size'), b['s'], b.get('size')))
    if a.get('align') != b.get('align'):
        errs.append('%salignof differs: %s=%s vs %s=%s' % (where, a['s'], a.get('align'), b['s'], b.get('align')))
    la = flatten(prog, a)
    lb = flatten(prog, b)
    sa = [(o, s, k) for (o, s, k, p, e) in la]
    sb = [(o, s, k) for (o, s, k, p, e) in lb]
    if sa != sb:
        # first difference
        i = 0
        while i < min(len(sa), len(sb)) and sa[i] == sb[i]:
            i += 1
        da = la[i] if i < len(la) else None
        db = lb[i] if i < len(lb) else None
        errs.append('%sleaf layout differs at leaf %d: %s has %s, %s has %s (%d vs %d leaves)' % (
            where, i, a['s'], da and (da[3], da[0], da[1], da[2]), b['s'], db and (db[3], db[0], db[1], db[2]),
            len(sa), len(sb)))
    else:
        for (x, y) in zip(la, lb):
            if x[2] == 'ptr' and x[4] is not None and y[4] is not None:
                pa, pb = x[4], y[4]
                if pa.get('k') in ('record', 'union') or pb.get('k') in ('record', 'union'):
                    if 'size' in pa and 'size' in pb:
                        errs += compare_layout(prog, pa, pb, seen, where + '%s->' % x[3])
    return errs


def pointer_casts(fn_or_global, root):
    """Yield (node, src pointee type, dst pointee type) for every pointer conversion that changes the pointee."""
    for n in walk(root):
        if n.get('k') != 'cast':
            continue
        dt = n.get('t') or {}
        st = (n.get('e') or {}).get('t') or {}
        if dt.get('k') != 'ptr' or st.get('k') not in ('ptr', 'array'):
            continue
        if n.get('ck') not in ('BitCast',):
            continue
        sp = st.get('pointee') if st.get('k') == 'ptr' else st.get('elem')
        dp = dt.get('pointee')
        if sp is None or dp is None:
            continue
        yield n, sp, dp


def unqual(s):
    s = s.strip()
    while s.startswith('const '):
        s = s[6:]
    return s
