"""R-CURSOR / R-HIDDEN / R-TOTAL: sorted-merge cursor discipline of the WKD-IBE slot loops (C11, C12, C14, C17)."""
from .facts import walk, strip, loc_str, strip_tmpl
from . import pathrules as pr
from .cfg import CFG
from . import buildmodel as bm
from . import ranges

WK = 'embedded_pairing::wkdibe::'
SLOT_FUNCS = ('keygen', 'qualifykey', 'nondelegable_keygen', 'nondelegable_qualifykey')


def incs_in(ast, vid):
    n = 0
    for x in walk(ast):
        if x.get('k') == 'un' and x.get('op') in ('++',) and strip(x['e']).get('k') == 'ref' and strip(x['e']).get('id') == vid:
            n += 1
        if x.get('k') == 'assign' and x.get('op') == '+=' and strip(x['lhs']).get('id') == vid:
            n += 1
    return n


class SlotLoop:
    """The `for (i ...; i != params.l; i++)` loop of a key-derivation function with its cursor roles."""

    def __init__(self, ctx, prog, f):
        self.f = f
        self.g = CFG(f)
        self.ctx = ctx
        self.prog = prog
        g = self.g
        # main loop: a `for` whose condition mentions member `l` of a parameter and whose body indexes attrs
        cands = []
        for (h, lp) in g.loops:
            if lp.get('k') != 'for' or not lp.get('c'):
                continue
            mentions_l = any(x.get('k') == 'member' and x.get('name') == 'l' for x in walk(lp['c']))
            if mentions_l and any(x.get('k') == 'member' and x.get('name') == 'attrs' for x in walk(lp['body'])):
                cands.append((h, lp))
        ctx.require(len(cands) == 1, '%s: slot loop not found (%d candidates)' % (f['qn'], len(cands)))
        self.head, self.loop = cands[0]
        init = self.loop['init']
        self.i = init['vars'][0]['id'] if init and init.get('k') == 'decl' else None
        ctx.require(self.i is not None, '%s: slot loop variable not found' % f['qn'])
        # cursor roles from the index expressions
        self.k = self.x = self.j = None
        self.attrs_p = self.parent_p = self.out_p = None
        outs = [p['name'] for p in f['params'] if p.get('indirect') and not p.get('pointee_const')]
        for n in walk(self.loop['body']):
            if n.get('k') != 'index':
                continue
            idx = strip(n['idx'])
            if idx.get('k') != 'ref' or idx.get('rk') != 'local':
                continue
            base = pr.norm_obj(pr.canon(n['base']))
            if base.endswith('.attrs'):
                self.k = idx['id']
                self.attrs_p = base[:-len('.attrs')]
            elif base.endswith('.b'):
                owner = base[:-2]
                if owner.startswith('P:') and owner[2:] in outs:
                    self.j = idx['id']
                    self.out_p = owner
                else:
                    self.x = idx['id']
                    self.parent_p = owner
        ctx.require(self.k is not None and self.j is not None, '%s: attribute/output cursors not identified' % f['qn'])

    def binds_at(self, nid):
        """reference / const locals that still name their initialiser at this node (checked on the CFG): {local id: canonical string}"""
        cache = self.__dict__.setdefault('_binds_at', {})
        if nid not in cache:
            b = {}
            try:
                for (v, ini) in self.g.live_const_locals(nid):
                    b[v['id']] = pr.canon(ini, b)
            except Exception:
                b = {}
            cache[nid] = b
        return cache[nid]

    def atoms(self, node):
        """classify an atomic condition: returns role string or None"""
        e = strip(node.ast)
        lb = self.binds_at(node.id)
        s = pr.norm_obj(pr.canon(e, lb))
        k, x, i = 'L%d' % self.k, ('L%d' % self.x if self.x is not None else None), 'L%d' % self.i
        if e.get('k') == 'bin' and e.get('op') in ('!=', '=='):
            l, r = pr.norm_obj(pr.canon(e['lhs'], lb)), pr.norm_obj(pr.canon(e['rhs'], lb))
            pair = {l, r}
            neq = e['op'] == '!='
            if k in pair and any(p.endswith('.length') for p in pair):
                return ('k_in', neq)
            if x and x in pair and any(p.endswith('.l') for p in pair):
                return ('x_in', neq)
            if i in pair and any(p.endswith('.attrs[%s].idx' % k) for p in pair):
                return ('k_match', not neq)
            if x and i in pair and any(p.endswith('.b[%s].idx' % x) for p in pair):
                return ('x_match', not neq)
        if e.get('k') == 'member' and e.get('name') == 'omitFromKeys' and ('[%s]' % k) in s:
            return ('omit', True)
        if e.get('k') == 'member' and e.get('name') == 'omitAllFromKeysUnlessPresent':
            return ('omit_all', True)
        return None

    def body_paths(self):
        """acyclic paths head -> head (one iteration), each as (list of (node,label), outcome dict)"""
        g = self.g
        out = []
        for p in g.paths(self.head, {self.head}, allow_back_edges=0):
            if p[-1][0] != self.head:
                continue
            oc = {}
            env = {}
            feasible = True
            for (nid, lab) in p:
                n = g.nodes[nid]
                # boolean locals that only ever receive literals are propagated along the path (infeasible-path pruning)
                if n.kind == 'stmt' and n.ast is not None:
                    for x in walk(n.ast):
                        if x.get('k') == 'decl':
                            for v in x['vars']:
                                if (v.get('t') or {}).get('k') == 'bool' and v.get('init') is not None:
                                    b = strip(v['init']).get('bool')
                                    env[v['id']] = b
                        if x.get('k') == 'assign' and strip(x['lhs']).get('k') == 'ref' and (strip(x['lhs']).get('t') or {}).get('k') == 'bool':
                            env[strip(x['lhs'])['id']] = strip(x['rhs']).get('bool')
                if n.kind == 'cond' and lab is not None:
                    e = strip(n.ast)
                    if e.get('k') == 'ref' and e.get('rk') == 'local' and env.get(e.get('id')) is not None and env[e['id']] != lab:
                        feasible = False
                        break
                if n.kind == 'cond' and lab is not None:
                    a = self.atoms(n)
                    if a is not None:
                        role, positive = a
                        val = lab if positive else (not lab)
                        oc[role] = val
            if feasible:
                # paths that contradict what their own statements establish (a pointer local set on the path and then tested for
                # null, the same test on unchanged values with two outcomes) are infeasible
                try:
                    from . import grpdom
                    seg, conds = grpdom.run_path(self.prog, self.f, g, p)
                    if seg is None:
                        feasible = False
                    else:
                        seen = {}
                        for (k, lab) in conds:
                            if k[0] in ('cmp', 'truth') and seen.setdefault(k, lab) != lab:
                                feasible = False
                except Exception:
                    pass
            if feasible:
                out.append((p, oc))
        return out

    def count_on_path(self, p, vid):
        return sum(incs_in(self.g.nodes[nid].ast, vid) for (nid, lab) in p
                   if self.g.nodes[nid].kind == 'stmt' and self.g.nodes[nid].note != 'inc' and self.g.nodes[nid].ast is not None)

    def effect_calls(self, p):
        """calls on the path that write key material: (callee name, canonical `this`)"""
        out = []
        for (nid, lab) in p:
            n = self.g.nodes[nid]
            if n.kind == 'stmt' and n.note != 'inc':
                for c in pr.calls(n.ast):
                    if c.get('this') is not None:
                        out.append((c['name'], pr.norm_obj(pr.canon(c['this'])), c))
        return out


def slot_functions(prog):
    out = []
    for name in SLOT_FUNCS:
        fs = [f for f in prog.functions.values() if 'body' in f and f['qn'] == WK + name]
        if fs:
            out.append(fs[0])
    return out


def fmt_oc(oc):
    return ','.join('%s=%s' % (k, 'T' if v else 'F') for k, v in sorted(oc.items())) or '(no cursor test)'


def rule_cursor(ctx, cfg, prog):
    fs = slot_functions(prog)
    ctx.floor('R-CURSOR slot loops[%s]' % cfg, len(fs), 4)
    table = {}
    for f in fs:
        sl = SlotLoop(ctx, prog, f)
        name = f['name']
        paths = sl.body_paths()
        ctx.require(len(paths) >= 3, '%s: too few loop-body paths (%d)' % (name, len(paths)))
        rows = []
        for (p, oc) in paths:
            kinc = sl.count_on_path(p, sl.k)
            jinc = sl.count_on_path(p, sl.j)
            xinc = sl.count_on_path(p, sl.x) if sl.x is not None else 0
            rows.append((fmt_oc(oc), kinc, xinc, jinc))
            site = loc_str(sl.loop)
            # (1) a match that the path does not refute must advance the cursor
            k_possible = oc.get('k_in') is not False and oc.get('k_match') is not False
            ctx.ob('R-CURSOR', (not k_possible) or kinc >= 1, 'cursor|%s|k|%s' % (name, fmt_oc(oc)), site,
                   '%s: on the loop path [%s] the attribute for slot i may be the current one (k != length and attrs[k].idx == i not '
                   'refuted) but k is not advanced: the cursor lags behind i for ever and every later attribute is ignored' % (name, fmt_oc(oc)),
                   cfg=cfg, sample=dict(config=cfg, function=name, path=fmt_oc(oc), k_inc=kinc, x_inc=xinc, j_inc=jinc))
            if sl.x is not None:
                x_possible = oc.get('x_in') is not False and oc.get('x_match') is not False
                ctx.ob('R-CURSOR', (not x_possible) or xinc >= 1, 'cursor|%s|x|%s' % (name, fmt_oc(oc)), site,
                       '%s: on the loop path [%s] the parent\'s free slot for i may be the current one (x != l and b[x].idx == i not '
                       'refuted) but x is not advanced: all later parent slots are lost' % (name, fmt_oc(oc)), cfg=cfg)
            # (2) capacity: a consumed attribute does not also produce a free slot; one slot per iteration
            ctx.ob('R-CURSOR', jinc <= 1 and not (kinc >= 1 and jinc >= 1), 'cursor|%s|j|%s' % (name, fmt_oc(oc)), site,
                   '%s: loop path [%s] writes %d output slot(s) while consuming %d attribute(s): more free slots than '
                   'l - #matched can be produced (the caller allocates that many)' % (name, fmt_oc(oc), jinc, kinc), cfg=cfg)
            ctx.ob('R-CURSOR', kinc <= 1 and xinc <= 1, 'cursor|%s|once|%s' % (name, fmt_oc(oc)), site,
                   '%s: loop path [%s] advances a cursor more than once per slot' % (name, fmt_oc(oc)), cfg=cfg)
            # writes to out.b[j] only together with j++
            wrote_b = any(th.startswith(sl.out_p + '.b[') for (nm, th, c) in sl.effect_calls(p)) or \
                any(x.get('k') == 'assign' and pr.norm_obj(pr.canon(x['lhs'])).startswith(sl.out_p + '.b[')
                    for (nid, lab) in p if sl.g.nodes[nid].kind == 'stmt' and sl.g.nodes[nid].ast for x in walk(sl.g.nodes[nid].ast))
            ctx.ob('R-CURSOR', wrote_b == (jinc == 1), 'cursor|%s|jwrite|%s' % (name, fmt_oc(oc)), site,
                   '%s: loop path [%s] %s' % (name, fmt_oc(oc), 'writes b[j] without advancing j' if wrote_b else 'advances j without writing b[j]'),
                   cfg=cfg)
        table[name] = rows
        # (3) out.l = j after the loop on every path to exit
        g = sl.g
        asg = [n for n in g.stmt_nodes() if any(x.get('k') == 'assign' and pr.norm_obj(pr.canon(x['lhs'])) == sl.out_p + '.l' and
                                                strip(x['rhs']).get('id') == sl.j for x in walk(n.ast))]
        ok = len(asg) == 1 and g.must_pass_node(asg[0].id, g.exit.id) and sl.head not in g.reachable(start=asg[0].id)
        ctx.ob('R-CURSOR', ok, 'cursor|%s|length' % name, loc_str(f),
               '%s must store the number of slots written (`%s.l = j`) after the loop on every path' % (name, sl.out_p[2:]), cfg=cfg)
    ctx.notes.append('%s: sibling path tables (cursor-test outcomes -> k++, x++, j++): %s' % (cfg, table))
    return table


def rule_hidden(ctx, cfg, prog):
    fs = slot_functions(prog)
    ctx.floor('R-HIDDEN slot loops[%s]' % cfg, len(fs), 4)
    n = 0
    for f in fs:
        sl = SlotLoop(ctx, prog, f)
        name = f['name']
        hidden_paths = 0
        for (p, oc) in sl.body_paths():
            if oc.get('omit') is not True:
                continue
            hidden_paths += 1
            n += 1
            eff = [(nm, th) for (nm, th, c) in sl.effect_calls(p)
                   if th.startswith(sl.out_p) or th.startswith('L') and nm in ('add', 'multiply', 'copy')]
            jinc = sl.count_on_path(p, sl.j)
            ctx.ob('R-HIDDEN', not eff and jinc == 0, 'hidden|%s|%s' % (name, fmt_oc(oc)), loc_str(sl.loop),
                   '%s: on the loop path [%s] (attribute marked omitFromKeys) key material is written %s / a free slot is emitted (%d): '
                   'a hidden slot must contribute neither to the key nor a delegation component' % (name, fmt_oc(oc), eff, jinc), cfg=cfg,
                   sample=dict(config=cfg, function=name, hidden_path=fmt_oc(oc)))
        # "the flag is looked at on every matched path" is decided by R-SCHEME on values (robust to the flag being read through a pointer
        # local); here only the paths on which this rule recognises the test are examined
        ctx.count('R-HIDDEN recognised hidden paths[%s|%s]' % (name, cfg), hidden_paths)
        # a non-hidden matched attribute contributes h[i]^id (the visible case must still bind the attribute)
        bound = 0
        for (p, oc) in sl.body_paths():
            if oc.get('k_match') is True and oc.get('k_in') is not False and oc.get('omit') is False:
                muls = []
                for (nid_, lab_) in p:
                    nd_ = sl.g.nodes[nid_]
                    if nd_.kind == 'stmt' and nd_.note != 'inc' and nd_.ast is not None:
                        lb_ = sl.binds_at(nid_)
                        for c in pr.calls(nd_.ast):
                            if c.get('this') is not None and c['name'] == 'multiply' and \
                                    any(('.attrs[L%d].id' % sl.k) in pr.norm_obj(pr.canon(a, lb_)) for a in c.get('args', [])):
                                muls.append(c)
                if sl.x is not None and oc.get('x_match') is False or oc.get('x_in') is False:
                    pass
                bound += 1
                needs = name in ('keygen', 'qualifykey', 'nondelegable_keygen') or oc.get('x_match') is True
                ctx.ob('R-HIDDEN', bool(muls) or not needs, 'bind|%s|%s' % (name, fmt_oc(oc)), loc_str(sl.loop),
                       '%s: a visible matched attribute is consumed on path [%s] without its identity entering the key' % (name, fmt_oc(oc)), cfg=cfg)
        if hidden_paths >= 1:
            ctx.require(bound >= 1, '%s: no visible-attribute path found' % name)
    return n


def rule_total_precompute(ctx, cfg, prog):
    fs = [f for f in prog.functions.values() if 'body' in f and f['qn'] == WK + 'precompute']
    ctx.require(len(fs) == 1, 'wkdibe::precompute not found')
    f = fs[0]
    g = CFG(f)
    loops = [lp for (h, lp) in g.loops]
    ok = len(loops) == 1
    why = ''
    if ok:
        lp = loops[0]
        iv = ranges.for_iv(lp, {})
        init = lp['init']
        start = strip(init['vars'][0]['init']).get('cv') if init and init.get('k') == 'decl' else None
        ivt = (init['vars'][0].get('t') or {}) if init and init.get('k') == 'decl' else {}
        if start is None or ivt.get('k') != 'int' or lp.get('k') != 'for':
            # another way of walking the list (pointer walk, while loop): this rule is written for the index loop and has no verdict
            raise bm.AnalysisBroken('R-TOTAL: precompute does not walk its attribute list with an integer index from a constant: restructured, no verdict')
        c = strip(lp['c'])
        bound = pr.norm_obj(pr.canon(c['rhs'])) if c.get('k') == 'bin' else ''
        inc = strip(lp['inc'])
        ivid = init['vars'][0]['id']
        exits = [x for x in walk(lp['body']) if x.get('k') in ('break', 'continue', 'return', 'if')]
        muls = [c2 for c2 in pr.calls(lp['body']) if c2['name'] == 'multiply']
        adds = [c2 for c2 in pr.calls(lp['body']) if c2['name'] == 'add']
        binds = {}
        for n in walk(lp['body']):
            if n.get('k') == 'decl':
                for v in n['vars']:
                    if v.get('init') is not None and v['t'].get('k') == 'ref':
                        binds[v['id']] = pr.norm_obj(pr.canon(v['init']))
        good_mul = False
        for m in muls:
            args = [pr.norm_obj(pr.canon(a, binds)) for a in m.get('args', [])]
            if len(args) == 2 and args[0].endswith('.h[' + 'P:attrs.attrs[L%d].idx]' % ivid) and args[1] == 'P:attrs.attrs[L%d].id' % ivid:
                good_mul = True
        good_add = any(pr.norm_obj(pr.canon(a.get('this'))).endswith('.prodexp') and
                       pr.norm_obj(pr.canon(a['args'][0])).endswith('.prodexp') for a in adds if a.get('args'))
        ok = str(start) == '0' and c.get('op') == '!=' and bound.endswith('attrs.length') and inc.get('op') == '++' and not exits \
            and good_mul and good_add and not ranges.writes_to(lp['body'], ivid)
        why = 'start=%s bound=%s exits=%d mul=%s add=%s' % (start, bound, len(exits), good_mul, good_add)
    ctx.ob('R-TOTAL', ok, 'total|precompute', loc_str(f),
           'precompute must fold h[attr.idx]^attr.id into prodexp for every i in [0, attrs.length) with no skipped entry (%s)' % why, cfg=cfg,
           sample=dict(config=cfg, function='precompute', shape=why))
